"""C02 - hostile input: bounded readers never read out of bounds, crash or over-allocate.

Decided: the structural conditions without which some input breaks memory safety or the
allocation bound (the behaviour itself - 'no UB for any input' - is not decided as a whole):

  G/E/T  every bounded reader primitive (BufferReader, PedanticBufferReader; BoundedReader via the C16 rules)
         guards its transfer by need <= limit - pos in overflow-safe form; Ensure(n) <=> n <= remaining
  ENS.r  a decoded length sizes an allocation only after reader->Ensure(len) succeeded, the destination is
         resized to exactly len/sizeof(T) and one raw read covers exactly that; element-counted containers
         grow one element per decoded element (never resize/reserve with the decoded count)
  GRD.r  stores into fixed storage are dominated by the capacity / exact-length guard
  NR.r   the guards see the full 64-bit decoded length (no narrowing before the comparison)
  TM     every loop of a decoder is bounded by a constant or consumes input on each iteration (termination)
  TS/TR  skipped and framed table entries go through the reader's checked Skip / BoundedReader
"""
from .. import facts, ir, report, rwrules, encrules, tablerules, symx
from . import c16


def consumes_input(db, fn, call, depth):
    """the call reads from the reader (directly, or through a library helper that does on every successful path)"""
    cal = call.get('callee') or {}
    if not cal.get('ret', '').startswith('nop::Status'):
        return False
    if cal.get('n') in ('Read', 'ReadPayload', 'Skip', 'ReadPadding'):
        return True
    g = db.callee(fn, call)
    if g is None or 'body' not in g or depth > 4:
        return False
    return any(consumes_input(db, g, c, depth + 1) for c in ir.calls(g['body']))


def termination(chk, db, rule):
    seen = set()
    for f in db.fns:
        if not f['file'].startswith('nop/base/') or 'body' not in f or f.get('rect') != 'nop::Encoding':
            continue
        if not (f['n'].startswith('Read')):
            continue
        for lp in [y for y in ir.walk(f['body']) if y.get('k') in ('for', 'while', 'do', 'rfor')]:
            key = (f['file'], lp['loc']['l'])
            if key in seen:
                continue
            seen.add(key)
            reads = [c for c in ir.calls(lp['body']) if consumes_input(db, f, c, 0)]
            const_bound = False
            if lp['k'] == 'for' and lp.get('cond') is not None:
                c = ir.strip_all_casts(lp['cond'])
                if c.get('k') == 'bin' and c['op'] in ('<', '!=', '<=') and ir.const_of(c['r']) is not None:
                    const_bound = True
            exits_on_failure = False
            for st, g in ir.guarded(lp['body']):
                if st['k'] == 'ret':
                    exits_on_failure = True
            ok = const_bound or (bool(reads) and exits_on_failure)
            chk.decide(ok, rule, '%s:%d' % key, '%s: loop %s' % (f['n'], 'has a constant bound' if const_bound else (
                'consumes input through %s on every iteration and leaves on its failure' % ir.callee_name(reads[0]) if ok else
                'is bounded only by a decoded value and does not consume input each iteration')), function=ir.fn_label(f))


def rules(chk, db):
    chk.rule('T', 'Ensure(n) succeeds exactly when n <= limit - pos, overflow-safe', minimum=2)
    chk.rule('G', 'bounded readers guard every transfer by need <= limit - pos', minimum=4)
    chk.rule('E', 'refusal returns ReadLimitReached and has no effect', minimum=3)
    chk.rule('C', 'readers copy exactly need bytes from buffer[pos]; pos += need', minimum=5)
    chk.rule('NR.r', 'no narrowing conversion of a decoded length before it is validated', minimum=10)
    chk.rule('TM', 'every decoder loop has a constant bound or consumes input per iteration', minimum=4)
    chk.rule('NP', 'reader block copies into the caller\'s range run only for a non-empty request (an empty range may be null pointers: memcpy(null, p, 0) is undefined)', minimum=2)
    ids = {'T': 'T', 'G': 'G', 'E': 'E', 'C': 'C', 'NP': 'NP'}
    for rec in ('nop::BufferReader', 'nop::PedanticBufferReader'):
        rwrules.check_buffer_class(chk, db, rec, ids)
    c16.rules(chk, db, prefix='BR.', only={'nop::BoundedReader'})
    encrules.read_rules(chk, db, want=('ENS', 'GRD', 'RST'))      # RST: no decode into storage that was never constructed
    encrules.narrowing(chk, db, 'NR.r', {'ReadPayload', 'Read'})
    termination(chk, db, 'TM')
    tablerules.rules(chk, db, {'TS', 'TR'})


def run(chk, db):
    facts.gate(chk, db, ['nop/base/', 'nop/utility/buffer_reader.h', 'nop/utility/pedantic_buffer_reader.h', 'nop/utility/bounded_reader.h'])
    rules(chk, db)
    chk.explanation = (
        'Reader primitives: symbolic effect summaries compared with the guarded-transfer specification. Decoders: on the symbolic paths '
        'of every ReadPayload instance, allocation sinks (resize) must be preceded by a successful Ensure of the decoded byte length and '
        'followed by a raw read of exactly that size; fixed storage is written only under the exact-length / capacity guard; loops are '
        'input-consuming or constant-bounded. What is decided is these necessary conditions, not absence of undefined behaviour in general.')
    chk.assumptions = ['element constructors / std containers are memory-safe themselves', 'unbounded logical buffers are excluded by the property']
