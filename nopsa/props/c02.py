"""C02 - hostile input: bounded readers never read out of bounds, crash or over-allocate.

Decided: the structural conditions without which some input breaks memory safety or the
allocation bound (the behaviour itself - 'no UB for any input' - is not decided as a whole):

  G/E/T  every bounded reader primitive (BufferReader, PedanticBufferReader; BoundedReader via the C16 rules)
         guards its transfer by need <= limit - pos in overflow-safe form; Ensure(n) <=> n <= remaining
  ENS.r  a decoded length sizes an allocation only after reader->Ensure(len) succeeded, the destination is
         resized to exactly len/sizeof(T) and one raw read covers exactly that; element-counted containers
         grow one element per decoded element (never resize/reserve with the decoded count)
  GRD.r  stores into fixed storage are dominated by the capacity / exact-length guard
  NR.r   the guards see the full 64-bit decoded length (no narrowing before the comparison)
  TM     every loop of a decoder is bounded by a constant or consumes input on each iteration (termination)
  TS/TR  skipped and framed table entries go through the reader's checked Skip / BoundedReader
"""
from .. import facts, ir, report, rwrules, encrules, tablerules, symx
from . import c16


def consumes_input(db, fn, call, depth):
    """the call reads from the reader (directly, or through a library helper that does on every successful path)"""
    cal = call.get('callee') or {}
    if not cal.get('ret', '').startswith('nop::Status'):
        return False
    if cal.get('n') in ('Read', 'ReadPayload', 'Skip', 'ReadPadding'):
        return True
    g = db.callee(fn, call)
    if g is None or 'body' not in g or depth > 4:
        return False
    return any(consumes_input(db, g, c, depth + 1) for c in ir.calls(g['body']))


def termination(chk, db, rule):
    seen = set()
    for f in db.fns:
        if not f['file'].startswith('nop/base/') or 'body' not in f or f.get('rect') != 'nop::Encoding':
            continue
        if not (f['n'].startswith('Read')):
            continue
        for lp in [y for y in ir.walk(f['body']) if y.get('k') in ('for', 'while', 'do', 'rfor')]:
            key = (f['file'], lp['loc']['l'])
            if key in seen:
                continue
            seen.add(key)
            reads = [c for c in ir.calls(lp['body']) if consumes_input(db, f, c, 0)]
            const_bound = False
            if lp['k'] == 'for' and lp.get('cond') is not None:
                c = ir.strip_all_casts(lp['cond'])
                if c.get('k') == 'bin' and c['op'] in ('<', '!=', '<=') and ir.const_of(c['r']) is not None:
                    const_bound = True
            exits_on_failure = False
            for st, g in ir.guarded(lp['body']):
                if st['k'] == 'ret':
                    exits_on_failure = True
            ok = const_bound or (bool(reads) and exits_on_failure)
            chk.decide(ok, rule, '%s:%d' % key, '%s: loop %s' % (f['n'], 'has a constant bound' if const_bound else (
                'consumes input through %s on every iteration and leaves on its failure' % ir.callee_name(reads[0]) if ok else
                'is bounded only by a decoded value and does not consume input each iteration')), function=ir.fn_label(f))


def end_pointers(chk, db, rule):
    """EP: the address of a std::array / std::vector element is taken only at an index that is provably below the extent.
    `&c[N]` (the classic end-pointer idiom) is outside the precondition of operator[]: undefined behaviour, and an abort in
    builds with library assertions.  Ranges must be formed from data() / begin() plus a count."""
    import re
    seen = {}
    for f in db.fns:
        if 'body' not in f or not f['file'].startswith('nop/'):
            continue
        # induction variables of counted loops `for (...; i < K; ...)` with a constant K: var id -> K, for the nodes of the loop body
        bounded = {}

        def loops(node, env):
            if isinstance(node, dict):
                e2 = env
                if node.get('k') in ('for', 'while') and node.get('cond') is not None:
                    cnd = ir.strip_all_casts(node['cond'])
                    if cnd.get('k') == 'bin' and cnd.get('op') in ('<', '!='):
                        lv, kk = ir.strip_all_casts(cnd['l']), ir.const_of(ir.strip_all_casts(cnd['r']))
                        okform = cnd.get('op') == '<'
                        if cnd.get('op') == '!=' and node.get('k') == 'for' and lv.get('k') == 'ref':
                            # `i != K` bounds i below K when i starts at a constant not above K and is only stepped by one
                            start = None
                            for y2 in ir.walk(node.get('init') or {}):
                                if y2.get('k') == 'decl':
                                    for v2 in y2['vars']:
                                        if v2.get('id') == lv.get('id') and v2.get('init') is not None:
                                            start = ir.const_of(ir.strip_all_casts(v2['init']))
                            inc = ir.strip_all_casts(node.get('inc') or {})
                            steps = inc.get('k') == 'un' and inc.get('op') == '++' and ir.strip_all_casts(inc.get('e', {})).get('id') == lv.get('id')
                            okform = start is not None and kk is not None and 0 <= start <= kk and steps
                        if lv.get('k') == 'ref' and kk is not None and okform:
                            e2 = dict(env)
                            e2[lv.get('id')] = kk
                if node.get('k') == 'un' and node.get('op') == '&':
                    bounded[id(node)] = e2
                for v in node.values():
                    loops(v, e2)
            elif isinstance(node, list):
                for v in node:
                    loops(v, env)
        loops(f['body'], {})
        for y in ir.walk(f['body']):
            if y.get('k') != 'un' or y.get('op') != '&':
                continue
            c = ir.strip_all_casts(y.get('e', {}))
            cal = c.get('callee') or {}
            if c.get('k') != 'call' or cal.get('n') != 'operator[]' or cal.get('rect') not in ('std::array', 'std::vector'):
                continue
            idx = c['args'][-1] if c.get('args') else None
            k = ir.const_of(ir.strip_all_casts(idx)) if idx is not None else None
            m = re.search(r'std::array<.*, (\d+)U?L?>$', cal.get('rec') or '')
            extent = int(m.group(1)) if m else None
            if k is not None and (extent is None or k < extent) and not (extent == 0):
                ok, why = True, 'constant index %d below the extent' % k
            elif k is not None:
                ok, why = False, 'index %d is not below the extent %s of %s' % (k, extent, cal.get('rec'))
            elif ir.strip_all_casts(idx).get('k') == 'ref' and ir.strip_all_casts(idx).get('id') in bounded.get(id(y), {}) and \
                    (extent is None or bounded[id(y)][ir.strip_all_casts(idx)['id']] <= extent):
                ok, why = True, 'loop index bounded by %d' % bounded[id(y)][ir.strip_all_casts(idx)['id']]
            else:
                ok, why = False, 'index `%s` may equal the extent of %s' % (ir.show(idx)[:40], (cal.get('rec') or '')[:60])
            key = (f['file'], c.get('loc', {}).get('l'), c.get('loc', {}).get('c'))
            if key not in seen or (not ok and seen[key][0]):
                seen[key] = (ok, why, f)
    for (file, line, col), (ok, why, f) in sorted(seen.items()):
        chk.decide(ok, rule, '%s:%s:%s' % (file, line, col), 'address of a subscripted std container element in %s: %s' % (f['n'], why),
                   function=ir.fn_label(f))


def rules(chk, db):
    chk.rule('T', 'Ensure(n) succeeds exactly when n <= limit - pos, overflow-safe', minimum=2)
    chk.rule('G', 'bounded readers guard every transfer by need <= limit - pos', minimum=4)
    chk.rule('E', 'refusal returns ReadLimitReached and has no effect', minimum=3)
    chk.rule('C', 'readers copy exactly need bytes from buffer[pos]; pos += need', minimum=5)
    chk.rule('NR.r', 'no narrowing conversion of a decoded length before it is validated', minimum=10)
    chk.rule('TM', 'every decoder loop has a constant bound or consumes input per iteration', minimum=4)
    chk.rule('NP', 'reader block copies into the caller\'s range run only for a non-empty request (an empty range may be null pointers: memcpy(null, p, 0) is undefined)', minimum=2)
    ids = {'T': 'T', 'G': 'G', 'E': 'E', 'C': 'C', 'NP': 'NP'}
    for rec in ('nop::BufferReader', 'nop::PedanticBufferReader'):
        rwrules.check_buffer_class(chk, db, rec, ids)
    c16.rules(chk, db, prefix='BR.', only={'nop::BoundedReader'})
    encrules.read_rules(chk, db, want=('ENS', 'GRD', 'RST'))      # RST: no decode into storage that was never constructed
    encrules.narrowing(chk, db, 'NR.r', {'ReadPayload', 'Read'})
    termination(chk, db, 'TM')
    # the capacity the logical-buffer guard (GRD) compares a wire count with is the element count of the array member
    from .. import witness
    witness.run(chk, 'c02_capacity.cpp', 'CAP', 'compile-time witnesses: LogicalBuffer<>::Length is the first extent of the array member (Length * sizeof(element) <= sizeof(array)) for 1-D / 2-D / 3-D C arrays and std::array', minimum=7)
    # a wrapper decoder stores each component through that component's own decoder and type: decoding an enum / error code as a
    # wider integer writes past the destination object
    chk.rule('CO', 'wrapper decoders are composed of exactly the documented component encodings (stored with the component\'s own type)', minimum=30)
    encrules.composition(chk, db, 'CO', ('ReadPayload', 'Match'))
    chk.rule('EP', 'no end pointer is formed by subscripting a std::array / std::vector at its extent (operator[] precondition)', minimum=2)
    end_pointers(chk, db, 'EP')
    tablerules.rules(chk, db, {'TS', 'TR'})
    # "after a failed read the destination is still valid to destroy, inspect and read into again": sum-type destinations are
    # re-seated by the decoder through Become / assignment / clear; those operations keep index / state and element lifetime
    # consistent from every reachable state, also when an element constructor throws half-way (typestate rules, see C12 / C13)
    from . import c12, c13
    c12.explore(chk, db, prefix='TV.')
    c13.typestate(chk, db, prefix='TS.')
    # BoundedReader<FdReader>: a block read asks for exactly what is still missing (a stale length after a short read writes past
    # the destination)
    chk.rule('FDR', 'fd reader: every read(2) asks for the bytes still missing; success only when all arrived', minimum=2)
    rwrules.check_fd_class(chk, db, 'nop::FdReader', 'reader', 'FDR')


def run(chk, db):
    facts.gate(chk, db, ['nop/base/', 'nop/utility/buffer_reader.h', 'nop/utility/pedantic_buffer_reader.h', 'nop/utility/bounded_reader.h'])
    rules(chk, db)
    chk.explanation = (
        'Reader primitives: symbolic effect summaries compared with the guarded-transfer specification. Decoders: on the symbolic paths '
        'of every ReadPayload instance, allocation sinks (resize) must be preceded by a successful Ensure of the decoded byte length and '
        'followed by a raw read of exactly that size; fixed storage is written only under the exact-length / capacity guard; loops are '
        'input-consuming or constant-bounded. What is decided is these necessary conditions, not absence of undefined behaviour in general.')
    chk.assumptions = ['element constructors / std containers are memory-safe themselves', 'unbounded logical buffers are excluded by the property']
