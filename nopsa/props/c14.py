"""C14 - RPC dispatch calls exactly the selected handler with the sent arguments.

  DT  InterfaceBindings::operator(): selector read through the receiver, failure returned; the DispatchTable recursion
      (flattened) tries every binding, dispatches to the binding whose own Match succeeded, and returns
      InvalidInterfaceMethod without touching the receiver again when none matches
  HD  Helper::Dispatch: GetArgs -> (on failure: return it, handler not called, nothing sent) -> exactly one Call ->
      exactly one SendReturn of that call's result, whose status is returned
  CL  Helper::Call forwards the pass-through arguments first and then std::get<0..N-1>(args) in order
  SN  SimpleMethodSender::SendMethod: selector, then the argument tuple, then GetReturn; each failure is stored and stops;
      GetReturn decodes into a fresh value and stores either it or the error
  RC  SimpleMethodReceiver: each primitive is exactly one Read/Write of its own argument on the (de)serializer
  IV  InterfaceMethod::Invoke sends its own Selector and all arguments in order
  NR  no narrowing integral conversion of a run-time selector anywhere in the dispatch path
  W   compile-time witnesses: duplicate selectors / double binding / too few handler arguments / incompatible
      signatures are rejected; conforming and fungible substitutions are accepted
"""
import re

from .. import facts, ir, report, symx, termx, witness
from ..symx import StatusVal


def one_per_pattern(fns):
    seen = set()
    out = []
    for f in fns:
        k = (f['file'], f['pat']['l'], len(f['params']))
        if k not in seen:
            seen.add(k)
            out.append(f)
    return out


def every_instance(fns):
    """all distinct instantiations (a template member can diverge per instantiation, e.g. on sizeof...(Args))"""
    seen = set()
    out = []
    for f in fns:
        k = (f['file'], f['pat']['l'], f.get('rec'), tuple(f.get('targs') or ()), tuple(p['t'] for p in f['params']))
        if k not in seen:
            seen.add(k)
            out.append(f)
    return out


def inst_tag(f):
    return ' <%s>' % ', '.join(x[:40] for x in (f.get('targs') or [])) if f.get('targs') is not None else ''


def dispatch_table(chk, db, rule):
    fns = [f for f in db.fns if f.get('rect') == 'nop::InterfaceBindings' and f['n'] == 'operator()' and 'body' in f]
    by_count = {}
    for f in fns:
        r = db.records.get(f['rec'], {})
        n = len([1 for a in (f.get('recargs') or [])[1:]])
        m = re.search(r'Index<(\d+)', ' '.join(y.get('t', '') for y in ir.walk(f['body']) if y.get('k') == 'ctor'))
        cnt = int(m.group(1)) if m else 0
        by_count.setdefault(cnt, f)
    if not by_count:
        chk.unanalysable(rule, 'nop/rpc/interface.h', 'InterfaceBindings::operator() not instantiated')
        return
    for cnt, f in sorted(by_count.items()):
        where = facts.site(f) + ' <%d bindings>' % cnt
        try:
            paths = symx.paths_of(db, f, lambda c, e: c['n'] == 'DispatchTable')
        except symx.Unsupported as e:
            chk.unanalysable(rule, where, str(e))
            continue
        why = []
        dispatched = 0
        misses = 0
        for p in paths:
            ev = [e for e in p.events if e.kind == 'call']
            if not ev or ev[0].name != 'GetMethodSelector' or ev[0].obj != 'p:receiver':
                why.append('selector is not read through the receiver first')
                continue
            if p.status_facts().get(0) is False:
                if len(ev) != 1 or not (isinstance(p.ret, StatusVal) and p.ret.kind in ('errof', 'call') and p.ret.arg == 0):
                    why.append('selector read failure is not returned at once')
                continue
            sel = list(getattr(ev[0], 'outs', {}).values())
            matches = [(e, p.conds) for e in ev if e.name == 'Match']
            for e in matches:
                if not sel or repr(e[0].args[0]) != repr(sel[0]):
                    why.append('Match receives %r, not the decoded selector' % (e[0].args[0],))
            disp = [e for e in ev if e.name == 'Dispatch']
            true_matches = []
            for c, s in p.conds:
                m = re.match(r'^Match\(.*\)#(\d+)$', repr(c))
                if m and s:
                    true_matches.append(int(m.group(1)))
            if disp:
                dispatched += 1
                if len(disp) != 1 or len(true_matches) != 1:
                    why.append('a path dispatches %d times after %d successful matches' % (len(disp), len(true_matches)))
                    continue
                mclass = getattr(p.events[true_matches[0]], 'q', '').rsplit('::Match', 1)[0]
                dclass = getattr(disp[0], 'q', '').rsplit('::Dispatch', 1)[0]
                if mclass != dclass:
                    why.append('selector matched binding %s but %s is dispatched' % (mclass[-60:], dclass[-60:]))
                if not (isinstance(p.ret, StatusVal) and p.ret.kind == 'call' and p.events[p.ret.arg] is disp[0]):
                    why.append('handler status is not what is returned')
                if not disp[0].args or repr(disp[0].args[0]) != 'p:receiver':
                    why.append('Dispatch does not receive the receiver first')
                # the handler that runs is the bound object itself, not a copy of it (a stateful handler must keep its state)
                obj = ir.strip_all_casts((disp[0].expr or {}).get('obj') or {})
                if obj.get('k') == 'ref' and obj.get('dk') == 'local':
                    decl = None
                    for g in db.fns:
                        if g.get('_tu') is f.get('_tu') and g.get('rect') == 'nop::InterfaceBindings' and 'body' in g:
                            for y in ir.walk(g['body']):
                                if y.get('k') == 'decl':
                                    for v in y['vars']:
                                        if v.get('id') == obj.get('id'):
                                            decl = v
                    if decl is None or not decl.get('t', '').rstrip().endswith('&'):
                        why.append('the binding is copied into a local (%s) and the copy is dispatched' % (decl or {}).get('t', '?')[:60])
            else:
                misses += 1
                if true_matches or not (isinstance(p.ret, StatusVal) and p.ret.kind == 'err' and p.ret.arg == 'InvalidInterfaceMethod'):
                    why.append('no-match path returns %r' % (p.ret,))
                if len(matches) != cnt:
                    why.append('no-match verdict after testing %d of %d bindings' % (len(matches), cnt))
                if [e for e in ev[1:] if e.obj == 'p:receiver']:
                    why.append('receiver used although no binding matched')
        if dispatched != cnt or misses != 1:
            why.append('%d dispatching paths for %d bindings, %d no-match paths' % (dispatched, cnt, misses))
        chk.decide(not why, rule, where, 'InterfaceBindings::operator(): %s' % ('; '.join(sorted(set(why))[:3]) if why else
                   'every binding tried; the matching binding is dispatched; otherwise InvalidInterfaceMethod'), function=ir.fn_label(f))


def helper_dispatch(chk, db, rule):
    fns = [f for f in db.fns if f['file'] == 'nop/rpc/interface.h' and f['n'] == 'Dispatch' and 'Helper<' in f.get('rec', '') and 'body' in f]
    for f in one_per_pattern(fns):
        where = facts.site(f)
        paths = symx.paths_of(db, f, lambda c, e: False)
        why = []
        for p in paths:
            ev = [e for e in p.events if e.kind == 'call' and (e.obj == 'p:receiver' or e.name == 'Call')]
            names = [e.name for e in ev]
            if not names or names[0] != 'GetArgs':
                why.append('arguments are not read first')
                continue
            gi = p.events.index(ev[0])
            if p.status_facts().get(gi) is False:
                if names != ['GetArgs'] or not (isinstance(p.ret, StatusVal) and p.ret.arg == gi):
                    why.append('after a failed GetArgs: %s, returns %r' % (names[1:], p.ret))
                continue
            if names != ['GetArgs', 'Call', 'SendReturn']:
                why.append('event order %s, expected GetArgs, Call, SendReturn' % names)
                continue
            call, send = ev[1], ev[2]
            tuple_arg = repr(ev[0].args[0]) if ev[0].args else None      # &l:<tuple local> handed to GetArgs
            if tuple_arg is None or not tuple_arg.startswith('&l:') or tuple_arg not in [repr(a) for a in call.args]:
                why.append('handler is not called with the decoded argument tuple')
            if 'Call(' not in repr(send.args[0]):
                why.append('SendReturn sends %r, not the handler result' % (send.args[0],))
            if not (isinstance(p.ret, StatusVal) and p.ret.kind == 'call' and p.events[p.ret.arg] is send):
                why.append('SendReturn status is not what is returned')
        chk.decide(not why, rule, where, 'Helper::Dispatch: %s' % ('; '.join(sorted(set(why))) if why else 'GetArgs, one Call, one SendReturn of its result'),
                   function=ir.fn_label(f))


def helper_call(chk, db, rule):
    fns = [f for f in db.fns if f['file'] == 'nop/rpc/interface.h' and f['n'] == 'Call' and 'Helper<' in f.get('rec', '') and 'body' in f]
    seen = set()
    for f in fns:
        n = 0
        for ta in (f.get('targs') or []):
            if re.match(r'^<(\d+UL(, )?)*>$', ta.strip()):
                n = len(re.findall(r'\d+UL', ta))
                break
        key = (f['file'], f['pat']['l'], n)
        if key in seen:
            continue
        seen.add(key)
        where = facts.site(f) + ' <%d args>' % n
        # the single call expression that invokes the handler: its arguments in order
        invs = [c for c in ir.calls(f['body']) if not (c.get('callee') or {}).get('q', '').startswith('std::')]
        inv = None
        for c in invs:
            if c.get('ck') in ('op', 'member', 'free') and (c.get('callee') is None or c['callee']['n'] in ('operator()',) or c.get('ck') == 'member' or 'fn' in c):
                inv = c
        why = []
        if inv is None:
            why.append('handler invocation not found')
        else:
            args = inv['args'][1:] if inv.get('ck') == 'op' else inv['args']
            kinds = []
            for a in args:
                a0 = ir.strip_all_casts(a)
                while a0.get('k') == 'call' and (a0.get('callee') or {}).get('n') in ('forward', 'move'):
                    a0 = ir.strip_all_casts(a0['args'][0])
                if a0.get('k') == 'call' and (a0.get('callee') or {}).get('n') == 'get':
                    m = re.search(r'get<(\d+)', a0['callee']['q'])
                    kinds.append(('get', int(m.group(1)) if m else None))
                elif a0.get('k') == 'ref' and a0.get('dk') == 'param':
                    kinds.append(('pass', a0['n']))
                else:
                    kinds.append(('other', ir.show(a0)[:30]))
            gets = [k[1] for k in kinds if k[0] == 'get']
            first_get = next((i for i, k in enumerate(kinds) if k[0] == 'get'), len(kinds))
            if gets != list(range(len(gets))) or len(gets) != n:
                why.append('tuple elements forwarded in order %s, expected 0..%d' % (gets, n - 1))
            if any(k[0] != 'pass' for k in kinds[:first_get]) or any(k[0] != 'get' for k in kinds[first_get:]):
                why.append('pass-through arguments are not forwarded before the decoded ones: %s' % kinds)
        chk.decide(not why, rule, where, 'Helper::Call: %s' % ('; '.join(why) if why else 'pass-through first, then get<0..%d> in order' % (n - 1)), function=ir.fn_label(f))


def sender(chk, db, rule):
    fns = [f for f in db.fns if f.get('rect') == 'nop::SimpleMethodSender' and 'body' in f]
    for f in every_instance([g for g in fns if g['n'] == 'SendMethod']):
        where = facts.site(f) + inst_tag(f)
        # private helpers of the sender (other than GetReturn, which has its own rule) are part of SendMethod
        paths = symx.paths_of(db, f, lambda c, e: c.get('rect') == 'nop::SimpleMethodSender' and c['n'] != 'GetReturn')
        why = []
        full = [p for p in paths if all(p.status_facts().values())]
        for p in paths:
            ev = [e for e in p.events if e.kind == 'call' and (e.obj.startswith('f:') or e.name == 'GetReturn')]
            seq = [(e.obj, e.name, repr(e.args[0]) if e.args else '') for e in ev]
            want = [('f:serializer_', 'Write', 'p:method_selector'), ('f:serializer_', 'Write', 'p:args'), ('this', 'GetReturn', 'p:return_value')]
            if seq != want[:len(seq)]:
                why.append('order %s' % [(s[1], s[2]) for s in seq])
            failed = [i for i, v in p.status_facts().items() if v is False]
            if failed:
                stores = [e for e in p.events if e.kind == 'call' and e.name == 'operator=' and 'error_of(status#%d)' % failed[0] in repr(e.args)]
                if not stores or [e for e in ev if p.events.index(e) > failed[0]]:
                    why.append('after a failed write the error is not stored / the call continues')
            elif len(seq) != 3:
                why.append('successful path performs %s' % [(s[1], s[2]) for s in seq])
        chk.decide(not why, rule, where, 'SendMethod: %s' % ('; '.join(sorted(set(why))) if why else 'selector, argument tuple, GetReturn; failures stored and final'),
                   function=ir.fn_label(f))
    for f in every_instance([g for g in fns if g['n'] == 'GetReturn']):
        where = facts.site(f) + inst_tag(f)
        paths = symx.paths_of(db, f, lambda c, e: False)
        why = []
        if f['params'][0]['t'].startswith('nop::Status<void>'):
            ok = len(paths) == 1 and any(e.kind == 'call' and e.name == 'operator=' and 'OK' in repr(e.args) for e in paths[0].events)
            if not ok:
                why.append('void return does not report success')
        else:
            for p in paths:
                ev = [e for e in p.events if e.kind == 'call']
                io = [e for e in ev if e.obj.startswith('f:')]
                if len(io) != 1 or io[0].obj != 'f:deserializer_' or io[0].name != 'Read':
                    why.append('return value is not decoded through the deserializer')
                    continue
                stores = [e for e in ev if e.name == 'operator=']
                k = p.events.index(io[0])
                dest = repr(io[0].args[0]).lstrip('&')          # the local the reply is decoded into
                if p.status_facts().get(k) is False:
                    if not stores or 'error_of(status#%d)' % k not in repr(stores[-1].args):
                        why.append('decode failure not stored')
                elif not stores or 'd:%s#%d' % (dest.split(':', 1)[-1], k) not in repr(stores[-1].args):
                    why.append('decoded value not stored')
        chk.decide(not why, rule, where, 'GetReturn: %s' % ('; '.join(sorted(set(why))) if why else 'decode, store value or error'), function=ir.fn_label(f))


def receiver(chk, db, rule):
    fns = [f for f in db.fns if f.get('rect') == 'nop::SimpleMethodReceiver' and 'body' in f and f['n'] in ('GetMethodSelector', 'GetArgs', 'SendReturn')]
    want = {'GetMethodSelector': ('f:deserializer_', 'Read'), 'GetArgs': ('f:deserializer_', 'Read'), 'SendReturn': ('f:serializer_', 'Write')}
    names = set()
    for f in every_instance(fns):
        where = facts.site(f)
        names.add(f['n'])
        paths = symx.paths_of(db, f, lambda c, e: False)
        why = []
        for p in paths:
            ev = [e for e in p.events if e.kind == 'call']
            if len(ev) != 1 or (ev[0].obj, ev[0].name) != want[f['n']] or repr(ev[0].args[0]) != 'p:' + f['params'][0]['n']:
                why.append('performs %s' % [(e.obj, e.name, [repr(a) for a in e.args]) for e in ev])
            elif not (isinstance(p.ret, StatusVal) and p.ret.kind == 'call' and p.ret.arg == p.events.index(ev[0])):
                why.append('does not return the status of the transfer')
        chk.decide(not why, rule, where + ' ' + f['n'] + '(%s)' % f['params'][0]['t'][:40], 'SimpleMethodReceiver::%s: %s' % (f['n'], '; '.join(sorted(set(why))) if why else
                   'one %s of its argument, status returned' % want[f['n']][1]), function=ir.fn_label(f))
    for n in set(want) - names:
        chk.unanalysable(rule, 'nop/rpc/simple_method_receiver.h', 'no instance of ' + n)


def invoke(chk, db, rule):
    fns = [f for f in db.fns if f['file'] == 'nop/rpc/interface.h' and f['n'] == 'Invoke' and 'Helper<' in f.get('rec', '') and 'body' in f]
    seen = set()
    for f in fns:
        n = len(f['params']) - 2
        key = (f['pat']['l'], n)
        if key in seen:
            continue
        seen.add(key)
        where = facts.site(f) + ' <%d args>' % n
        paths = symx.paths_of(db, f, lambda c, e: False)
        why = []
        for p in paths:
            sm = [e for e in p.events if e.kind == 'call' and e.name == 'SendMethod']
            if len(sm) != 1:
                why.append('SendMethod called %d times' % len(sm))
                continue
            sel = symx.as_poly(sm[0].args[0])
            m = re.search(r'InterfaceMethod<[^,]+, (\d+)', f['rec'])
            if not sel.is_const() or (m and int(m.group(1)) != sel.const_value()):
                why.append('selector sent is %r, the method selector is %s' % (sm[0].args[0], m.group(1) if m else '?'))
            if repr(sm[0].args[1]) != 'p:return_value':
                why.append('return slot not forwarded')
            tup = [e for e in p.events if e.kind == 'call' and e.name == 'forward_as_tuple']
            if len(tup) != 1 or len(tup[0].args) != n:
                why.append('argument tuple has %s elements, the method takes %d' % ([len(t.args) for t in tup], n))
        # argument order inside forward_as_tuple: parameters in declaration order
        ft = [c for c in ir.calls(f['body']) if ir.callee_name(c) == 'forward_as_tuple']
        if ft:
            ids = [ir.strip_all_casts(a).get('id') for a in ft[0]['args']]
            if ids != [p['id'] for p in f['params'][2:]]:
                why.append('arguments are packed out of order')
        chk.decide(not why, rule, where, 'Helper::Invoke: %s' % ('; '.join(sorted(set(why))) if why else 'own selector, return slot, all arguments in order'), function=ir.fn_label(f))


def narrowing(chk, db, rule):
    seen = {}
    for f in db.fns:
        if not f['file'].startswith('nop/rpc/') or 'body' not in f or f['n'] == 'ComputeMethodSelector':
            continue
        for y in ir.walk(f['body']):
            if y.get('k') in ('icast', 'cast') and y.get('ck') == 'IntegralCast' and 'cv' not in y:
                a, b = termx.tname(y['from']), termx.tname(y['to'])
                if a in termx.BITS and b in termx.BITS and termx.BITS[b] < termx.BITS[a] and b != 'bool':
                    seen.setdefault((f['file'], f['pat']['l'], f['n'], a, b), f)
    for key, f in sorted(seen.items()):
        chk.bad(rule, '%s:%d %s (%s->%s)' % key, '%s: a run-time %s is narrowed to %s in the dispatch path (selectors above the narrower range alias bound ones)' % (
            ir.fn_label(f)[:100], key[3], key[4]), function=ir.fn_label(f))
    for file in sorted({f['file'] for f in db.fns if f['file'].startswith('nop/rpc/')}):
        chk.ok(rule, file, 'scanned for narrowing conversions')


def rules(chk, db):
    chk.rule('DT', 'dispatch table: every binding tried, matching binding dispatched, else InvalidInterfaceMethod', minimum=3)
    chk.rule('HD', 'Helper::Dispatch: GetArgs, exactly one Call, exactly one SendReturn of its result', minimum=2)
    chk.rule('CL', 'Helper::Call forwards pass-through then get<0..N-1> in order', minimum=3)
    chk.rule('SN', 'sender: selector, arguments, return; failures stored and final', minimum=3)
    chk.rule('RC', 'receiver primitives: exactly one Read/Write of their argument', minimum=3)
    chk.rule('IV', 'Invoke sends its own selector and all arguments in order', minimum=3)
    chk.rule('NR', 'no narrowing of a run-time selector in the dispatch path', minimum=3)
    dispatch_table(chk, db, 'DT')
    helper_dispatch(chk, db, 'HD')
    helper_call(chk, db, 'CL')
    sender(chk, db, 'SN')
    receiver(chk, db, 'RC')
    invoke(chk, db, 'IV')
    narrowing(chk, db, 'NR')
    # requests and replies travel over the library's stream transports in the examples: their primitives, including the advisory
    # Ensure/Prepare, must not fail or disturb the stream for a well-formed request (e.g. one that ends in an empty string)
    from .. import rwrules
    chk.rule('ST', 'stream transport primitives move exactly the requested bytes; Ensure/Prepare have no effect and succeed', minimum=6)
    chk.rule('SS', 'stream status mapping', minimum=2)
    rwrules.check_stream_class(chk, db, 'nop::StreamReader', 'reader', 'ST', 'SS')
    rwrules.check_stream_class(chk, db, 'nop::StreamWriter', 'writer', 'ST', 'SS')
    chk.rule('FD', 'fd transport: every requested byte or an error; EINTR retried; end of data reported', minimum=4)
    rwrules.check_fd_class(chk, db, 'nop::FdReader', 'reader', 'FD')
    rwrules.check_fd_class(chk, db, 'nop::FdWriter', 'writer', 'FD')
    from .. import encrules
    chk.rule('CO', 'Result / Optional / Variant replies are composed of the documented component encodings on both ends', minimum=30)
    encrules.composition(chk, db, 'CO', ('WritePayload', 'ReadPayload'))
    # the reply (a Status<T> / Result / Optional return value) is sent through Prepare(Size(reply)): in every state of the value
    # Size() must size exactly what the writer emits, or the reply is refused / written from the wrong member
    encrules.size_rules(chk, db)
    # "a request whose arguments fail to decode yields that decode error": the argument tuple's count and every fixed-size
    # argument's length are validated on the full 64-bit value, in the documented unit
    chk.rule('NR', 'no narrowing of a decoded count / length in any decoder', minimum=10)
    encrules.narrowing(chk, db, 'NR', {'ReadPayload', 'Read'})
    # ENS: a declared length / count reaches an allocation only after the reader confirmed that many bytes (no exception escapes dispatch)
    encrules.read_rules(chk, db, want=('GRD', 'ENS'))
    # ... and a corrupted scalar argument byte is a decode error, not a dispatch: Match of the scalar decoders accepts exactly the documented bytes
    from .. import ilrules
    chk.rule('MS', 'Match accepts exactly the documented classes (all 256 prefix bytes)', minimum=9)
    chk.rule('FB', 'float/double/bool match sets and payloads', minimum=3)
    ilrules.match_sets(chk, db, 'MS')
    ilrules.float_bool(chk, db, 'FB')
    # "the handler bound to the request's method selector": selectors are SipHash of the method name under the INTERFACE's hash, so
    # equal method names of different interfaces get different selectors (compile-time witnesses shared with C18)
    from . import c18
    c18.witnesses(chk)
    witness.run(chk, 'c14_rpc.cpp', 'W', 'compile-time witnesses for interface declarations and bindings', minimum=6)


def run(chk, db):
    facts.gate(chk, db, ['nop/rpc/'])
    rules(chk, db)
    chk.explanation = (
        'Event-order and def-use rules on the symbolic paths of the dispatch layer for interfaces with 1, 2 and 4 bindings (DispatchTable '
        'recursion flattened), of Helper::Dispatch/Call/Invoke for several arities, and of the simple sender/receiver; compile-time '
        'witnesses for the static uniqueness and compatibility checks. Equality of argument values reduces to C01 for the argument tuple.')
    chk.assumptions = ['the handler is an arbitrary callable; only the library side of the call is analysed']
