"""C20 - HostEndian conversions are correct byte-order maps for ints and floats.

Term-domain evaluation of the two byte-assembly helpers plus a call-graph rule:

  LM  each helper instance `out |= (T)value[K] << C ...` is exactly the little-endian
      lane map {K -> 8K} or the big-endian one {K -> 8(N-1-K)} for K = 0..N-1, starts
      from 0, widens each byte enough for its shift, and returns the accumulator
  PB  every public From*/To* function reaches helper instances of its own endianness
      only (helpers are classified by their lane map, not by their name)
  SZ  the helper is instantiated with N == sizeof(T) and the index sequence 0..N-1;
      the floating-point specialisation picks an integral type of the same size
  PU  the bytes handed to the helper are the object representation of the argument
      (union member initialised from the parameter) and, for floating point, the
      result is read back through a union with the integral result (bit pattern kept)

On a little-endian host the little map is the identity and the big map the byte
reversal; both are involutions, hence To* == From* is correct.
"""
import re

from .. import facts, ir, report, rw

CLASS = ('nop::HostEndian', 'nop::fx::HostEndian')


def lane_terms(fn):
    """returns (lanes {K: C}, widths {K: bytes of the shifted operand}, problems)"""
    lanes, widths, problems = {}, {}, []
    body = fn.get('body')
    out_id = None
    init_ok = False
    for st in ir.stmt_list(body):
        if st['k'] == 'decl':
            for v in st['vars']:
                if 'id' in v and v.get('init') is not None and ir.const_of(ir.strip_all_casts(v['init'])) == 0 and out_id is None:
                    out_id = v['id']
                    init_ok = True
    ret_ok = False
    for y in ir.walk(body):
        if y.get('k') == 'ret' and y.get('e') is not None:
            r = ir.strip_all_casts(y['e'])
            ret_ok = r.get('k') == 'ref' and r.get('id') == out_id
        if y.get('k') == 'bin' and y['op'] in ('|=', '+=', '^=', '='):
            lhs = ir.strip(y['l'])
            if lhs.get('k') != 'ref' or lhs.get('id') != out_id:
                continue
            if y['op'] != '|=':
                problems.append('accumulator updated with %s' % y['op'])
                continue
            rhs = y['r']
            # peel casts around the shift
            r = rhs
            while r['k'] in ('icast', 'cast'):
                r = r['e']
            if r['k'] != 'bin' or r['op'] != '<<':
                problems.append('term is not a shifted byte: %s' % ir.show(rhs)[:80])
                continue
            c = ir.const_of(r['r'])
            operand = r['l']
            width = None
            o = operand
            if o['k'] in ('icast', 'cast'):
                width = rw.SIZEOF.get(o['to'].replace('const ', ''))
            # the byte must enter the arithmetic zero-extended: the element itself unsigned 8-bit, or first
            # converted to an unsigned 8-bit type
            chain = []
            oo = o
            while oo['k'] in ('icast', 'cast'):
                if oo.get('ck') == 'IntegralCast':
                    chain.append((oo['from'].replace('const ', ''), oo['to'].replace('const ', '')))
                oo = oo['e']
            if chain and chain[-1][0] in ('char', 'signed char') and chain[-1][1] != 'unsigned char':
                problems.append('byte is read through a signed type (%s): bytes >= 0x80 are sign-extended' % chain[-1][0])
            o = ir.strip_all_casts(o)
            k = None
            if o['k'] == 'idx':
                base = ir.strip_all_casts(o['b'])
                if base.get('k') == 'ref' and base.get('dk') == 'param':
                    k = ir.const_of(o['i'])
            if k is None or c is None:
                problems.append('cannot fold byte index / shift in %s' % ir.show(rhs)[:80])
                continue
            if k in lanes:
                problems.append('byte %d used twice' % k)
            lanes[k] = c
            widths[k] = max(width or 1, 4)    # integer promotion
    if not init_ok:
        problems.append('accumulator does not start at 0')
    if not ret_ok:
        problems.append('accumulator is not what is returned')
    return lanes, widths, problems


def is_union(db, t):
    t = t.replace('const ', '').strip()
    if 'union' in t:
        return True          # unnamed local union
    r = db.records.get(t)
    return bool(r and r.get('union'))


def classify(lanes, n):
    kinds = set()
    if lanes == {k: 8 * k for k in range(n)}:
        kinds.add('little')
    if lanes == {k: 8 * (n - 1 - k) for k in range(n)}:
        kinds.add('big')     # for N == 1 the two maps coincide
    return kinds


def rules(chk, db):
    chk.rule('LM', 'helper lane map is exactly little {K->8K} or big {K->8(N-1-K)}, from 0, wide enough, returned', minimum=16)
    chk.rule('PB', 'public From*/To* reach helpers of their own endianness only', minimum=40)
    chk.rule('SZ', 'helper N == sizeof(T), index sequence 0..N-1, float uses an integral type of equal size', minimum=20)
    chk.rule('PU', 'helper input is the object representation of the argument; float result read back through a union', minimum=20)
    fns = [f for f in db.fns if f.get('rect') in CLASS and 'body' in f]
    if not fns:
        chk.unanalysable('LM', 'nop/utility/endian.h', 'no HostEndian instance')
        return
    helpers = {}
    publics = []
    for f in fns:
        if f['params'] and '(&)[' in f['params'][0]['t']:
            helpers[f['fid'], id(f['_tu'])] = f
        elif f['params']:
            publics.append(f)
    kind_of = {}
    for key, h in sorted(helpers.items(), key=lambda kv: kv[1]['q']):
        where = facts.site(h)
        m = re.search(r'\[(\d+)\]', h['params'][0]['t'])
        n = int(m.group(1))
        lanes, widths, problems = lane_terms(h)
        kind = classify(lanes, n)
        for k, c in lanes.items():
            if c + 8 > widths[k] * 8:
                problems.append('byte %d shifted by %d in a %d-bit operand' % (k, c, widths[k] * 8))
        kind_of[key] = kind
        chk.decide(bool(kind) and not problems, 'LM', where + ' ' + h['rec'].replace('nop::HostEndian', 'HE') + '::' + h['n'],
                   '%s: lanes %s -> %s%s' % (ir.fn_label(h)[:90], lanes, '/'.join(sorted(kind)) or 'NEITHER little nor big',
                                              ('; ' + '; '.join(problems)) if problems else ''), function=ir.fn_label(h))
        # SZ on the helper: T of the class, N, index sequence
        t = h['recargs'][0] if h.get('recargs') else ''
        seq = h.get('targs', ['', ''])
        idxs = [int(x) for x in re.findall(r'(\d+)UL', seq[1])] if len(seq) > 1 else []
        size_t = rw.SIZEOF.get(t)
        chk.decide(size_t == n and idxs == list(range(n)), 'SZ', where + ' ' + ir.fn_label(h)[:60],
                   'helper of HostEndian<%s>: N=%d sizeof(T)=%s index sequence %s' % (t, n, size_t, idxs), function=ir.fn_label(h))

    def reach(f, seen=None):
        """helper instances reachable from f through calls inside HostEndian"""
        seen = seen if seen is not None else set()
        out = set()
        for c in ir.calls(f.get('body')):
            callee = db.callee(f, c)
            if callee is None or callee.get('rect') not in CLASS:
                continue
            key = (callee['fid'], id(callee['_tu']))
            if key in helpers:
                out.add(key)
            elif key not in seen:
                seen.add(key)
                out |= reach(callee, seen)
        return out

    for f in sorted(publics, key=lambda x: x['q']):
        where = facts.site(f) + ' ' + f['rec'].replace('nop::HostEndian', 'HE') + '::' + f['n']
        name = f['n']
        want = 'big' if name.endswith('Big') else ('little' if name.endswith('Little') else None)
        if want is None:
            continue
        hs = reach(f)
        kinds = [kind_of.get(h) or set() for h in hs]
        chk.decide(bool(hs) and all(want in k for k in kinds), 'PB', where,
                   '%s reaches helper(s) with lane map %s, expected only %s' % (ir.fn_label(f)[:80], ['/'.join(sorted(k)) or 'none' for k in kinds], want),
                   function=ir.fn_label(f))
        t = f['params'][0]['t']
        size_t = rw.SIZEOF.get(t)
        direct = [c for c in ir.calls(f['body']) if (db.callee(f, c) or {}).get('fid') is not None and
                  (db.callee(f, c)['fid'], id(db.callee(f, c)['_tu'])) in helpers]
        rets_all = [y for y in ir.walk(f['body']) if y.get('k') == 'ret']
        conds = [y for y in ir.walk(f['body']) if y.get('k') in ('if', 'switch', 'cond', 'for', 'while')]
        if len(rets_all) != 1 or conds:
            chk.bad('PU', where, '%s: %d return statements / %d branches: some value bypasses the byte-order conversion' % (
                ir.fn_label(f)[:70], len(rets_all), len(conds)), function=ir.fn_label(f))
            continue
        if not direct:
            # To* forwarding functions: the single return must be the same-endianness From* of the argument
            r = ir.strip_all_casts(rets_all[0]['e'])
            okf = r.get('k') == 'call' and len(r['args']) == 1 and ir.strip_all_casts(r['args'][0]).get('id') == f['params'][0]['id']
            chk.decide(okf, 'PU', where, '%s forwards its argument unchanged: %s' % (ir.fn_label(f)[:70], okf), function=ir.fn_label(f))
            continue
        call = direct[0]
        h = db.callee(f, call)
        n = int(re.search(r'\[(\d+)\]', h['params'][0]['t']).group(1))
        hsize = rw.SIZEOF.get(h['recargs'][0])
        chk.decide(size_t == n == hsize, 'SZ', where, '%s: sizeof(T)=%s, helper N=%d over integral type %s (size %s)' % (
            ir.fn_label(f)[:70], size_t, n, h['recargs'][0], hsize), function=ir.fn_label(f))
        # PU: arg0 is <union local>.member of array type, the union initialised from the parameter
        arg0 = ir.strip_all_casts(call['args'][0])
        pid = f['params'][0]['id']
        locals_ = {}
        for st in ir.stmt_list(f['body']):
            if st['k'] == 'decl':
                for v in st['vars']:
                    if 'id' in v:
                        locals_[v['id']] = v
        ok = False
        why = ''
        if arg0.get('k') == 'mem' and ir.strip(arg0['b']).get('k') == 'ref' and ir.strip(arg0['b']).get('id') in locals_ and \
                is_union(db, locals_[ir.strip(arg0['b'])['id']]['t']) and arg0['t'].startswith('unsigned char['):
            v = locals_[ir.strip(arg0['b'])['id']]
            init = v.get('init')
            els = init['el'] if init and init.get('k') == 'ilist' else []
            if len(els) == 1 and ir.strip_all_casts(els[0]).get('id') == pid:
                ok = True
            else:
                why = 'input union not initialised from the argument'
        else:
            why = 'helper argument is not the byte view of a union holding the argument'
        if ok and t in ('float', 'double'):
            # the value returned must be a member of a union whose initialiser is the helper call
            rets = [y for y in ir.walk(f['body']) if y.get('k') == 'ret']
            r = ir.strip_all_casts(rets[0]['e']) if rets else {}
            good = False
            if r.get('k') == 'mem' and ir.strip(r['b']).get('id') in locals_:
                v = locals_[ir.strip(r['b'])['id']]
                init = v.get('init')
                els = init['el'] if init and init.get('k') == 'ilist' else []
                def unwrap(x):
                    # conversions and copy/move construction of the integral value do not change its bits; any other call
                    # wrapped around the helper result (a "fix-up" of the converted bits) is not accepted
                    for _ in range(8):
                        x = ir.strip_all_casts(x)
                        if x.get('k') == 'ctor' and len(x.get('args', [])) == 1 and x.get('copymove'):
                            x = x['args'][0]
                            continue
                        if x.get('k') == 'ilist' and len(x.get('el', [])) == 1:
                            x = x['el'][0]
                            continue
                        break
                    return x
                inner = unwrap(els[0]) if len(els) == 1 else {}
                # a call wrapped around the helper result is accepted only if it is the identity on its argument as a term
                for _ in range(4):
                    if inner is ir.strip_all_casts(call) or inner.get('k') != 'call' or len(inner.get('args', [])) != 1:
                        break
                    g = db.callee(f, inner)
                    if g is None or 'body' not in g:
                        break
                    try:
                        from .. import termx
                        exq = termx.TermExec(db, g)
                        exq.bind(g['params'][0]['id'], termx.SYM('bits'))
                        if exq.run_body(g['body']) is not termx.SYM('bits'):
                            break
                    except termx.Unsupported:
                        break
                    inner = unwrap(inner['args'][0])
                if is_union(db, v['t']) and len(els) == 1 and inner is ir.strip_all_casts(call):
                    good = r.get('t', '').replace('const ', '') == t
            if not good:
                ok = False
                why = 'floating-point result is not read back through a union initialised with the integral result'
        chk.decide(ok, 'PU', where, '%s: %s' % (ir.fn_label(f)[:70], why or 'bytes of the argument in, bit pattern out'), function=ir.fn_label(f))


def run(chk, db):
    facts.gate(chk, db, ['nop/utility/endian.h'])
    rules(chk, db)
    chk.explanation = (
        'Byte-lane maps of every instantiated helper (widths 1,2,4,8; signed and unsigned) extracted from the folded constants of the '
        'pack expansion and compared with the little/big layouts; call-graph binding of the 4 public functions of each of the 11 '
        'specialisations (8 integers, char, float, double) to helpers of their own endianness; size and punning structure.')
    chk.assumptions = ['little-endian host for the reading "little = identity, big = reversal"', 'union punning as used by the code is '
                       'honoured by the compiler (GCC/Clang document it)']
    report.selftest(chk, rules, 'c20.cpp', {'LM': 1, 'PB': 1})
