"""C19 - no hidden shared state across threads; ThreadLocal is per thread and slot.

Decided completely by inventory (DESIGN §4 C19): the set of objects with static
storage duration declared under include/nop is finite and enumerated from the AST of
patterns *and* instances.  A data race between operations on distinct objects needs
an object both threads can reach; with no static mutable state, no fields that alias
library-owned storage and no non-reentrant libc calls there is none.
"""
from .. import facts, ir, report, witness

NON_REENTRANT = {
    'strerror', 'localtime', 'gmtime', 'asctime', 'ctime', 'strtok', 'rand', 'srand', 'getenv', 'setenv',
    'putenv', 'setlocale', 'tmpnam', 'readdir', 'getpwnam', 'getpwuid', 'gethostbyname', 'strsignal', 'ttyname',
    'basename', 'dirname', 'getlogin', 'ptsname', 'drand48', 'lrand48', 'mrand48', 'random', 'srandom',
}


def rules(chk, db):
    chk.rule('S1', 'every object with static storage duration under include/nop is thread_local or immutable '
                   '(const/constexpr type without mutable members)')
    chk.rule('S2', 'ThreadLocal<T,Slot> storage is a thread_local static local of a static member of the class template '
                   'specialisation (one object per thread per (T,Slot))')
    chk.rule('S3', 'ThreadLocal setup writes the slot only when it is empty (first initialisation wins); Clear() clears it')
    chk.rule('S4', 'Encoding<>/EncodingIO<>/SerializerCommon are stateless: no non-static data members, only static members')
    chk.rule('S5', 'no call to a non-reentrant C library function from any library function', minimum=0)

    # ---- S1 ------------------------------------------------------------
    seen = set()
    tl_statics = []
    for s in db.statics:
        key = (s['file'], s['loc']['l'], s.get('fn') or s.get('rec') or '', s['q'], s['t'])
        if key in seen:
            continue
        seen.add(key)
        where = '%s:%d' % (s['file'], s['loc']['l'])
        name = (s.get('fn', '') + '::' if s.get('fn') else '') + s['q']
        immutable = (s['constexpr'] or s['const']) and not s.get('has_mutable')
        okay = s['tls'] or immutable
        chk.decide(okay, 'S1', where,
                   'static-storage object `%s` of type %s: %s' % (
                       name, s['t'][:60],
                       'thread_local' if s['tls'] else ('immutable' if immutable else
                                                        'shared by all threads and mutable')),
                   function=name)
        if s.get('rect', '').endswith('::ThreadLocal'):
            tl_statics.append(s)

    # ---- S2 ------------------------------------------------------------
    tl_fns = [f for f in db.fns if f.get('rect', '').endswith('::ThreadLocal')]
    if not tl_fns:
        chk.unanalysable('S2', 'nop/types/thread_local.h', 'no instance of ThreadLocal<> members found')
    storage_fn_names = set()
    for s in tl_statics:
        if s['dependent']:
            continue
        where = '%s:%d' % (s['file'], s['loc']['l'])
        storage_fn_names.add(s['fn'].rsplit('::', 1)[-1])
        chk.decide(bool(s['tls']) and s['local'] and s.get('fn_static'), 'S2', where,
                   '%s::%s tls=%s static-member=%s' % (s['fn'], s['q'], s['tls'], s.get('fn_static')), function=s['fn'])
    inst_classes = {f['rec'] for f in tl_fns}
    for rec in sorted(inst_classes):
        r = db.records.get(rec)
        if r is None:
            continue
        has_storage = any(s.get('fn', '').startswith(rec + '::') for s in tl_statics)
        chk.decide(has_storage and len(r.get('recargs', [])) == 2, 'S2', r['file'] + ':%d' % r['loc']['l'],
                   '%s owns a static-storage slot of its own: %s; template arguments (T, Slot): %s' %
                   (rec, has_storage, r.get('recargs')), function=rec)

    # ---- S3 ------------------------------------------------------------
    for f in tl_fns:
        if 'body' not in f:
            continue
        # Setup role: obtains the slot pointer from the storage function and writes through it.
        slot_vars = {}
        for st, g in ir.guarded(f['body']):
            if st['k'] == 'decl':
                for v in st['vars']:
                    init = v.get('init')
                    if init is not None:
                        c = ir.strip(init)
                        if c['k'] == 'call' and c.get('callee') and c['callee']['n'] in storage_fn_names:
                            slot_vars[v['id']] = v['n']
        if slot_vars:
            for st, g in ir.guarded(f['body']):
                if st['k'] != 'expr':
                    continue
                for c in ir.calls(st['e']):
                    cal = c.get('callee')
                    if not cal or cal['n'] != 'operator=':
                        continue
                    tgt = ir.strip(c['args'][0])
                    if not (tgt['k'] == 'un' and tgt['op'] == '*' and ir.strip(tgt['e']).get('id') in slot_vars):
                        continue
                    vid = ir.strip(tgt['e'])['id']
                    guarded_by_empty = False
                    for cond, sense in ir.facts_of(g):
                        if cond['k'] == 'call' and cond.get('callee') and cond['callee']['n'] == 'empty' and sense and \
                                ir.strip(cond.get('obj', {})).get('id') == vid:
                            guarded_by_empty = True
                    chk.decide(guarded_by_empty, 'S3', facts.site(f, c.get('loc')),
                               'write to the thread-local slot in %s is %sguarded by %s->empty()' %
                               (f['n'], '' if guarded_by_empty else 'NOT ', slot_vars[vid]), function=ir.fn_label(f))
        if f['n'] == 'Clear':
            clears = [c for c in ir.calls(f['body']) if ir.callee_name(c) == 'clear' and
                      ir.strip(c.get('obj', {})).get('k') == 'mem']
            chk.decide(len(clears) == 1, 'S3', facts.site(f), 'Clear() calls clear() on the slot: %d call(s)' % len(clears),
                       function=ir.fn_label(f))

    # ---- S4 ------------------------------------------------------------
    for q, r in sorted(db.records.items()):
        if r.get('rect') in ('nop::Encoding', 'nop::EncodingIO', 'nop::fx::Encoding') or q == 'nop::SerializerCommon':
            where = '%s:%d' % (r['file'], r['loc']['l'])
            chk.decide(len(r['fields']) == 0, 'S4', where + ' fields',
                       '%s has %d non-static data member(s)%s' % (
                           q[:90], len(r['fields']), (': ' + ', '.join(x['n'] for x in r['fields'])) if r['fields'] else ''),
                       function=q)
    enc_fns = {}
    for f in db.fns:
        if f.get('rect') in ('nop::Encoding', 'nop::EncodingIO', 'nop::fx::Encoding') or f.get('rec') == 'nop::SerializerCommon':
            if f.get('ctor') or f.get('dtor') or f.get('defaulted'):
                continue
            enc_fns.setdefault((f['file'], f['pat']['l'], f['n']), f)
    for (file, line, n), f in sorted(enc_fns.items()):
        chk.decide(bool(f.get('static')), 'S4', '%s:%d' % (file, line),
                   '%s is %sa static member function' % (n, '' if f.get('static') else 'NOT '), function=ir.fn_label(f))

    # ---- S5 ------------------------------------------------------------
    seen = set()
    for f in db.fns:
        if 'body' not in f:
            continue
        for c in ir.calls(f['body']):
            cal = c.get('callee')
            if not cal or cal.get('nop'):
                continue
            base = cal['n']
            if base in NON_REENTRANT and not cal.get('rec'):
                key = (f['file'], c['loc']['l'], base)
                if key in seen:
                    continue
                seen.add(key)
                chk.bad('S5', facts.site(f, c.get('loc')), 'call to non-reentrant %s() in %s' % (base, f['n']),
                        function=ir.fn_label(f))


def run(chk, db):
    chk.explanation = (
        'Inventory of every variable with static storage duration declared under include/nop, over function patterns and '
        'their instantiations in the analysed translation units; structural rules on ThreadLocal (storage, first '
        'initialisation wins, Clear) and on the statelessness of the encoders; deny-list of non-reentrant libc callees.')
    chk.assumptions = ['user-supplied readers/writers are not shared between threads by the caller',
                       'read(2)/write(2)/close(2), memcpy, memset and the iostream objects owned by a reader/writer are '
                       'thread-safe on distinct objects (libc/libstdc++ contract)']
    facts.gate(chk, db, ['nop/'])
    rules(chk, db)
    witness.run(chk, 'c19_slots.cpp', 'S6', 'compile-time witnesses: slot tag types denote distinct (T, Slot) pairs', minimum=10)
    report.selftest(chk, rules, 'c19.cpp', {'S1': 4, 'S2': 1, 'S3': 2, 'S4': 2, 'S5': 2})
