"""C19 - no hidden shared state across threads; ThreadLocal is per thread and slot.

Decided completely by inventory (DESIGN §4 C19): the set of objects with static
storage duration declared under include/nop is finite and enumerated from the AST of
patterns *and* instances.  A data race between operations on distinct objects needs
an object both threads can reach; with no static mutable state, no fields that alias
library-owned storage and no non-reentrant libc calls there is none.
"""
from .. import facts, ir, report, witness

NON_REENTRANT = {
    # state shared beyond the object: the open file description (dup'ed descriptors), descriptor table, process-wide settings
    'fcntl', 'ioctl', 'dup2', 'dup3', 'setsockopt', 'sigaction', 'sigprocmask', 'umask', 'chdir', 'fchdir', 'setrlimit',
    'strerror', 'localtime', 'gmtime', 'asctime', 'ctime', 'strtok', 'rand', 'srand', 'getenv', 'setenv',
    'putenv', 'setlocale', 'tmpnam', 'readdir', 'getpwnam', 'getpwuid', 'gethostbyname', 'strsignal', 'ttyname',
    'basename', 'dirname', 'getlogin', 'ptsname', 'drand48', 'lrand48', 'mrand48', 'random', 'srandom',
    # functions that change state shared by the whole process (signal dispositions, environment, cwd, umask, handlers ...):
    # two objects on two threads that each "save and restore" such state interfere with each other
    'signal', 'sigaction', 'sigprocmask', 'bsd_signal', 'sigset', 'unsetenv', 'clearenv', 'umask', 'chdir', 'fchdir', 'chroot',
    'setuid', 'setgid', 'seteuid', 'setegid', 'setrlimit', 'setpriority', 'nice', 'alarm', 'setitimer', 'atexit', 'at_quick_exit',
    'set_terminate', 'set_new_handler', 'set_unexpected', 'srand48', 'seed48', 'setvbuf', 'setbuf', 'freopen', 'tzset',
}


def rules(chk, db):
    chk.rule('S1', 'every object with static storage duration under include/nop is immutable, or the thread_local slot of ThreadLocal '
                   '(const/constexpr type without mutable members)')
    chk.rule('S2', 'ThreadLocal<T,Slot> storage is a thread_local static local of a static member of the class template '
                   'specialisation (one object per thread per (T,Slot))')
    chk.rule('S3', 'ThreadLocal setup writes the slot only when it is empty (first initialisation wins); Clear() clears it')
    chk.rule('S4', 'Encoding<>/EncodingIO<>/SerializerCommon are stateless: no non-static data members, only static members')
    chk.rule('S5', 'no call to a non-reentrant or process-global-state-changing C library function from any library function', minimum=0)

    # ---- S1 ------------------------------------------------------------
    seen = set()
    tl_statics = []
    for s in db.statics:
        key = (s['file'], s['loc']['l'], s.get('fn') or s.get('rec') or '', s['q'], s['t'])
        if key in seen:
            continue
        seen.add(key)
        where = '%s:%d' % (s['file'], s['loc']['l'])
        name = (s.get('fn', '') + '::' if s.get('fn') else '') + s['q']
        immutable = (s['constexpr'] or s['const']) and not s.get('has_mutable')
        # mutable thread_local storage is the job of ThreadLocal<T, Slot> alone: anywhere else it is state that survives from one call
        # to the next on the same thread (a scratch object that is never reset makes a decode depend on the previous one)
        sanctioned = s.get('rect', '').endswith('::ThreadLocal') or '::ThreadLocal<' in (s.get('fn') or '') or (s.get('fn') or '').startswith('nop::ThreadLocal')
        okay = immutable or (s['tls'] and sanctioned)
        chk.decide(okay, 'S1', where,
                   'static-storage object `%s` of type %s: %s' % (
                       name, s['t'][:60],
                       'immutable' if immutable else (('thread_local slot of ThreadLocal' if sanctioned else
                                                       'thread_local but mutable state OUTSIDE ThreadLocal: it survives between calls on the same thread')
                                                      if s['tls'] else 'shared by all threads and mutable')),
                   function=name)
        if s.get('rect', '').endswith('::ThreadLocal'):
            tl_statics.append(s)

    # ---- S2 ------------------------------------------------------------
    tl_fns = [f for f in db.fns if f.get('rect', '').endswith('::ThreadLocal')]
    if not tl_fns:
        chk.unanalysable('S2', 'nop/types/thread_local.h', 'no instance of ThreadLocal<> members found')
    storage_fn_names = set()
    for s in tl_statics:
        if s['dependent']:
            continue
        where = '%s:%d' % (s['file'], s['loc']['l'])
        storage_fn_names.add(s['fn'].rsplit('::', 1)[-1])
        # ... and exactly one per (T, Slot): the owning function is a plain member of ThreadLocal<T, Slot>, not a member template
        # (a storage function template has one object per set of template arguments, e.g. per initialiser type)
        own_targs = s['fn'].rsplit('::', 1)[-1].find('<') >= 0
        chk.decide(bool(s['tls']) and s['local'] and s.get('fn_static') and not own_targs, 'S2', where,
                   '%s::%s tls=%s static-member=%s%s' % (s['fn'], s['q'], s['tls'], s.get('fn_static'),
                                                          ' - the owning function is a TEMPLATE: the storage is keyed by its template arguments as well as (T, Slot)' if own_targs else ''),
                   function=s['fn'])
    inst_classes = {f['rec'] for f in tl_fns}
    for rec in sorted(inst_classes):
        r = db.records.get(rec)
        if r is None:
            continue
        has_storage = any(s.get('fn', '').startswith(rec + '::') for s in tl_statics)
        chk.decide(has_storage and len(r.get('recargs', [])) == 2, 'S2', r['file'] + ':%d' % r['loc']['l'],
                   '%s owns a static-storage slot of its own: %s; template arguments (T, Slot): %s' %
                   (rec, has_storage, r.get('recargs')), function=rec)

    # ---- S3 ------------------------------------------------------------
    # "the slot" is denoted by: a local initialised from the storage function, a direct call of the storage function, or the
    # pointer member that caches it.  Every assignment to *slot must execute only while slot->empty() holds - either tested in
    # the same function or, for a private helper, at every one of its call sites (one level of callers).
    def slot_exprs(f):
        local = {}
        for y in ir.walk(f.get('body')):
            if y.get('k') == 'decl':
                for v in y['vars']:
                    init = v.get('init')
                    if init is not None and 'id' in v:
                        c = ir.strip_all_casts(init)
                        if c.get('k') == 'call' and c.get('callee') and c['callee']['n'] in storage_fn_names:
                            local[v['id']] = v['n']
        local['#params'] = {p.get('id') for p in f['params'] if 'nop::Optional<' in p['t'] and p['t'].rstrip().endswith('*')}
        return local

    def is_cached(e):
        e = ir.strip_all_casts(e)
        return e.get('k') == 'mem' and ir.strip_all_casts(e.get('b', {})).get('k') == 'this' and 'nop::Optional<' in (e.get('t') or '') and \
            (e.get('t') or '').rstrip().endswith('*')

    def slot_param(f, e):
        """index of the pointer-to-slot parameter of a helper that `e` denotes, or None"""
        e = ir.strip_all_casts(e)
        if e.get('k') != 'ref':
            return None
        for i, p in enumerate(f['params']):
            if p.get('id') == e.get('id') and 'nop::Optional<' in p['t'] and p['t'].rstrip().endswith('*'):
                return i
        return None

    def is_slot(e, local):
        e = ir.strip_all_casts(e)
        if e.get('k') == 'ref' and e.get('id') in local:
            return True
        if e.get('k') == 'ref' and e.get('id') in local.get('#params', ()):
            return True
        if e.get('k') == 'call' and e.get('callee') and e['callee']['n'] in storage_fn_names:
            return True
        if e.get('k') == 'mem' and ir.strip_all_casts(e.get('b', {})).get('k') == 'this' and 'nop::Optional<' in (e.get('t') or '') and \
                (e.get('t') or '').rstrip().endswith('*'):
            return True
        return False

    def guards_empty(g, local):
        for cond, sense in ir.facts_of(g):
            if cond.get('k') == 'call' and cond.get('callee') and cond['callee']['n'] == 'empty' and sense and is_slot(cond.get('obj', {}), local):
                return True
        return False

    by_rec = {}
    for f in tl_fns:
        if 'body' in f:
            by_rec.setdefault(f['rec'], []).append(f)
    for rec, members in sorted(by_rec.items()):
        unguarded_writers = {}        # fid -> (fn, call) of writes not guarded locally
        nwrites = 0
        for f in members:
            local = slot_exprs(f)
            for st, g in ir.guarded(f['body']):
                if st['k'] not in ('expr', 'ret', 'decl'):
                    continue
                for c in ir.calls(st.get('e') if st['k'] != 'decl' else {'k': 'block', 'body': [st]}):
                    cal = c.get('callee')
                    if not cal or cal['n'] != 'operator=' or not c.get('args'):
                        continue
                    tgt = ir.strip_all_casts(c['args'][0])
                    if not (tgt.get('k') == 'un' and tgt['op'] == '*' and is_slot(tgt['e'], local)):
                        continue
                    nwrites += 1
                    # WHICH slot: an initialising write must address the calling thread's slot - looked up through the storage
                    # function within the operation - not the pointer the constructing thread cached in the object
                    if is_cached(tgt['e']):
                        chk.bad('S3', facts.site(f, c.get('loc')), 'initialising write in %s goes through the slot pointer cached at construction: '
                                'called from another thread it initialises the constructing thread\'s slot' % f['n'], function=ir.fn_label(f))
                    pi = slot_param(f, tgt['e'])
                    if pi is not None:
                        for g2 in members:
                            exprs = [y for y in [g2.get('body')] if y] + [i.get('e') for i in g2.get('inits', []) if i.get('e')]
                            l2 = slot_exprs(g2)
                            for ex in exprs:
                                for c2 in ir.calls(ex):
                                    cal2 = db.callee(g2, c2)
                                    if cal2 is None or cal2.get('fid') != f.get('fid') or cal2.get('_tu') is not f.get('_tu') or len(c2.get('args', [])) <= pi:
                                        continue
                                    a = c2['args'][pi]
                                    fresh = is_slot(a, {k: v for k, v in l2.items() if k != '#params'}) and not is_cached(a)
                                    chk.decide(fresh, 'S3', facts.site(g2, c2.get('loc')) + ' slot',
                                               '%s passes %s to the initialising helper %s' % (
                                                   g2['n'], 'the calling thread\'s slot (storage function)' if fresh else
                                                   'the slot pointer cached at construction (the constructing thread\'s slot)', f['n']), function=ir.fn_label(g2))
                    if guards_empty(g, local):
                        chk.ok('S3', facts.site(f, c.get('loc')), 'write to the thread-local slot in %s is guarded by ->empty()' % f['n'])
                    else:
                        unguarded_writers.setdefault(f.get('fid'), []).append((f, c))
        for fid, lst in unguarded_writers.items():
            f = lst[0][0]
            sites = []
            for g2 in members:
                local2 = slot_exprs(g2)
                for st, g in ir.guarded(g2['body']):
                    whole = st.get('e') if st['k'] in ('expr', 'ret') else ({'k': 'block', 'body': [st]} if st['k'] == 'decl' else None)
                    for c in ir.calls(whole) if whole is not None else []:
                        cal = db.callee(g2, c)
                        if cal is not None and cal.get('fid') == fid and cal.get('_tu') is f.get('_tu'):
                            sites.append((g2, c, guards_empty(g, local2)))
                # constructor initialisers are unconditional call sites
                for i in g2.get('inits', []):
                    for c in ir.calls(i.get('e')):
                        cal = db.callee(g2, c)
                        if cal is not None and cal.get('fid') == fid and cal.get('_tu') is f.get('_tu'):
                            sites.append((g2, c, False))
            private_helper = f.get('access') in ('private', 'protected') and sites
            for (wf, wc) in lst:
                bad_sites = [(g2, c) for g2, c, ok in sites if not ok]
                okay = bool(private_helper) and not bad_sites
                chk.decide(okay, 'S3', facts.site(wf, wc.get('loc')),
                           'write to the thread-local slot in %s is NOT guarded by ->empty()%s' % (
                               wf['n'], '' if not private_helper else (' and is reached unguarded from %s' % sorted({g2['n'] for g2, c in bad_sites}) if bad_sites
                                                                      else ' locally, but every call site tests ->empty() first')),
                           function=ir.fn_label(wf))
        if nwrites == 0:
            chk.unanalysable('S3', rec, 'no assignment to the thread-local slot recognised in %s (setup role not found)' % rec)
        # the first initialisation must WIN: after the guarded assignment the slot is non-empty whatever the initialiser is - decided
        # by abstract execution of the assignment for slots whose value type is itself an Optional (empty and non-empty initialiser)
        if 'nop::Optional<' in rec.split('ThreadLocal<', 1)[-1]:
            from .. import tablerules, absx
            for f in members:
                local = slot_exprs(f)
                if not local or not f['params']:
                    continue
                for c in ir.calls(f['body']):
                    cal = c.get('callee') or {}
                    if cal.get('n') != 'operator=' or not c.get('args'):
                        continue
                    tgt = ir.strip_all_casts(c['args'][0])
                    if not (tgt.get('k') == 'un' and tgt['op'] == '*' and ir.strip_all_casts(tgt['e']).get('id') in local):
                        continue
                    try:
                        bad_states = []
                        done = []
                        for st in ('empty', 'value'):
                            try:
                                still_empty, probs = tablerules.reseat_leaves_value(db, f, c, st, target_local=ir.strip_all_casts(tgt['e'])['id'])
                            except absx.Unsupported:
                                if st == 'empty':
                                    raise
                                continue        # the empty initialiser is the discriminating case
                            done.append(st)
                            if still_empty != 0:
                                bad_states.append(st)
                        chk.decide(not bad_states, 'S3', facts.site(f, c.get('loc')) + ' wins',
                                   'initialising an empty slot of %s with %s initialiser leaves the slot %s' % (
                                       rec.replace('nop::', '')[:60], ' / '.join('an ' + b if b == 'empty' else 'a ' + b for b in bad_states) or 'any',
                                       'EMPTY: a later initialisation in the same thread would win' if bad_states else 'non-empty'), function=ir.fn_label(f))
                    except absx.Unsupported as e:
                        chk.unanalysable('S3', facts.site(f, c.get('loc')), 'cannot execute the slot assignment abstractly: %s' % e)
    for f in tl_fns:
        if 'body' not in f:
            continue
        if f['n'] == 'Clear':
            clears = [c for c in ir.calls(f['body']) if ir.callee_name(c) == 'clear' and
                      ir.strip(c.get('obj', {})).get('k') == 'mem']
            chk.decide(len(clears) == 1, 'S3', facts.site(f), 'Clear() calls clear() on the slot: %d call(s)' % len(clears),
                       function=ir.fn_label(f))

    # ---- S4 ------------------------------------------------------------
    for q, r in sorted(db.records.items()):
        if r.get('rect') in ('nop::Encoding', 'nop::EncodingIO', 'nop::fx::Encoding') or q == 'nop::SerializerCommon':
            where = '%s:%d' % (r['file'], r['loc']['l'])
            chk.decide(len(r['fields']) == 0, 'S4', where + ' fields',
                       '%s has %d non-static data member(s)%s' % (
                           q[:90], len(r['fields']), (': ' + ', '.join(x['n'] for x in r['fields'])) if r['fields'] else ''),
                       function=q)
    enc_fns = {}
    for f in db.fns:
        if f.get('rect') in ('nop::Encoding', 'nop::EncodingIO', 'nop::fx::Encoding') or f.get('rec') == 'nop::SerializerCommon':
            if f.get('ctor') or f.get('dtor') or f.get('defaulted'):
                continue
            enc_fns.setdefault((f['file'], f['pat']['l'], f['n']), f)
    for (file, line, n), f in sorted(enc_fns.items()):
        chk.decide(bool(f.get('static')), 'S4', '%s:%d' % (file, line),
                   '%s is %sa static member function' % (n, '' if f.get('static') else 'NOT '), function=ir.fn_label(f))

    # ---- S5 ------------------------------------------------------------
    seen = set()
    for f in db.fns:
        if 'body' not in f:
            continue
        for c in ir.calls(f['body']):
            cal = c.get('callee')
            if not cal or cal.get('nop'):
                continue
            base = cal['n']
            if base in NON_REENTRANT and not cal.get('rec'):
                key = (f['file'], c['loc']['l'], base)
                if key in seen:
                    continue
                seen.add(key)
                chk.bad('S5', facts.site(f, c.get('loc')), 'call to %s(), which is non-reentrant or changes process-wide state, in %s' % (base, f['n']),
                        function=ir.fn_label(f))


def run(chk, db):
    chk.explanation = (
        'Inventory of every variable with static storage duration declared under include/nop, over function patterns and '
        'their instantiations in the analysed translation units; structural rules on ThreadLocal (storage, first '
        'initialisation wins, Clear) and on the statelessness of the encoders; deny-list of non-reentrant libc callees.')
    chk.assumptions = ['user-supplied readers/writers are not shared between threads by the caller',
                       'read(2)/write(2)/close(2), memcpy, memset and the iostream objects owned by a reader/writer are '
                       'thread-safe on distinct objects (libc/libstdc++ contract)']
    facts.gate(chk, db, ['nop/'])
    rules(chk, db)
    # process-wide resources: a descriptor closed twice is a write to state shared with every other thread
    from . import c17
    c17.fd_ownership(chk, db, 'S7')
    # ... likewise the descriptor a UniqueHandle owns: closed exactly once, and release() hands it out still open (a number that is
    # already closed is re-issued by the kernel to whichever thread opens next, and two unrelated objects then share one descriptor)
    from . import c15
    c15.unique_handle(chk, db, 'UH')
    # a failed first initialisation must not count: the value is constructed through Optional's assignment, whose exception
    # ordering (state flag only after the element exists) is the typestate rule O; and an initialisation that throws must reach
    # the caller instead of terminating every thread (NX on ThreadLocal)
    from .. import tsrules
    from . import c13
    c13.typestate(chk, db, prefix='TS.')
    # initialising a thread's slot reads the caller's initialiser, it does not consume it: with a non-const lvalue argument the
    # forwarding parameter is an lvalue reference, and std::move on it empties an object that other threads initialise from too
    chk.rule('MV', 'ThreadLocal members never std::move a parameter that is bound to the caller\'s lvalue (they std::forward)', minimum=2)
    seen_mv = {}
    for f in db.fns:
        if f.get('rect') != 'nop::ThreadLocal' or 'body' not in f:
            continue
        pids = {p.get('id'): p for p in f['params']}
        lv = [p for p in f['params'] if p['t'].strip().endswith('&') and not p['t'].strip().endswith('&&') and not p['t'].strip().startswith('const ')]
        if not lv:
            continue
        bad = []
        for c in ir.calls(f['body']):
            cal = c.get('callee') or {}
            if cal.get('n') == 'move' and (cal.get('q') or '').startswith('std::move') and len(c.get('args', [])) == 1:
                a = ir.strip_all_casts(c['args'][0])
                if a.get('k') == 'ref' and a.get('id') in pids and pids[a['id']] in lv:
                    bad.append(pids[a['id']]['n'])
        key = (f['file'], f['pat']['l'], f['n'])
        if key not in seen_mv or (bad and not seen_mv[key][0]):
            seen_mv[key] = (bad, f)
    for key, (bad, f) in sorted(seen_mv.items()):
        chk.decide(not bad, 'MV', facts.site(f), 'ThreadLocal::%s instantiated with an lvalue argument: %s' % (
            f['n'], ('std::move(%s) moves from the caller\'s object' % bad[0]) if bad else 'the argument is forwarded, not moved from'), function=ir.fn_label(f))
    tsrules.noexcept_rule(chk, db, 'NX', ('nop::ThreadLocal',), minimum=0,
                          text='no ThreadLocal member is declared noexcept while constructing the value from the caller\'s arguments may throw')
    report.selftest(chk, lambda sc, fdb: tsrules.noexcept_rule(sc, fdb, 'NX', ('nop::fx::Holder',)), 'c12.cpp', {'NX': 1})
    witness.run(chk, 'c19_slots.cpp', 'S6', 'compile-time witnesses: slot tag types denote distinct (T, Slot) pairs', minimum=10)
    report.selftest(chk, rules, 'c19.cpp', {'S1': 4, 'S2': 1, 'S3': 2, 'S4': 2, 'S5': 2})
