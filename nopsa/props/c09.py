"""C09 - IsFungible<A,B> implies wire compatibility; it is reflexive and symmetric.

  RF   IsFungible<A,A> is true for every catalogue type                       (compiler-evaluated)
  SY   IsFungible<A,B> == IsFungible<B,A> for every ordered pair              (compiler-evaluated)
  DOC  the pairs the documentation declares fungible evaluate to true         (compiler-evaluated)
  WC   trait => wire compatibility: whenever the compiler says IsFungible<A,B>, the documented layouts of A and B
       (docs/format.md: BIN for integral element sequences, ARY otherwise, ...) are interchangeable
  PG   Protocol<P>::Write/Read reject a non-fungible argument at compile time and accept a fungible one
  LEN/NR  the length prefix of every sequence encoder is SizeType on both sides and no length is narrowed, so
       a logical buffer and a vector that the trait equates really share one wire form (decided on the encoders)
"""
import os
import re
import subprocess

from .. import facts, report, encrules
from ..gen import c09gen


def rules(chk, db):
    chk.rule('RF', 'IsFungible<A,A> is true', minimum=50)
    chk.rule('SY', 'IsFungible<A,B> == IsFungible<B,A>', minimum=1000)
    chk.rule('DOC', 'documented fungible pairs evaluate to true (both directions)', minimum=20)
    chk.rule('WC', 'IsFungible<A,B> true => the documented layouts of A and B are wire compatible', minimum=60)
    chk.rule('PG', 'Protocol<P> gates Read/Write on the trait', minimum=2)
    gen_dir = os.path.join(facts.CACHE, 'gen')
    os.makedirs(gen_dir, exist_ok=True)
    path = os.path.join(gen_dir, 'c09_pairs_%d.cpp' % os.getpid())
    cat = c09gen.generate(path)
    n = len(cat)
    try:
        r = subprocess.run(['clang++', '-std=c++14', '-fsyntax-only', '-ferror-limit=0', '-Wno-everything', '-I' + facts.INCLUDE, path],
                           stdout=subprocess.PIPE, stderr=subprocess.STDOUT)
        out = r.stdout.decode(errors='replace')
        src = open(path).read().splitlines()
    finally:
        if os.path.exists(path):
            os.unlink(path)
    false_pairs = set()
    for m in re.finditer(r'static_assert failed.*?"W:pair\.(\d+)\.(\d+)"', out):
        false_pairs.add((int(m.group(1)), int(m.group(2))))
    # errors that are not pair static_asserts must lie inside a MUSTFAIL region
    regions = {}
    cur = None
    for ln, line in enumerate(src, 1):
        m = re.match(r'\s*// MUSTFAIL (\S+)', line)
        if m:
            cur = (m.group(1), ln)
        m = re.match(r'\s*// END (\S+)', line)
        if m and cur:
            regions[cur[0]] = (cur[1], ln)
            cur = None
    hits = {k: 0 for k in regions}
    stray = []
    block_lines = None
    head = None
    blocks = []
    for line in out.splitlines():
        if re.search(r': (fatal )?error: ', line):
            head = line
            block_lines = set()
            blocks.append((head, block_lines))
        if block_lines is not None:
            m = re.match(r'^%s:(\d+):' % re.escape(path), line)
            if m:
                block_lines.add(int(m.group(1)))
    for head, bl in blocks:
        if 'W:pair.' in head:
            continue
        owner = [k for k, (a, z) in regions.items() if any(a <= l <= z for l in bl)]
        if owner:
            hits[owner[0]] += 1
        else:
            stray.append(head)
    if stray:
        chk.unanalysable('SY', 'generated pair table', 'the generated witness TU does not compile: ' + stray[0][:200])
        return
    T = lambda i, j: (i, j) not in false_pairs
    name = lambda i: cat[i]['cpp']
    for i in range(n):
        chk.decide(T(i, i), 'RF', 'nop/traits/is_fungible.h <%s>' % name(i), 'IsFungible<%s, %s> is %s' % (name(i), name(i), T(i, i)), function=name(i))
    for i in range(n):
        for j in range(i + 1, n):
            chk.decide(T(i, j) == T(j, i), 'SY', 'nop/traits/is_fungible.h <%s | %s>' % (name(i), name(j)),
                       'IsFungible<%s, %s> = %s but IsFungible<%s, %s> = %s' % (name(i), name(j), T(i, j), name(j), name(i), T(j, i)),
                       function='%s|%s' % (name(i), name(j)))
    for i, j in c09gen.documented(cat):
        chk.decide(T(i, j) and T(j, i), 'DOC', 'nop/traits/is_fungible.h <%s ~ %s>' % (name(i), name(j)),
                   'documented fungible pair: IsFungible<%s, %s> = %s, reverse = %s' % (name(i), name(j), T(i, j), T(j, i)), function='%s~%s' % (name(i), name(j)))
    true_pairs = 0
    for i in range(n):
        for j in range(n):
            if i != j and T(i, j):
                true_pairs += 1
                ok = c09gen.compat(cat[i]['sig'], cat[j]['sig'])
                chk.decide(ok, 'WC', 'nop/traits/is_fungible.h <%s -> %s>' % (name(i), name(j)),
                           'IsFungible<%s, %s> is true; documented layouts %s vs %s are %s' % (
                               name(i), name(j), brief(cat[i]['sig']), brief(cat[j]['sig']), 'compatible' if ok else 'NOT wire compatible'),
                           function='%s->%s' % (name(i), name(j)))
    for k, v in sorted(hits.items()):
        chk.decide(v > 0, 'PG', 'nop/protocol.h ' + k, 'must-fail witness %s: %s' % (k, 'rejected by the compiler' if v else 'COMPILES although it must not'), function=k)
    chk.extra['catalogue_types'] = n
    chk.extra['ordered_pairs'] = n * n
    chk.extra['pairs_trait_true'] = true_pairs + n
    encrules.write_rules(chk, db, want=('LEN',))
    encrules.read_rules(chk, db, want=('LEN',))
    chk.rule('NR', 'no narrowing of run-time lengths in any encoder', minimum=20)
    encrules.narrowing(chk, db, 'NR', {'ReadPayload', 'Read', 'WritePayload', 'Write'})
    # the trait is decided against the DOCUMENTED layouts; that the encoders of all fungible families really use them (BIN for
    # integral element sequences and only for those, ARY otherwise - also for logical buffers and value wrappers) is rule PK
    chk.rule('PK', 'Prefix() and Match() of every container kind are the documented container prefix', minimum=60)
    encrules.prefix_kind(chk, db, 'PK', ('Prefix', 'Match'))
    encrules.size_rules(chk, db)      # re-encoding a decoded fungible value reproduces the bytes only if both Size() agree with their writers


def brief(sig):
    s = repr(sig)
    return s if len(s) < 70 else s[:67] + '...'


def run(chk, db):
    facts.gate(chk, db, ['nop/base/', 'nop/protocol.h'])
    rules(chk, db)
    chk.explanation = (
        'A generated catalogue of types over every type constructor the trait knows (scalars, enums, strings, vectors / std::array / C arrays '
        'of integral and non-integral elements, tuples, pairs, maps, logical buffers with several size-member types, value wrappers, '
        'structures, Optional / Result / Variant, tables with equal and different hashes, function signatures). clang evaluates '
        'IsFungible for every ordered pair (one static_assert each); reflexivity, symmetry and the documented pairs are read off the result, '
        'and every pair the trait accepts is compared with the documented wire layouts of the two types. Per-value re-encoding is not decided.')
    chk.assumptions = ['the encoders emit the documented layouts (decided by C03/C04 on the same tree)', 'catalogue depth is bounded (nesting depth 2)']
