"""C01 - round trip: Read(Write(v)) == v, consuming exactly the bytes written.

Value equality at run time is not decided.  Decided are the structural conditions without which some value fails to
round-trip (each rule names its witness in DESIGN §4 C01):

  writer/reader agreement per encoder: LEN.w/LEN.r (same integer type and quantity for every length field),
      ELT.w/ELT.r (same elements, same order, same count), MO (structure members written and read in the same order)
  integer layer: WA/RA (for every class the writer's payload type is the reader's), FD (fixint decode inverts the embedding),
      PM+MS (image of Prefix is accepted by Match)
  NR   no narrowing of a length on either side
  primitive symmetry of each reader/writer pairing: C (buffer family moves exactly (end-begin)*sizeof(T) bytes at the position),
      ST/FD (stream/fd primitives move exactly the requested bytes)
  exactly-consumed framing: TE/TR (entry frame = declared size, padding follows), BR/BW (bounded wrappers count exactly)
"""
from .. import facts, report, ilrules, rwrules, encrules, tablerules
from . import c16, c17


def rules(chk, db):
    chk.rule('WA', 'WritePayload writes the documented payload type per class', minimum=9)
    chk.rule('RA', 'ReadPayload reads the same payload type per class into the destination type', minimum=9)
    chk.rule('FD', 'fixint decode inverts the embedding', minimum=9)
    chk.rule('PM', 'Prefix is minimal (hence inside what Match accepts)', minimum=9)
    chk.rule('MS', 'Match accepts the documented classes', minimum=9)
    chk.rule('FB', 'float/double/bool prefix, match and payload agree', minimum=3)
    chk.rule('NR', 'no narrowing of run-time lengths in any encoder', minimum=20)
    chk.rule('MO', 'structure members are written and read in the same order', minimum=3)
    chk.rule('C', 'buffer readers/writers move exactly need bytes at the position and advance by need', minimum=12)
    chk.rule('ST', 'stream primitives move exactly the requested bytes and report the stream state', minimum=6)
    chk.rule('FDS', 'fd primitives transfer every requested byte or fail', minimum=4)
    ilrules.payload_classes(chk, db, 'WA', 'RA')
    ilrules.fix_decode(chk, db, 'FD')
    ilrules.prefix_minimal(chk, db, 'PM')
    ilrules.match_sets(chk, db, 'MS')
    ilrules.float_bool(chk, db, 'FB')
    encrules.write_rules(chk, db, want=('LEN', 'ELT', 'GRD'))
    encrules.read_rules(chk, db, want=('LEN', 'ELT', 'GRD', 'RST'))
    chk.rule('BS', 'BaseEncodingSize = 1 + payload width for every class; scalar Size = BaseEncodingSize(Prefix)', minimum=10)
    ilrules.base_size(chk, db, 'BS')
    encrules.narrowing(chk, db, 'NR', {'ReadPayload', 'Read', 'WritePayload', 'Write'})
    chk.rule('PK', 'Prefix() and Match() of every container kind agree on the documented container prefix', minimum=60)
    encrules.prefix_kind(chk, db, 'PK', ('Prefix', 'Match'))
    chk.rule('CO', 'wrapper encoders are composed of exactly the documented component encodings', minimum=30)
    encrules.composition(chk, db, 'CO', ('WritePayload', 'ReadPayload', 'Prefix', 'Match'))
    # Size() is on the wire wherever a value sits in a table entry (the declared entry size) and decides Prepare(): a Size that
    # disagrees with the writer makes the value unwritable there, or the reader's frame end in the wrong place
    encrules.size_rules(chk, db)
    # a value and its encoding determine each other: the empty / error marker of a wrapper must not be a prefix of the wrapped type
    from .. import ambrules
    ambrules.check(chk, db, 'AMB')
    # a Variant destination is re-seated through Become: destroy the old alternative, then construct the new one (typestate)
    from . import c12
    c12.explore(chk, db, prefix='TV.')
    from . import c13
    c13.typestate(chk, db, prefix='TS.')
    w = chk.extra.get('struct_member_order_w', {})
    r = chk.extra.get('struct_member_order_r', {})
    for t in sorted(set(w) & set(r)):      # types that are both written and read somewhere in the analysed units
        chk.decide(w.get(t) == r.get(t), 'MO', 'nop/base/members.h <%s>' % encrules.short_t(t),
                   'members written %s, read %s' % (w.get(t), r.get(t)), function=t)
    ids = {'T': None, 'G': None, 'E': None, 'C': 'C'}
    # the CHECKED buffer classes must also accept exactly what fits: a value written into a buffer of exactly its encoded size
    # round-trips only if no store / transfer that ends at the limit is refused (T/G/E; the unchecked classes have no guards)
    checked = ('nop::PedanticBufferWriter', 'nop::ConstexprBufferWriter', 'nop::PedanticBufferReader')
    chk.rule('T', 'Prepare/Ensure(n) of the checked buffer classes succeeds exactly when n <= limit - pos, overflow-safe', minimum=2)
    chk.rule('G', 'checked buffer classes guard every transfer by exactly need <= limit - pos', minimum=4)
    chk.rule('E', 'refusal returns the limit error and has no effect', minimum=4)
    for rec in rwrules.BUFFER_CLASSES:
        if rec in checked:
            rwrules.check_buffer_class(chk, db, rec, {'T': 'T', 'G': 'G', 'E': 'E', 'C': 'C'})
        else:
            rwrules.check_buffer_class(chk, db, rec, ids, guard_required=False)
    rwrules.check_stream_class(chk, db, 'nop::StreamReader', 'reader', 'ST', 'ST')
    rwrules.check_stream_class(chk, db, 'nop::StreamWriter', 'writer', 'ST', 'ST')
    rwrules.check_fd_class(chk, db, 'nop::FdReader', 'reader', 'FDS')
    rwrules.check_fd_class(chk, db, 'nop::FdWriter', 'writer', 'FDS')
    c16.rules(chk, db, prefix='B.')
    chk.rule('L', 'ConstexprBufferWriter::WriteElement stores little-endian byte lanes at index_ + offset', minimum=8)
    c17.lanes(chk, db, 'L')
    c17.fd_ownership(chk, db, 'OWN')      # a moved Serializer/Deserializer over an fd must still own exactly that descriptor
    tablerules.rules(chk, db, {'TW', 'TE', 'TR', 'TL', 'TD', 'TS'})


def run(chk, db):
    facts.gate(chk, db, ['nop/base/', 'nop/utility/'])
    rules(chk, db)
    chk.explanation = (
        'Writer and reader of every encoder kind are each compared with the documented layout of the kind on their symbolic paths, so they '
        'agree with each other on integer types, length quantities, element order and count; the integer layer is decided for all values; '
        'reader/writer primitives move exactly the requested bytes; table frames are exactly consumed. Equality of decoded values for '
        'user-defined element types, and floating-point bit identity beyond "the same payload type is copied both ways", are not decided.')
    chk.assumptions = ['LP64 little-endian host', 'std containers behave as documented']
