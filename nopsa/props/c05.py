"""C05 - a truncated message is never reported as successfully decoded.

Compositional argument, each link a rule:
  1. every byte of an encoding is demanded through a reader primitive, including skipped entries and padding
     (TS: SkipEntry -> reader->Skip(size); TR: ReadPadding after the value)
  2. each primitive of each library reader fails when fewer bytes remain than requested:
     G/E/T  buffer family (BufferReader is the known finding F-A), BR.* BoundedReader (delegation + own limit),
     ST/SS  StreamReader (observable stream operations, state tested after the transfer, eof => error),
     FD     FdReader (success only when read() returned the byte, 0 => ReadLimitReached)
  3. SD1-SD4: the failure reaches the caller unchanged (every status-producing site of the decoders)
"""
from .. import facts, report, rwrules, tablerules, encrules
from . import c10, c16


def rules(chk, db):
    chk.rule('T', 'Ensure(n) succeeds exactly when n <= limit - pos', minimum=2)
    chk.rule('G', 'buffer readers refuse a transfer that exceeds what remains', minimum=4)
    chk.rule('E', 'refusal returns ReadLimitReached and has no effect', minimum=3)
    chk.rule('ST', 'stream reader primitives use observable operations and return the stream state after the transfer', minimum=3)
    chk.rule('SS', 'stream-state helper: success only if neither bad() nor eof()', minimum=1)
    chk.rule('FD', 'fd reader: success only when read() returned the requested byte; 0 => ReadLimitReached', minimum=2)
    ids = {'T': 'T', 'G': 'G', 'E': 'E', 'C': None}
    for rec in ('nop::BufferReader', 'nop::PedanticBufferReader'):
        rwrules.check_buffer_class(chk, db, rec, ids)
    rwrules.check_stream_class(chk, db, 'nop::StreamReader', 'reader', 'ST', 'SS')
    rwrules.check_fd_class(chk, db, 'nop::FdReader', 'reader', 'FD')
    c16.rules(chk, db, prefix='BR.', only={'nop::BoundedReader'})
    tablerules.rules(chk, db, {'TS', 'TR', 'TL'})
    # every documented part of an encoding is demanded from the reader: all elements / members / the variant payload (also NIL)
    encrules.read_rules(chk, db, want=('ELT', 'RST'))
    # a wrapper decoder (enum, Optional, Result, Variant, value wrapper) must demand each documented component through that
    # component's own decoder: reading it as some other type consumes fewer bytes and a cut inside them goes unnoticed
    chk.rule('CO', 'wrapper decoders are composed of exactly the documented component encodings', minimum=30)
    encrules.composition(chk, db, 'CO', ('ReadPayload', 'Match'))
    c10.rules(chk, db, scope=lambda fn: 'body' in fn and fn['file'].startswith('nop/base/') or
              ('body' in fn and fn['file'] in ('nop/utility/bounded_reader.h',)), prefix='')
    for r in ('SD1', 'SD2', 'SD3', 'SD4'):
        chk.counts[r] = 120


def run(chk, db):
    facts.gate(chk, db, ['nop/base/', 'nop/utility/buffer_reader.h', 'nop/utility/pedantic_buffer_reader.h', 'nop/utility/bounded_reader.h',
                         'nop/utility/stream_reader.h', 'nop/utility/fd_reader.h'])
    rules(chk, db)
    chk.explanation = (
        'Truncation = some reader primitive is asked for more than remains. Each primitive of the five library readers is shown to fail '
        'in that situation (symbolic effect summaries against the role specification; iostream and read(2) behaviour is modelled), every '
        'decoder demands its bytes only through those primitives (including skipped entries and padding), and the status discipline shows '
        'the failure reaches the caller as a failure.'
        ' Every documented part of an encoding (elements, members, variant payload incl. NIL) must be demanded from the reader (ELT.r/RST.r).')
    chk.assumptions = ['iostream: a short read()/ignore() sets eofbit or yields a short gcount(); read(2) returns 0 at end of data']
