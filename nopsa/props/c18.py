"""C18 - table hashes and method selectors are stable SipHash-2-4 values of names.

  H1  initial state  v = IV ^ (k0,k1,k0,k1),  b = len << 56
  H2  the block loop visits offsets 0, 8, ... < len - len % 8
  H3  one loop iteration is the SipHash compression of the little-endian word at `offset`
  H4  for every residue len % 8 in 0..7 the tail builds  len<<56 | bytes (little-endian)
  H5  finalisation: compress(b); v2 ^= 0xff; 4 rounds; v0^v1^v2^v3
  (H3-H5 compare canonical *terms* of the analysed code with the reference
  construction in nopsa/spec/siphash_ref.py: dataflow identity for all inputs, all
  keys, all lengths; input bytes must be zero-extended)
  W   Compute(array, k0, k1) hashes all Size elements of the array with the keys in order;
      BlockReader::size()/operator[] return the stored size / the indexed element
  X   single definition: no is_constant_evaluated-style divergence between compile time and run time
  K   compile-time witnesses (clang evaluates the library's constexpr code): table hash, interface hash
      and method selectors of generated declarations equal an independent constexpr SipHash-2-4 of the
      name (with its terminator) under the published key constants
"""
import os
import re
import subprocess
import tempfile

from .. import facts, ir, report, termx
from ..spec import siphash_ref as ref
from ..termx import C, mk

SYM = termx.SYM


def container_tag(fn):
    t = fn['params'][0]['t'].replace('const ', '')
    m = re.search(r'BlockReader<([^>]*)>', t)
    if m:
        return m.group(1)
    t = t.replace('std::basic_string<char, std::char_traits<char>, std::allocator<char>>', 'std::string')
    t = re.sub(r', std::allocator<[^<>]*>', '', t)
    return t


def find_fn(db, pred):
    return [f for f in db.fns if pred(f)]


def hooks(buf):
    def size(ex, e):
        return SYM('len')

    def index(ex, e):
        # BlockReader::operator[](i): element i of the underlying bytes
        args = [ex.ev(a) for a in e['args']]
        return termx.node('load', buf, args[-1])
    return {'size': size, 'operator[]': index}


def has_sext(t):
    return termx.contains_op(t, 'sext')


def analyse_compute(chk, db, fn):
    where = facts.site(fn)
    label = ir.fn_label(fn)
    tag = ' [%s]' % container_tag(fn)
    buf = SYM('buf')
    ex = termx.TermExec(db, fn, hooks(buf))
    ps = fn['params']
    ex.bind(ps[0]['id'], buf)
    k0, k1 = SYM('k0'), SYM('k1')
    ex.bind(ps[1]['id'], k0)
    ex.bind(ps[2]['id'], k1)
    body = ir.stmt_list(fn['body'])
    length = SYM('len')
    END = mk('sub', length, mk('mod', length, C(8)))

    # locate the state array and b by role: the 4-element array and the scalar initialised from len << 56
    v_id = b_id = None
    phase = 'init'
    seen_loop = False
    P = [SYM('P%d' % i) for i in range(4)]
    try:
        for st in body:
            k = st['k']
            if k == 'for':
                seen_loop = True
                # identify state
                for vid, val in list(ex.env.items()):
                    if isinstance(val, list) and len(val) == 4:
                        v_id = vid
                    elif isinstance(val, termx.N) and val is mk('shl', length, C(56)):
                        b_id = vid
                if v_id is None or b_id is None:
                    chk.decide(False, 'H1', where + tag, '%s: cannot find the 4-word state / b = len << 56 before the block loop '
                               '(b = %s)' % (label, [termx.show(v) for v in ex.env.values() if isinstance(v, termx.N)][:6]), function=label)
                    return
                chk.decide(ex.env[v_id] == ref.init(k0, k1), 'H1', where + tag,
                           '%s: state before the loop %s' % (label, 'equals IV ^ keys' if ex.env[v_id] == ref.init(k0, k1) else
                                                            termx.show(ex.env[v_id])[:200]), function=label)
                # H2: loop header
                init_ok = cond_ok = inc_ok = False
                off_id = None
                if st.get('init') and st['init']['k'] == 'decl' and st['init']['vars']:
                    iv = st['init']['vars'][0]
                    off_id = iv.get('id')
                    init_ok = iv.get('init') is not None and ex.ev(iv['init']) is C(0)
                if off_id is not None:
                    ex.bind(off_id, SYM('off'))
                    c = ex.ev(st['cond']) if st.get('cond') else None
                    cond_ok = c is termx.node('cmp', '<', SYM('off'), END)
                    sub = termx.TermExec(db, fn, ex.hooks)
                    sub.env = dict(ex.env)
                    if st.get('inc'):
                        sub.ev(st['inc'])
                        inc_ok = sub.env[off_id] is mk('add', SYM('off'), C(8))
                chk.decide(init_ok and cond_ok and inc_ok, 'H2', where + tag,
                           '%s: block loop offset = 0 (%s); offset < len - len %% 8 (%s); offset += 8 (%s)' % (label, init_ok, cond_ok, inc_ok),
                           function=label)
                # H3: one iteration from a generic state
                L = [SYM('L%d' % i) for i in range(4)]
                ex.env[v_id] = list(L)
                b_before = ex.env[b_id]
                ex.stmts(ir.stmt_list(st['body']))
                want = ref.compress(L, ref.word(buf, SYM('off')))
                got = ex.env[v_id]
                ok3 = got == want and ex.env[b_id] is b_before
                why = ''
                if not ok3:
                    why = 'sign-extends input bytes' if has_sext(got) else 'differs from v3^=m; 2 rounds; v0^=m over the little-endian word'
                chk.decide(ok3, 'H3', where + tag, '%s: loop body %s' % (label, why or 'is the SipHash compression step'), function=label)
                ex.env[v_id] = list(P)
                ex.env[b_id] = b_before
                # ---- everything after the block loop: tail (up to the last statement with control flow) and finalisation
                post = body[body.index(st) + 1:]
                CF = ('for', 'while', 'do', 'switch', 'if')
                cf = [i for i, y in enumerate(post) if y['k'] in CF or (y['k'] == 'block' and any(z.get('k') in CF for z in ir.walk(y)))]
                split = (cf[-1] + 1) if cf else 0
                tail, fin = post[:split], post[split:]
                if not fin or fin[-1]['k'] != 'ret':
                    chk.unanalysable('H5', where, '%s does not end in a return after the tail' % label)
                    return
                bad = []
                M8 = mk('mod', length, C(8))
                for left in range(8):
                    sub = termx.TermExec(db, fn, ex.hooks)
                    sub.env = {kk: (list(vv) if isinstance(vv, list) else vv) for kk, vv in ex.env.items()}
                    sub.assume = {M8: C(left)}
                    try:
                        sub.stmts(tail)
                    except termx.Unsupported as e:
                        chk.unanalysable('H4', where + tag, '%s: tail for len%%8==%d cannot be evaluated: %s' % (label, left, e))
                        return
                    norm = {mk('sub', length, C(left)): END} if left else {}
                    got = termx.subst(sub.env[b_id], norm)
                    want = ref.last_word(buf, length, END, left)
                    if got is not want:
                        bad.append('len%%8==%d: %s' % (left, 'sign-extends input bytes' if has_sext(got) else
                                                       'b = %s' % termx.show(got)[:100]))
                    if termx.subst(sub.env[v_id], norm) != ex.env[v_id]:
                        bad.append('len%%8==%d: state modified in the tail' % left)
                chk.decide(not bad, 'H4', where + tag, '%s: tail %s' % (label, '; '.join(bad) if bad else
                                                                  'builds len<<56 | little-endian bytes for all 8 residues'), function=label)
                # declarations in the tail stay visible to the finalisation
                for y in tail:
                    if y['k'] == 'decl':
                        try:
                            ex.stmt(y)
                        except termx.Unsupported:
                            pass
                ex.env[b_id] = SYM('B')
                for y in fin[:-1]:
                    ex.stmt(y)
                got = ex.ev(fin[-1]['e'])
                want = ref.finalize(P, SYM('B'))
                chk.decide(got is want, 'H5', where + tag, '%s: finalisation %s' % (label, 'matches' if got is want else
                                                                             'differs: ' + termx.show(got)[:160]), function=label)
                break
            elif k in ('while', 'do', 'switch', 'if'):
                chk.unanalysable('H2', where + tag, '%s: control flow before the block loop is not in a recognised form (%s)' % (label, k))
                return
            elif k == 'ret':
                chk.unanalysable('H5', where, 'return before the block loop in ' + label)
                return
            else:
                ex.stmt(st)
    except termx.Unsupported as e:
        chk.unanalysable('H3', where, 'cannot evaluate %s over terms: %s' % (label, e))


LENGTHS = list(range(0, 18)) + [23, 24, 25, 31, 32, 33, 63, 64, 65, 127, 255, 256, 257]
LENGTHS_THOROUGH = LENGTHS + list(range(18, 130)) + [511, 512, 513, 1000, 1023, 1024, 4096, 4099]


def reference_hash(buf, n, k0, k1):
    v = ref.init(k0, k1)
    end = n - n % 8
    for off in range(0, end, 8):
        v = ref.compress(v, ref.word(buf, C(off)))
    return ref.finalize(v, ref.last_word(buf, C(n), C(end), n % 8))


def analyse_lengths(chk, db, fn, lengths):
    """HL: the whole function, control flow and all, evaluated for a fixed length over a symbolic buffer and symbolic keys"""
    where = facts.site(fn)
    label = ir.fn_label(fn)
    tag = ' [%s]' % container_tag(fn)
    buf, k0, k1 = SYM('buf'), SYM('k0'), SYM('k1')
    bad = []
    for n in lengths:
        hk = hooks(buf)
        hk['size'] = lambda ex, e, n=n: C(n)
        ex = termx.TermExec(db, fn, hk)
        ps = fn['params']
        ex.bind(ps[0]['id'], buf)
        ex.bind(ps[1]['id'], k0)
        ex.bind(ps[2]['id'], k1)
        try:
            got = ex.run_body(fn['body'])
        except termx.Unsupported as e:
            chk.unanalysable('HL', where + tag, '%s cannot be evaluated for length %d: %s' % (label, n, e))
            return
        if got is not reference_hash(buf, n, k0, k1):
            bad.append(n)
    chk.decide(not bad, 'HL', where + tag, '%s: as a term over the input bytes and keys, the result %s SipHash-2-4 for lengths %s' % (
        label, 'differs from' if bad else 'equals', bad if bad else '%d..%d (%d lengths)' % (min(lengths), max(lengths), len(lengths))),
        function=label)


def rules(chk, db):
    chk.rule('H1', 'initial state IV ^ keys and b = len << 56', minimum=2)
    chk.rule('H2', 'block loop covers offsets 0,8,.. < len - len%8', minimum=2)
    chk.rule('H3', 'loop body is the SipHash compression of the zero-extended little-endian word', minimum=2)
    chk.rule('H4', 'tail: len<<56 | little-endian remaining bytes for all residues 0..7', minimum=2)
    chk.rule('H5', 'finalisation v2^=0xff, 4 rounds, xor of the state', minimum=2)
    chk.rule('HL', 'whole function for fixed lengths (symbolic bytes and keys) equals the reference term', minimum=2)
    chk.rule('W', 'array wrapper / BlockReader expose all elements in order with the keys in order', minimum=3)
    chk.rule('X', 'no compile-time/run-time divergence in the hash functions', minimum=1)
    sip = [f for f in db.fns if f.get('rec', '').endswith('::SipHash') and 'body' in f]
    comp = [f for f in sip if f['n'] == 'Compute' and f['params'] and '(&)[' not in f['params'][0]['t']]
    fixture = any(f['file'].startswith('nop/fx_') for f in sip)
    if not any('BlockReader' in f['params'][0]['t'] for f in comp) or (not fixture and not any('BlockReader' not in f['params'][0]['t'] for f in comp)):
        chk.unanalysable('H3', 'nop/utility/sip_hash.h', 'expected SipHash::Compute instances over BlockReader and over generic containers')
        return
    if not comp:
        chk.unanalysable('H3', 'nop/utility/sip_hash.h', 'no SipHash::Compute(BlockReader) instance')
        return
    done = set()
    for f in comp:
        if f['params'][0]['t'] in done:
            continue
        done.add(f['params'][0]['t'])
        analyse_compute(chk, db, f)
        analyse_lengths(chk, db, f, LENGTHS_THOROUGH if getattr(chk, 'tier', 'quick') == 'thorough' else LENGTHS)
    # W: wrapper
    for f in sip:
        if f['n'] == 'Compute' and f['params'] and '(&)[' in f['params'][0]['t']:
            key = f['params'][0]['t'].split('(&)')[0]
            if ('w', key) in done:
                continue
            done.add(('w', key))
            where = facts.site(f)
            cs = [c for c in ir.calls(f['body']) if ir.callee_name(c) == 'Compute']
            ok = False
            why = 'does not forward to Compute(BlockReader)'
            if len(cs) == 1 and len(cs[0]['args']) == 3:
                a0 = ir.strip_all_casts(cs[0]['args'][0])
                while a0.get('k') == 'ctor' and len(a0['args']) == 1:
                    a0 = ir.strip_all_casts(a0['args'][0])
                a1, a2 = ir.strip_all_casts(cs[0]['args'][1]), ir.strip_all_casts(cs[0]['args'][2])
                ok = a0.get('id') == f['params'][0]['id'] and a1.get('id') == f['params'][1]['id'] and \
                    a2.get('id') == f['params'][2]['id']
                why = 'forwards (buffer, k0, k1) unchanged' if ok else 'arguments reordered or replaced'
            chk.decide(ok, 'W', where + ' ' + key.strip(), 'SipHash::Compute(array): %s' % why, function=ir.fn_label(f))
    br = [f for f in db.fns if f.get('rect', '').endswith('::BlockReader') and 'body' in f]
    seen = set()
    for f in br:
        if (f['file'], f['pat']['l']) in seen:
            continue
        seen.add((f['file'], f['pat']['l']))
        where = facts.site(f)
        if f.get('ctor') and f['params'] and '(&)[' in f['params'][0]['t']:
            inits = {i.get('field'): i['e'] for i in f.get('inits', [])}
            n = int(re.search(r'\[(\d+)\]', f['params'][0]['t']).group(1))
            sizes = [ir.const_of(ir.strip_init(e)) for e in inits.values() if ir.const_of(ir.strip_init(e)) is not None]
            data_ok = any(ir.strip_init(e).get('id') == f['params'][0]['id'] for e in inits.values())
            chk.decide(data_ok and sizes == [n], 'W', where, 'BlockReader(array[%d]): data from the array: %s, size %s' % (n, data_ok, sizes),
                       function=ir.fn_label(f))
        elif f['n'] == 'size':
            r = [y for y in ir.walk(f['body']) if y.get('k') == 'ret']
            e = ir.strip_all_casts(r[0]['e']) if r else {}
            chk.decide(e.get('k') == 'mem' and e.get('t', '').replace('const ', '') == 'unsigned long', 'W', where,
                       'BlockReader::size() returns the stored size field', function=ir.fn_label(f))
        elif f['n'] == 'operator[]':
            r = [y for y in ir.walk(f['body']) if y.get('k') == 'ret']
            e = ir.strip_all_casts(r[0]['e']) if r else {}
            ok = e.get('k') == 'idx' and ir.strip_all_casts(e['b']).get('k') == 'mem' and \
                ir.strip_all_casts(e['i']).get('id') == f['params'][0]['id']
            chk.decide(ok, 'W', where, 'BlockReader::operator[](i) returns data[i]', function=ir.fn_label(f))
    from .. import copyrules
    copyrules.check(chk, db, 'CP', {'nop::BlockReader'}, minimum=2, text='BlockReader copies / assignments carry both the data pointer and the size (readers are passed by value and may be re-seated)')
    # X: no divergence
    bad = []
    for f in sip:
        for c in ir.calls(f['body']):
            n = ir.callee_name(c) or ''
            if 'is_constant_evaluated' in n or 'builtin_constant_p' in n:
                bad.append('%s calls %s' % (f['n'], n))
        if not f.get('constexpr'):
            bad.append('%s is not constexpr' % f['n'])
    chk.decide(not bad, 'X', 'nop/utility/sip_hash.h', 'SipHash members are single constexpr definitions: %s' % ('; '.join(sorted(set(bad))) or 'yes'),
               function='nop::SipHash')


WITNESS = os.path.join(facts.VERIF, 'witnesses', 'c18_wiring.cpp')


def witnesses(chk):
    chk.rule('K', 'compile-time witnesses: table hash / interface hash / selectors == independent constexpr SipHash-2-4 of the name under '
                  'the published keys', minimum=20)
    pre = subprocess.run(['clang++', '-std=c++14', '-E', '-P', '-Wno-everything', '-I' + facts.INCLUDE, WITNESS],
                         stdout=subprocess.PIPE, stderr=subprocess.DEVNULL).stdout.decode(errors='replace')
    ids = []
    for m in re.finditer(r'"W:[^"]*"(?:\s*"[^"]*")*', pre):
        ids.append(''.join(re.findall(r'"([^"]*)"', m.group(0))))
    r = subprocess.run(['clang++', '-std=c++14', '-fsyntax-only', '-ferror-limit=0', '-Wno-everything', '-I' + facts.INCLUDE, WITNESS],
                       stdout=subprocess.PIPE, stderr=subprocess.STDOUT)
    out = r.stdout.decode(errors='replace')
    failed = set(re.findall(r'static_assert failed.*?"(W:[A-Za-z0-9_.:-]+)"', out))
    ids = [i for i in ids if re.match(r'^W:[A-Za-z0-9_.:-]+$', i)]
    other = [l for l in out.splitlines() if ' error: ' in l and 'static_assert failed' not in l]
    if other:
        chk.unanalysable('K', 'witnesses/c18_wiring.cpp', 'witness TU does not compile: ' + other[0][:200])
        return
    for i in sorted(set(ids)):
        chk.decide(i not in failed, 'K', 'witnesses/c18_wiring.cpp ' + i, '%s: %s' % (i, 'FAILED static_assert' if i in failed else 'holds'),
                   function=i)


def run(chk, db):
    facts.gate(chk, db, ['nop/utility/sip_hash.h'])
    rules(chk, db)
    witnesses(chk)
    # the hash reaches the wire through the writers: at compile time through the constexpr writer's 64-bit byte lanes
    from . import c17
    from .. import witness
    chk.rule('L', 'ConstexprBufferWriter::WriteElement stores little-endian byte lanes (all 8 of a 64-bit hash)', minimum=8)
    c17.lanes(chk, db, 'L')
    witness.run(chk, 'c03_bytes.cpp', 'WB', 'compile-time witnesses: constexpr serialisation (incl. a table with its hash) equals the documented bytes', minimum=25)
    chk.explanation = (
        'Term-domain evaluation of SipHash::Compute (for BlockReader<char> and BlockReader<unsigned char>) with its helpers inlined, '
        'compared segment by segment (init, loop header, compression step, 8 tail residues, finalisation) with reference SipHash-2-4 '
        'terms built from the specification; wrapper/BlockReader structure; compile-time witnesses tie NOP_TABLE_NS, NOP_INTERFACE, '
        'NOP_INTERFACE32, NOP_METHOD to the hash of the name with the published keys.')
    chk.assumptions = ['64-bit unsigned long; the compiler evaluates constexpr code as it would run (X checks the code has no way to tell)']
    report.selftest(chk, rules, 'c18.cpp', {'H3': 1, 'H4': 1, 'H5': 1})
