"""C03 - encoder emits exactly the documented wire format, minimal integer classes.

Integer layer (complete for all values of all nine integer encoders, DESIGN §3 E5):
  EB   EncodingByte enumerators equal the prefix table parsed from docs/format.md
  PM   Prefix(value) is the minimal class for every value (interval cells, exact C semantics)
  WA   WritePayload writes, for each class, exactly the documented payload type and nothing for fixints
  BS   BaseEncodingSize = 1 + payload width; Size(v) = BaseEncodingSize(Prefix(v))
  FB   float/double/bool prefixes and payloads
Container layer (structure of every WritePayload, DESIGN §3 E6): see nopsa/encrules.py
  WL, WO, NR ...
"""
from .. import facts, ilrules, report
from .. import encrules, tablerules
from . import c16


def rules(chk, db):
    chk.rule('EB', 'EncodingByte enumerators equal the documented prefix table', minimum=30)
    chk.rule('PM', 'Prefix is the minimal integer class for every value of the type', minimum=9)
    chk.rule('WA', 'WritePayload writes the documented payload type per class, nothing for fixints', minimum=9)
    chk.rule('BS', 'BaseEncodingSize = 1 + payload width; integer Size = BaseEncodingSize(Prefix)', minimum=10)
    chk.rule('FB', 'float/double/bool prefix, match and payload', minimum=3)
    ilrules.enum_table(chk, db, 'EB')
    ilrules.prefix_minimal(chk, db, 'PM')
    ilrules.payload_classes(chk, db, 'WA', None)
    ilrules.base_size(chk, db, 'BS')
    ilrules.float_bool(chk, db, 'FB')
    encrules.write_rules(chk, db, want=('LEN', 'ELT', 'GRD'))
    chk.rule('NR.w', 'no run-time narrowing integral conversion in any WritePayload/Size (lengths stay in SizeType)', minimum=10)
    encrules.narrowing(chk, db, 'NR.w', {'WritePayload', 'Size', 'Write'})
    chk.rule('PK', 'Prefix() of every container kind is the documented container prefix (BIN for integral sequences)', minimum=30)
    encrules.prefix_kind(chk, db, 'PK', ('Prefix',))
    # table layout: hash, count of non-empty entries, per entry id + byte size + value + padding to the declared size
    tablerules.rules(chk, db, {'TW', 'TE'})
    c16.rules(chk, db, prefix='BW.', only={'nop::BoundedWriter'})
    # the compile-time writer must lay down the same bytes as the run-time writers
    from . import c17
    chk.rule('L', 'ConstexprBufferWriter::WriteElement stores little-endian byte lanes at index_ + offset', minimum=8)
    c17.lanes(chk, db, 'L')
    chk.rule('CO', 'wrapper encoders are composed of exactly the documented component encodings', minimum=30)
    encrules.composition(chk, db, 'CO', ('WritePayload', 'Prefix', 'Size'))
    # Size() is on the wire too: it is the declared byte size of every table entry
    encrules.size_rules(chk, db)


def run(chk, db):
    facts.gate(chk, db, ['nop/base/', 'nop/utility/bounded_writer.h'])
    rules(chk, db)
    from .. import witness
    witness.run(chk, 'c03_bytes.cpp', 'WB', 'compile-time witnesses: the library\'s constexpr serialisation of structures, integers at class boundaries, '
                'integral / non-integral arrays, pairs, tuples, optionals and tables equals the hand-written documented bytes', minimum=25)
    chk.explanation = (
        'Integer layer: each Prefix function is shown to be piecewise constant (its parameter occurs only in comparisons with constants) '
        'and is evaluated with exact C conversion semantics on every cell of the induced partition, which decides minimality for all values; '
        'payload types per class come from the resolved WriteAs<> template arguments on every path; the prefix byte values are compared '
        'with the table parsed from docs/format.md. Container layer: symbolic paths of every WritePayload instance are compared with the '
        'documented layout of its type constructor (length field type and expression, element order).'
        " Wrapper kinds are composed of the documented component encodings (CO); every container kind returns its documented prefix (PK); table layout TW/TE with BoundedWriter frames; Size() rules because an entry's declared size is on the wire; constexpr writer byte lanes (L).")
    chk.assumptions = ['LP64 little-endian host: WriteAs copies the native object representation, which is the documented little-endian payload',
                       'unordered_map entries are emitted in the container\'s own iteration order (the property excludes their order)']
