"""C12 - Variant always holds exactly one live alternative or none.

Decided by exhaustive exploration of the abstract state space of a three-alternative Variant whose alternatives are all
non-trivially destructible (nopsa/tsrules.py over nopsa/absx.py): every constructor, the copy/move/element/EmptyVariant
assignments, Become with every index in [-2, N+1], Visit, get<T>/get<I>, destruction - from every reachable state, with a
second Variant in every reachable state and with self-aliasing.  The recursive Union<First, Rest...> members are executed
through all three levels, so head case, recursive case and base case of both Union patterns are exercised for each
member: that is the structural induction, discharged on the patterns' instances.

  L  construct only into dead storage, destroy/assign/read only live storage (no leak, no double destruction)
  I  index() names exactly the live alternative (-1 <=> none) after every operation
  O  outside constructors an alternative is constructed only while index() == -1 (a throwing element constructor
     leaves an empty Variant)
  K  copies report the same index as their source and leave it unchanged; const members change nothing
  D  the destructor leaves nothing alive
  P  Become(i) ends with index i for 0 <= i < N and -1 otherwise; assigning an element of alternative k ends with index k;
     assigning EmptyVariant empties; Visit calls the visitor exactly once with the active element (or EmptyVariant);
     get<T>() is non-null exactly when T is active and then points at the live alternative
  BT Union::Become constructs the indexed alternative through the tagged Construct overload
  MO index_ is declared before value_ (value_'s tagged constructors write the index through a pointer)
"""
import re

from .. import absx, facts, ir, report, tsrules, encrules


class VariantAdapter(tsrules.Adapter):
    observers = ('index',)
    empty_obs = (-1,)
    move_assign_empties_source = False     # a moved-from Variant keeps its (moved-from) alternative

    def __init__(self, alt_types):
        self.alt_types = alt_types
        self.n = len(alt_types)

    def expected_live(self, obs, alts):
        i = obs[0]
        if isinstance(i, int) and 0 <= i < len(alts):
            return [alts[i]]
        return []

    def arg_domain(self, p, fn):
        if fn['n'] == 'Visit':
            return [('visitor',)]
        if fn['n'] == 'Become' and p is fn['params'][0]:
            return [('val', i) for i in range(-2, self.n + 2)]
        t = tsrules.strip_cvref(p['t'])
        if t == 'nop::EmptyVariant':
            return [('unk',)]
        if p.get('rec', '').startswith('nop::Variant<') and p['rec'] != fn.get('rec'):
            return [('skip',)]
        return None

    def alt_of(self, t):
        t = tsrules.strip_cvref(t)
        return self.alt_types.index(t) if t in self.alt_types else None

    def post(self, fn, choice, before, after, obs_b, rv):
        out = []
        w = self.last_world
        alts = tsrules.storage_paths(w, 'A')
        n = fn['n']
        idx = after[0]
        if n == 'Become':
            i = choice[0][1]
            if before is not None and i == before[0]:
                want = before[0]
            else:
                want = i if 0 <= i < self.n else -1
            if idx != want:
                out.append('Become(%d) from index %s ends with index %s, expected %d' % (i, before[0] if before else None, idx, want))
        if (n == 'operator=' or fn.get('ctor')) and len(choice) == 1:
            c = choice[0]
            if c[0] == 'unk' and idx != -1:
                out.append('assigning/constructing from EmptyVariant ends with index %s' % idx)
            if c[0] == 'elem':
                k = self.alt_of(fn['params'][0]['t'])
                if k is not None and idx != k:
                    out.append('assigning/constructing from an element of alternative %d ends with index %s' % (k, idx))
        if fn.get('defaultctor') and idx != -1:
            out.append('default construction ends with index %s' % idx)
        if n == 'Visit':
            visits = [e for e in w.events if e[0] == 'visit']
            if len(visits) != 1:
                out.append('visitor invoked %d times' % len(visits))
            else:
                arg = visits[0][1]
                if idx >= 0:
                    if not (isinstance(arg, absx.Loc) and arg.path == ('A',) + alts[idx]):
                        out.append('visitor received %r, the active alternative is %s' % (arg, '.'.join(alts[idx])))
                elif isinstance(arg, absx.Loc) and arg.path[0] == 'A':
                    out.append('visitor of an empty Variant received storage %r' % (arg,))
        if n == 'get':
            targ = (fn.get('targs') or [''])[0]
            k = self.alt_of(targ)
            if k is None:
                m = re.match(r'^(\d+)', targ)
                k = int(m.group(1)) if m else None
            if k is not None:
                if idx == k:
                    if not (isinstance(rv, absx.Loc) and rv.path == ('A',) + alts[k]):
                        out.append('get<%s>() returns %r while alternative %d is active' % (targ[:30], rv, k))
                elif rv not in (0, None) or isinstance(rv, absx.Loc):
                    if isinstance(rv, absx.Loc):
                        out.append('get<%s>() returns a pointer although index() is %s' % (targ[:30], idx))
        return out


def rules(chk, db):
    chk.rule('L', 'lifetime legality: construct only dead storage; destroy/assign/read only live storage', minimum=20)
    chk.rule('I', 'index() names exactly the live alternative after every operation', minimum=20)
    chk.rule('O', 'outside constructors an alternative is constructed only while index() == -1', minimum=5)
    chk.rule('K', 'copies equal their source and leave it unchanged; const members change nothing', minimum=8)
    chk.rule('D', 'destructor leaves no live alternative', minimum=1)
    chk.rule('P', 'postconditions of Become / element and EmptyVariant assignment / Visit / get', minimum=20)
    chk.rule('MO', 'index_ is declared (hence initialised) before value_', minimum=1)
    cands = []
    for q, r in db.records.items():
        if r.get('rect') == 'nop::Variant' and 'Tracked' in q and 'std::vector<int' in q and 'basic_string' in q:
            cands.append(q)
    if not cands:
        chk.unanalysable('L', 'nop/types/variant.h', 'probe Variant<std::string, std::vector<int>, Tracked> not found')
        return
    q = cands[0]
    r = db.records[q]
    alts = encrules.split_args(q[len('nop::Variant<'):-1])
    ad = VariantAdapter(alts)
    label = 'Variant<string, vector<int>, Tracked>'

    class Ex(tsrules.Explorer):
        def arg_choices(self, fn):
            out = tsrules.Explorer.arg_choices(self, fn)
            return [c for c in out if not any(x[0] == 'skip' for x in c)]
    try:
        ex = Ex(db, q, ad, label, max_states=60).run()
    except absx.Unsupported as e:
        chk.unanalysable('L', label, str(e))
        return
    tsrules.report(chk, ex)
    chk.extra['typestate'] = {label: {'reachable_states': len(ex.states), 'transitions': ex.transitions,
                                      'states': [ex.describe_state(s) for s in ex.states]}}
    # BT: Union::Become selects the alternative by index, so it must construct through the TAGGED Construct overload;
    # the untagged one searches for any alternative constructible from the arguments
    chk.rule('BT', 'Union::Become(i, args...) constructs alternative i through Construct(TypeTag<alternative>, args...)', minimum=2)
    seen = set()
    for f in db.fns:
        if f.get('rect') == 'nop::detail::Union' and f['n'] == 'Become' and 'body' in f:
            key = (f['file'], f['pat']['l'])
            cs = [c for c in ir.calls(f['body']) if ir.callee_name(c) == 'Construct']
            okb = True
            why = ''
            for c in cs:
                cal = db.callee(f, c)
                first = (cal['params'][0]['t'] if cal and cal['params'] else '')
                if not first.startswith('nop::TypeTag<') and not first.startswith('nop::detail::TypeTag<') and 'TypeTag<' not in first:
                    okb = False
                    why = 'calls the untagged Construct(%s...)' % first[:40]
            if not cs:
                okb = False
                why = 'constructs nothing'
            if key in seen and okb:
                continue
            seen.add(key)
            chk.decide(okb, 'BT', facts.site(f) + ' ' + f['rec'].replace('nop::detail::', '')[:50], 'Union::Become: %s' % (why or 'tagged construction of the indexed alternative'),
                       function=ir.fn_label(f))
    names = [f['n'] for f in r['fields']]
    flag = [f['n'] for f in r['fields'] if f.get('scalar')]
    store = [f['n'] for f in r['fields'] if f.get('recunion')]
    ok = bool(flag) and bool(store) and names.index(flag[0]) < names.index(store[0])
    chk.decide(ok, 'MO', '%s:%d' % (r['file'], r['loc']['l']), 'Variant members in declaration order: %s (the index must precede the union)' % names, function=q)


def run(chk, db):
    facts.gate(chk, db, ['nop/types/variant.h', 'nop/types/detail/variant.h'])
    rules(chk, db)
    chk.explanation = (
        'Abstract execution (finite heap of flag cells and dead/live storage cells) of every Variant/Union member reached from the '
        'public operations, explored to a fixpoint over all reachable states of two interacting Variants. Equality of copies as values '
        'is not decided (Variant has no operator==; element equality is user code); converting assignments between different Variant '
        'instantiations are covered only through the element assignments they forward to.')
    chk.assumptions = ['element constructors, assignments and destructors are atomic events', 'exceptions are not modelled as edges; rule O covers the throwing-constructor case']
