"""C12 - Variant always holds exactly one live alternative or none.

Decided by exhaustive exploration of the abstract state space of a three-alternative Variant whose alternatives are all
non-trivially destructible (nopsa/tsrules.py over nopsa/absx.py): every constructor, the copy/move/element/EmptyVariant
assignments, Become with every index in [-2, N+1], Visit, get<T>/get<I>, destruction - from every reachable state, with a
second Variant in every reachable state and with self-aliasing.  The recursive Union<First, Rest...> members are executed
through all three levels, so head case, recursive case and base case of both Union patterns are exercised for each
member: that is the structural induction, discharged on the patterns' instances.

  L  construct only into dead storage, destroy/assign/read only live storage (no leak, no double destruction)
  I  index() names exactly the live alternative (-1 <=> none) after every operation
  O  outside constructors an alternative is constructed only while index() == -1 (a throwing element constructor
     leaves an empty Variant)
  K  copies report the same index as their source and leave it unchanged; const members change nothing
  D  the destructor leaves nothing alive
  P  Become(i) ends with index i for 0 <= i < N and -1 otherwise; assigning an element of alternative k ends with index k;
     assigning EmptyVariant empties; Visit calls the visitor exactly once with the active element (or EmptyVariant);
     get<T>() is non-null exactly when T is active and then points at the live alternative
  BT Union::Become constructs the indexed alternative through the tagged Construct overload
  MO index_ is declared before value_ (value_'s tagged constructors write the index through a pointer)
"""
import re

from .. import absx, facts, ir, report, tsrules, encrules


class VariantAdapter(tsrules.Adapter):
    observers = ('index',)
    empty_obs = (-1,)
    derived = {'empty': lambda obs: obs[0] == -1}
    move_assign_empties_source = False     # a moved-from Variant keeps its (moved-from) alternative

    def __init__(self, alt_types, db=None, recq=None):
        self.alt_types = alt_types
        self.n = len(alt_types)
        # storage path of alternative k, read off the record structure (the union member of the Variant, then for each level the
        # nested-union member k times and the element member): scalar alternatives have no lifetime cell but still have a path
        self.paths = None
        if db is not None and recq in db.records:
            paths = []
            rec = db.records[recq]
            u = [f for f in rec['fields'] if f.get('recunion')]
            prefix = ()
            while u:
                prefix = prefix + (u[0]['n'],)
                ur = db.records.get(u[0].get('rec') or u[0]['t'])
                if ur is None:
                    break
                nested = lambda f: bool(f.get('recunion')) and (f.get('rec') or f.get('t') or '').startswith('nop::detail::Union<')
                elem = [f for f in ur['fields'] if not nested(f)]
                if elem:
                    paths.append(prefix + (elem[0]['n'],))
                u = [f for f in ur['fields'] if nested(f)]
            if len(paths) == self.n:
                self.paths = paths

    def alt_path(self, k, alts):
        if self.paths is not None:
            return self.paths[k]
        return alts[k]

    def expected_live(self, obs, alts):
        i = obs[0]
        if isinstance(i, int) and 0 <= i < self.n:
            if self.paths is not None:
                return [self.paths[i]] if self.paths[i] in alts else []     # scalar alternatives have no lifetime cell
            if i < len(alts):
                return [alts[i]]
        return []

    def arg_domain(self, p, fn):
        if fn['n'] == 'Visit':
            return [('visitor',)]
        if fn['n'] == 'Become' and p is fn['params'][0]:
            return [('val', i) for i in range(-2, self.n + 2)]
        t = tsrules.strip_cvref(p['t'])
        if t == 'nop::EmptyVariant':
            return [('unk',)]
        if t in self.alt_types or t in ('int', 'bool', 'float', 'double', 'long', 'unsigned int'):
            return [('elem',)]          # the VALUE of a scalar alternative is not part of the abstract state
        return None

    max_other_ctors = 8

    def convertible_alt(self, t):
        """the unique alternative constructible from a non-element source type (only string literals are used by the probes)"""
        t = tsrules.strip_cvref(t)
        if re.match(r'^(const )?char ?(\(&\))?\[\d+\]$', t) or t in ('const char *', 'char *'):
            k = [i for i, a in enumerate(self.alt_types) if a.startswith('std::basic_string<char')]
            return k[0] if len(k) == 1 else None
        return None

    def alt_of(self, t):
        t = tsrules.strip_cvref(t)
        return self.alt_types.index(t) if t in self.alt_types else None

    def post(self, fn, choice, before, after, obs_b, rv):
        out = []
        w = self.last_world
        alts = tsrules.storage_paths(w, 'A')
        n = fn['n']
        idx = after[0]
        if n == 'Become':
            i = choice[0][1]
            if before is not None and i == before[0]:
                want = before[0]
            else:
                want = i if 0 <= i < self.n else -1
            if idx != want:
                out.append('Become(%d) from index %s ends with index %s, expected %d' % (i, before[0] if before else None, idx, want))
        if (n == 'operator=' or fn.get('ctor')) and len(choice) == 1:
            c = choice[0]
            if c[0] == 'unk' and idx != -1:
                out.append('assigning/constructing from EmptyVariant ends with index %s' % idx)
            if c[0] == 'elem':
                k = self.alt_of(fn['params'][0]['t'])
                if k is None:
                    k = self.convertible_alt(fn['params'][0]['t'])
                if k is not None and idx != k:
                    out.append('assigning/constructing from a value of/for alternative %d ends with index %s' % (k, idx))
            if c[0] == 'Bx':
                if c[2] == 'empty':
                    k = -1
                else:
                    k = self.alt_of(c[4])
                    if k is None:
                        k = self.convertible_alt(c[4])
                if k is not None and idx != k:
                    out.append('converting from another Variant holding %s ends with index %s, expected %d' % (
                        'nothing' if k == -1 else tsrules.short(tsrules.strip_cvref(c[4])), idx, k))
        if fn.get('defaultctor') and idx != -1:
            out.append('default construction ends with index %s' % idx)
        if n == 'Visit':
            visits = [e for e in w.events if e[0] == 'visit']
            if len(visits) != 1:
                out.append('visitor invoked %d times' % len(visits))
            else:
                arg = visits[0][1]
                if idx >= 0:
                    if not (isinstance(arg, absx.Loc) and arg.path == ('A',) + self.alt_path(idx, alts)):
                        out.append('visitor received %r, the active alternative is %s' % (arg, '.'.join(self.alt_path(idx, alts))))
                elif isinstance(arg, absx.Loc) and arg.path[0] == 'A':
                    out.append('visitor of an empty Variant received storage %r' % (arg,))
        if n == 'get':
            targ = (fn.get('targs') or [''])[0]
            k = self.alt_of(targ)
            if k is None:
                m = re.match(r'^(\d+)', targ)
                k = int(m.group(1)) if m else None
            if k is not None:
                if idx == k:
                    if not (isinstance(rv, absx.Loc) and rv.path == ('A',) + self.alt_path(k, alts)):
                        out.append('get<%s>() returns %r while alternative %d is active' % (targ[:30], rv, k))
                elif rv not in (0, None) or isinstance(rv, absx.Loc):
                    if isinstance(rv, absx.Loc):
                        out.append('get<%s>() returns a pointer although index() is %s' % (targ[:30], idx))
        return out


def explore(chk, db, prefix=''):
    chk.rule(prefix + 'L', 'lifetime legality: construct only dead storage; destroy/assign/read only live storage', minimum=20)
    chk.rule(prefix + 'I', 'index() names exactly the live alternative after every operation', minimum=20)
    chk.rule(prefix + 'O', 'outside constructors an alternative is constructed only while index() == -1', minimum=5)
    chk.rule(prefix + 'K', 'copies equal their source and leave it unchanged; const members change nothing', minimum=8)
    chk.rule(prefix + 'D', 'destructor leaves no live alternative', minimum=1)
    chk.rule(prefix + 'P', 'postconditions of Become / element and EmptyVariant assignment / Visit / get', minimum=20)
    NONTRIVIAL = ('Tracked', 'Tracked2', 'std::basic_string<char, std::char_traits<char>, std::allocator<char>>', 'std::vector<int, std::allocator<int>>')
    cands = {}
    for q, r in db.records.items():
        if r.get('rect') == 'nop::Variant':
            alts = encrules.split_args(q[len('nop::Variant<'):-1])
            if all(a in NONTRIVIAL for a in alts) and any(a.startswith('Tracked') for a in alts):
                # the instantiation the probe exercises completely (most member instances)
                if len(alts) not in cands or len(tsrules.members_of(db, q)) > len(tsrules.members_of(db, cands[len(alts)])):
                    cands[len(alts)] = q
    want_arities = (1, 2, 3, 4)
    missing = [n for n in want_arities if n not in cands]
    if missing:
        chk.unanalysable(prefix + 'L', 'nop/types/variant.h', 'probe Variants of arity %s (all alternatives non-trivially destructible) not found' % missing)
        return None

    class Ex(tsrules.Explorer):
        pass
    chk.extra['typestate'] = {}
    r = None
    # further targets: alternatives of mixed destructibility (the destruction walk) and mutually convertible scalar alternatives
    # (copy / move must keep the source's alternative, not the first one constructible from its value)
    extra = [q for q in ('nop::Variant<int, Tracked, bool>', 'nop::Variant<int, bool, float>', 'nop::Variant<int, UAlt>') if q in db.records]
    if len(extra) != 3:
        chk.unanalysable(prefix + 'L', 'nop/types/variant.h', 'probe Variants <int, Tracked, bool> / <int, bool, float> / <int, UAlt> not found')
        return None
    for n in list(want_arities) + extra:
        q = cands[n] if n in cands else n
        r = db.records[q]
        alts = encrules.split_args(q[len('nop::Variant<'):-1])
        ad = VariantAdapter(alts, db, q)
        label = 'Variant<%s>' % ', '.join(tsrules.short(a).replace('std::vector<int, std::allocator<int>>', 'vector<int>').replace('std::string', 'string') for a in alts)
        try:
            ex = Ex(db, q, ad, label, max_states=80).run()
        except absx.Unsupported as e:
            chk.unanalysable(prefix + 'L', label, str(e))
            return None
        tsrules.report(chk, ex, prefix)
        chk.extra['typestate'][label] = {'reachable_states': len(ex.states), 'transitions': ex.transitions,
                                         'states': [ex.describe_state(s) for s in ex.states]}
    return r, q


def element_assignment(chk, db, rule):
    """AE: `variant = value` where the (decayed) type of value is one of the Variant's alternatives resolves to the overload that
    stores exactly that alternative - the one that forwards to the tagged Assign(TypeTag<that type>, ...).  Read off the resolved
    callee of every such assignment in the library (the visitors of the Variant-to-Variant assignments forward through it) and in
    the probe drivers.  A cross-Variant template that is more specialised than operator=(T&&) would win for an alternative that
    is itself a Variant and unwrap it."""
    chk.rule(rule, 'assigning a value whose type is an alternative resolves to the element assignment of that alternative (also when the alternative is itself a Variant)', minimum=6)
    seen = {}
    for f in list(db.fns) + list(getattr(db, 'drivers', [])):
        if 'body' not in f:
            continue
        for c in ir.calls(f['body']):
            cal = c.get('callee') or {}
            if cal.get('n') != 'operator=' or cal.get('rect') != 'nop::Variant' or len(c.get('args', [])) < 1:
                continue
            arg = c['args'][-1]
            at = tsrules.strip_cvref(ir.strip_all_casts(arg).get('t') or arg.get('t') or '')
            rec = cal.get('rec') or ''
            if not rec.startswith('nop::Variant<') or at == rec:
                continue
            alts = encrules.split_args(rec[len('nop::Variant<'):-1])
            if at not in alts:
                continue
            target = db.callee(f, c)
            if target is None or 'body' not in target:
                continue
            tagged = [x for x in ir.calls(target['body']) if ir.callee_name(x) == 'Assign' and x.get('args') and
                      ('TypeTag<%s>' % at) in (ir.strip_all_casts(x['args'][0]).get('t') or x['args'][0].get('t') or '').replace('nop::detail::', '').replace('nop::Variant<' + rec[len('nop::Variant<'):-1] + '>::', '')]
            ok = bool(tagged)
            key = (f['file'], c.get('loc', {}).get('l'), c.get('loc', {}).get('c'), rec, at)
            if key not in seen or (not ok and seen[key][0]):
                seen[key] = (ok, f, target)
    for (file, line, col, rec, at), (ok, f, target) in sorted(seen.items()):
        chk.decide(ok, rule, '%s:%s:%s' % (file, line, col), '%s = %s resolves to %s' % (
            tsrules.short(rec)[:60], tsrules.short(at)[:40], 'the element assignment (tagged Assign of that alternative)' if ok else
            'operator= at %s:%s, which does not store that alternative by its type' % (target['file'], target['pat']['l'])), function=ir.fn_label(f))


def become_index_guard(chk, db, rule):
    """BI: Variant::Become hands only non-negative indices to the union walk.  The walk counts the index down once per level
    (`target_index - 1`), which overflows - undefined behaviour - for indices near INT32_MIN; "an out-of-range index leaves the
    Variant empty" must hold for every int32.  Decided on the IR of Variant::Become: every call of the union's Become sits under a
    guard (enclosing `if`, the left operand of `&&` / `||`, the condition of `?:`) that is false for a negative index."""
    chk.rule(rule, 'Variant::Become passes only non-negative indices into the union walk (no signed overflow in target_index - 1)', minimum=1)
    seen = set()

    def ev(e, pid):
        """value of a guard expression under target_index = -1 (None if it depends on anything else)"""
        e = ir.strip_all_casts(e)
        k = e.get('k')
        if k == 'ref':
            return -1 if e.get('id') == pid else None
        c = ir.const_of(e)
        if c is not None:
            return c
        if k == 'un' and e.get('op') == '!':
            v = ev(e['e'], pid)
            return None if v is None else int(not v)
        if k == 'un' and e.get('op') == '-':
            v = ev(e['e'], pid)
            return None if v is None else -v
        if k == 'bin':
            l, r = ev(e['l'], pid), ev(e['r'], pid)
            op = e.get('op')
            if op == '&&':
                return 0 if (l == 0 or r == 0) else (None if (l is None or r is None) else 1)
            if op == '||':
                return 1 if (l not in (None, 0) or r not in (None, 0)) else (None if (l is None or r is None) else 0)
            if l is None or r is None:
                return None
            import operator
            ops = {'<': operator.lt, '<=': operator.le, '>': operator.gt, '>=': operator.ge, '==': operator.eq, '!=': operator.ne}
            if op in ops:
                return int(ops[op](l, r))
        return None

    def walk(node, guards, out, pid):
        if isinstance(node, list):
            for x in node:
                walk(x, guards, out, pid)
            return
        if not isinstance(node, dict):
            return
        k = node.get('k')
        if k == 'call' and ir.callee_name(node) == 'Become' and (node.get('callee') or {}).get('rect') == 'nop::detail::Union':
            out.append((node, list(guards)))
        if k == 'bin' and node.get('op') in ('&&', '||'):
            walk(node['l'], guards, out, pid)
            walk(node['r'], guards + [(node['l'], node['op'] == '&&')], out, pid)
            return
        if k == 'cond':
            walk(node.get('c'), guards, out, pid)
            walk(node.get('a'), guards + [(node.get('c'), True)], out, pid)
            walk(node.get('b'), guards + [(node.get('c'), False)], out, pid)
            return
        if k == 'if':
            walk(node.get('cond'), guards, out, pid)
            walk(node.get('then'), guards + [(node.get('cond'), True)], out, pid)
            walk(node.get('else'), guards + [(node.get('cond'), False)], out, pid)
            return
        for kk, v in node.items():
            if kk not in ('callee', 'loc'):
                walk(v, guards, out, pid)
    for f in db.fns:
        if f.get('rect') != 'nop::Variant' or f['n'] != 'Become' or 'body' not in f or not f['params']:
            continue
        key = (f['file'], f['pat']['l'])
        if key in seen:
            continue
        seen.add(key)
        pid = f['params'][0].get('id')
        calls = []
        walk(f['body'], [], calls, pid)
        if not calls:
            chk.unanalysable(rule, facts.site(f), 'Variant::Become does not call the union walk')
            continue
        bad = []
        for c, gs in calls:
            protected = any(g is not None and ev(g, pid) is not None and bool(ev(g, pid)) != sense for g, sense in gs)
            if not protected:
                bad.append(c.get('loc', {}).get('l'))
        chk.decide(not bad, rule, facts.site(f), 'Variant::Become: %s' % ('the union walk at line %s is reachable with a negative index' % bad[0] if bad else
                   'every call of the union walk is guarded by a condition that is false for a negative index'), function=ir.fn_label(f))


def tagging(chk, db, rule):
    chk.rule(rule, 'Union::Become(i, args...) constructs alternative i through Construct(TypeTag<alternative>, args...); tagged Union operations stay tagged when they recurse', minimum=4)
    seen = set()
    for f in db.fns:
        if f.get('rect') == 'nop::detail::Union' and f['n'] == 'Become' and 'body' in f:
            key = (f['file'], f['pat']['l'])
            cs = [c for c in ir.calls(f['body']) if ir.callee_name(c) == 'Construct']
            okb = True
            why = ''
            for c in cs:
                cal = db.callee(f, c)
                first = (cal['params'][0]['t'] if cal and cal['params'] else '')
                if not first.startswith('nop::TypeTag<') and not first.startswith('nop::detail::TypeTag<') and 'TypeTag<' not in first:
                    okb = False
                    why = 'calls the untagged Construct(%s...)' % first[:40]
            if not cs:
                okb = False
                why = 'constructs nothing'
            if key in seen and okb:
                continue
            seen.add(key)
            chk.decide(okb, rule, facts.site(f) + ' ' + f['rec'].replace('nop::detail::', '')[:50], 'Union::Become: %s' % (why or 'tagged construction of the indexed alternative'),
                       function=ir.fn_label(f))
    # a TAGGED union operation (first parameter TypeTag<T>) that recurses into the rest of the union stays tagged with the same T:
    # dropping the tag selects the untagged overload, which picks the first alternative merely constructible / assignable from the value
    seen_t = {}
    for f in db.fns:
        if f.get('rect') != 'nop::detail::Union' or 'body' not in f or not f['params'] or 'TypeTag<' not in f['params'][0]['t']:
            continue
        tag = f['params'][0]['t'].replace('const ', '').strip()
        for c in ir.calls(f['body']):
            if ir.callee_name(c) != f['n'] or (c.get('callee') or {}).get('rect') != 'nop::detail::Union':
                continue
            cal = db.callee(f, c)
            first = (cal['params'][0]['t'] if cal and cal.get('params') else '').replace('const ', '').strip()
            okt = first == tag
            key = (f['file'], f['pat']['l'], c.get('loc', {}).get('l'))
            if key not in seen_t or (not okt and seen_t[key][0]):
                seen_t[key] = (okt, f, first, tag)
    for (file, line, cl), (okt, f, first, tag) in sorted(seen_t.items()):
        chk.decide(okt, rule, '%s:%s' % (file, cl), 'Union::%s(%s, ...) recurses into %s' % (
            f['n'], tag.replace('nop::detail::', '')[:40], 'the same tagged overload' if okt else 'the overload taking (%s...): the tag is dropped' % first[:40]),
            function=ir.fn_label(f))


def rules(chk, db):
    tsrules.noexcept_rule(chk, db, 'NX', ('nop::Variant', 'nop::detail::Union'), minimum=0,
                          text='no Variant / Union member that constructs, assigns or visits an alternative is declared noexcept unless every operation it calls is')
    report.selftest(chk, lambda sc, fdb: tsrules.noexcept_rule(sc, fdb, 'NX', ('nop::fx::Holder',)), 'c12.cpp', {'NX': 1})
    chk.rule('MO', 'index_ is declared (hence initialised) before value_', minimum=1)
    got = explore(chk, db)
    if got is None:
        return
    r, q = got
    # BT: Union::Become selects the alternative by index, so it must construct through the TAGGED Construct overload;
    # the untagged one searches for any alternative constructible from the arguments
    tagging(chk, db, 'BT')
    element_assignment(chk, db, 'AE')
    become_index_guard(chk, db, 'BI')
    names = [f['n'] for f in r['fields']]
    flag = [f['n'] for f in r['fields'] if f.get('scalar')]
    store = [f['n'] for f in r['fields'] if f.get('recunion')]
    ok = bool(flag) and bool(store) and names.index(flag[0]) < names.index(store[0])
    chk.decide(ok, 'MO', '%s:%d' % (r['file'], r['loc']['l']), 'Variant members in declaration order: %s (the index must precede the union)' % names, function=q)


def run(chk, db):
    facts.gate(chk, db, ['nop/types/variant.h', 'nop/types/detail/variant.h'])
    rules(chk, db)
    from .. import witness
    witness.run(chk, 'c13_moves.cpp', 'MVW', 'compile-time witnesses: moving a Variant (and the other sum types) compiles for a move-only alternative', minimum=5)
    chk.explanation = (
        'Abstract execution (finite heap of flag cells and dead/live storage cells) of every Variant/Union member reached from the '
        'public operations, explored to a fixpoint over all reachable states of two interacting Variants. Equality of copies as values '
        'is not decided (Variant has no operator==; element equality is user code); converting assignments between different Variant '
        'instantiations are covered only through the element assignments they forward to.')
    chk.assumptions = ['element constructors, assignments and destructors are atomic events', 'exceptions are not modelled as edges; rule O covers the throwing-constructor case']
