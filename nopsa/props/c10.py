"""C10 - I/O errors propagate verbatim and stop the operation.

Decided by the status-discipline interpreter (nopsa/sd.py) over every function
instance under include/nop except the members of Result/Status themselves: every
status-producing call is a fault position, and the rules SD1-SD4 state that a fault at
that position is tested before the next I/O step, stops the operation, and is
returned unchanged.  Because each pattern is checked independently of its
instantiation the verdict covers every nesting of types.
"""
from .. import facts, ir, report, sd

OUT_OF_SCOPE_FILES = ('nop/types/result.h', 'nop/status.h', 'nop/types/optional.h')


def in_scope(fn):
    return 'body' in fn and fn['file'].startswith('nop/') and fn['file'] not in OUT_OF_SCOPE_FILES


def rules(chk, db, scope=in_scope, prefix=''):
    R = lambda r: prefix + r
    chk.rule(R('SD1'), 'every status-producing call is bound to a status local or returned directly (never discarded)')
    chk.rule(R('SD2'), 'a status is tested before the next status-producing call, before being overwritten and before its value is used')
    chk.rule(R('SD3'), 'no status-producing call executes on a path where a status is known to have failed')
    chk.rule(R('SD4'), 'a failure is returned verbatim (the local, local.error(), or stored through the status out-parameter)')
    per_site = {}
    nfn = 0
    for fn in db.fns:
        if not scope(fn):
            continue
        res = sd.analyse(fn)
        nfn += 1
        for u in res.unknown:
            chk.unanalysable(R('SD1'), facts.site(fn), u + ' in ' + ir.fn_label(fn))
        bad = {}
        for f in res.findings:
            bad.setdefault(id(f.origin), []).append(f)
        for call in res.sites:
            loc = call.get('loc') or {}
            key = (fn['file'], loc.get('l'), loc.get('c'))
            ent = per_site.setdefault(key, {'fn': fn, 'call': call, 'inst': 0, 'bad': {}})
            ent['inst'] += 1
            for f in bad.get(id(call), []):
                ent['bad'].setdefault(f.rule, (f, fn))
    for key in sorted(per_site, key=lambda k: (k[0], k[1] or 0, k[2] or 0)):
        ent = per_site[key]
        where = '%s:%s:%s' % key
        desc = ir.show(ent['call'])[:90]
        for rule in ('SD1', 'SD2', 'SD3', 'SD4'):
            if rule in ent['bad']:
                f, fn = ent['bad'][rule]
                chk.bad(R(rule), where, '%s — %s [at line %s, in %s]' % (desc, f.msg, (f.loc or {}).get('l'), ir.fn_label(fn)[:120]),
                        function=ir.fn_label(fn))
            else:
                chk.ok(R(rule), where, '%s (%d instance(s))' % (desc, ent['inst']))
    return nfn, len(per_site)


def run(chk, db):
    facts.gate(chk, db, ['nop/base/', 'nop/utility/', 'nop/rpc/', 'nop/protocol.h'])
    nfn, nsites = rules(chk, db)
    # "a Write whose Prepare fails writes nothing" presupposes that every Serializer flavour goes through the common Write
    from . import c06
    chk.rule('PF', 'every Serializer flavour writes through SerializerCommon::Write: Prepare(Size(value)) succeeds before the first byte is written', minimum=4)
    c06.prepare_first(chk, db, 'PF')
    # errors enter the status discipline at the transport: a stream primitive that runs out of data must turn that into a status
    from .. import rwrules
    chk.rule('ST', 'stream reader / writer primitives report a shortfall of the underlying stream as an error status', minimum=6)
    chk.rule('SS', 'stream status mapping', minimum=2)
    rwrules.check_stream_class(chk, db, 'nop::StreamReader', 'reader', 'ST', 'SS')
    rwrules.check_stream_class(chk, db, 'nop::StreamWriter', 'writer', 'ST', 'SS')
    chk.explanation = (
        'Abstract interpretation (status local -> Untested/Ok/Failed) of %d function instances under include/nop; every '
        'status-producing call site (%d distinct file:line:col sites) is a fault position and is checked against SD1-SD4. '
        'Pattern-level verdicts hold for every instantiation because the rules depend only on the statements of the pattern.'
        % (nfn, nsites))
    chk.assumptions = ['user-supplied readers/writers report failures through Status', 'exceptions are not modelled']
    chk.extra['functions_interpreted'] = nfn
    chk.extra['distinct_status_sites'] = nsites
    # vacuity floor: the reference tree has ~200 status-producing sites
    for r in ('SD1', 'SD2', 'SD3', 'SD4'):
        chk.counts[r] = 150
    sc = report.selftest(chk, rules, 'c10.cpp', {'SD1': 1, 'SD2': 2, 'SD3': 1, 'SD4': 3})
    # the fixture's accepted-idiom function must stay silent (guards against a rule that fires on everything)
    noisy = [ob for ob in sc.obs if ob[2] == 'violated' and 'Fine' in (ob[4] if len(ob) > 4 else '')]
    if noisy:
        chk.broken.append(('SD', 'fixtures/c10.cpp', 'self-test: accepted idioms reported: %s' % noisy[0][3][:120]))
