"""C11 - decoding depends only on the bytes, not on the destination's prior contents.

Inductive rule over every ReadPayload pattern: each destination is (i) reset before use, or (ii)
completely overwritten, or (iii) handed to a nested Encoding<U>::Read for which the rule holds inductively.

  RST.r  containers clear()/resize-and-overwrite on every successful path (also the empty-input path);
         Optional/Result/Variant re-seat before/with the decoded payload; logical buffers store their size
  ELT.r  fixed-size destinations (arrays, pairs, tuples, structures) have every element decoded, once, in order
  TC     tables clear every declared entry before reading
  TR     an entry is re-seated (`*entry = T{}`) before its value is decoded
  TS.*   Result / Optional (typestate exploration shared with C13): assignment and clear from every reachable prior state
  TV.*   Variant of arity 1..4 (shared with C12): Become / assignment from every reachable prior state
"""
from . import c12, c13
from .. import facts, report, encrules, tablerules


def rules(chk, db):
    encrules.read_rules(chk, db, want=('RST', 'ELT'))
    tablerules.rules(chk, db, {'TC', 'TR'})
    # the decoders re-seat sum types through Result::operator=, Optional::operator=/clear and Variant::Become: their
    # "prior state does not matter" contract is the typestate exploration of those classes (shared with C12/C13)
    c13.typestate(chk, db, prefix='TS.')
    c12.explore(chk, db, prefix='TV.')
    # "completely overwritten" rests on the readers' block transfers filling the whole requested range or failing
    from .. import rwrules
    chk.rule('C', 'buffer readers copy exactly the requested bytes', minimum=2)
    chk.rule('ST', 'stream reader primitives move exactly the requested bytes and report the stream state', minimum=3)
    chk.rule('SS', 'stream reader status mapping', minimum=1)
    chk.rule('FD', 'fd reader transfers every requested byte or fails', minimum=2)
    for rec in ('nop::BufferReader', 'nop::PedanticBufferReader'):
        rwrules.check_buffer_class(chk, db, rec, {'T': None, 'G': None, 'E': None, 'C': 'C'}, guard_required=False)
    rwrules.check_stream_class(chk, db, 'nop::StreamReader', 'reader', 'ST', 'SS')
    rwrules.check_fd_class(chk, db, 'nop::FdReader', 'reader', 'FD')
    chk.rule('LBV', 'LogicalBuffer view: begin/end/size/operator[] denote data[0], data[size], the size member, data[i]', minimum=4)
    encrules.logical_buffer_view(chk, db, 'LBV')


def run(chk, db):
    facts.gate(chk, db, ['nop/base/', 'nop/types/result.h', 'nop/types/optional.h', 'nop/types/variant.h', 'nop/types/detail/variant.h'])
    rules(chk, db)
    # a decoded handle reference - the empty one included - is resolved through the reader and stored: an early return would
    # leave the previous handle in a reused destination
    from . import c15
    chk.rule('HR', 'Handle decoder: every decoded reference is resolved through GetHandle and the result is stored into the destination', minimum=1)
    c15.handle_read_errors(chk, db, 'HR')
    # re-seating a Variant destination assigns the decoded alternative BY TYPE: the tagged union operations stay tagged
    from . import c12
    c12.tagging(chk, db, 'BT')
    c12.element_assignment(chk, db, 'AE')
    chk.explanation = (
        'For every ReadPayload instance the symbolic successful paths are checked for a reset or complete overwrite of the destination '
        '(kind-specific: clear(), resize+raw read of exactly the resized range, element-by-element coverage with the exact count, '
        'Become/assignment for sum types, ClearEntries for tables). The re-seating operations themselves (Result/Optional assignment and '
        'clear, Variant::Become and assignment) are explored from every reachable prior state by the typestate engine (rules TS.*, TV.*: '
        'no leak, no double destruction, observable state determined by the assigned value alone). Value equality with a fresh decode is '
        'not decided.')
    chk.assumptions = ['std container clear()/resize()/operator= have their documented meaning', 'user types assign by value']
