"""C11 - decoding depends only on the bytes, not on the destination's prior contents.

Inductive rule over every ReadPayload pattern: each destination is (i) reset before use, or (ii)
completely overwritten, or (iii) handed to a nested Encoding<U>::Read for which the rule holds inductively.

  RST.r  containers clear()/resize-and-overwrite on every successful path (also the empty-input path);
         Optional/Result/Variant re-seat before/with the decoded payload; logical buffers store their size
  ELT.r  fixed-size destinations (arrays, pairs, tuples, structures) have every element decoded, once, in order
  TC     tables clear every declared entry before reading
  TR     an entry is re-seated (`*entry = T{}`) before its value is decoded
  RA     Result::Assign / Optional::clear used for re-seating destroy the previous alternative (see C13 for the types)
"""
from .. import facts, report, encrules, tablerules


def rules(chk, db):
    encrules.read_rules(chk, db, want=('RST', 'ELT'))
    tablerules.rules(chk, db, {'TC', 'TR'})
    chk.rule('LBV', 'LogicalBuffer view: begin/end/size/operator[] denote data[0], data[size], the size member, data[i]', minimum=4)
    encrules.logical_buffer_view(chk, db, 'LBV')


def run(chk, db):
    facts.gate(chk, db, ['nop/base/'])
    rules(chk, db)
    chk.explanation = (
        'For every ReadPayload instance the symbolic successful paths are checked for a reset or complete overwrite of the destination '
        '(kind-specific: clear(), resize+raw read of exactly the resized range, element-by-element coverage with the exact count, '
        'Become/assignment for sum types, ClearEntries for tables). Value equality with a fresh decode is not decided; "nothing leaked or '
        'destroyed twice" is the subject of C12/C13.')
    chk.assumptions = ['std container clear()/resize()/operator= have their documented meaning', 'user types assign by value']
