"""C15 - handles travel out of band intact; UniqueHandle closes exactly once.

  HW  Encoding<Handle<P>>::WritePayload: type tag (uint64) written, then exactly one PushHandle(value), then exactly the
      reference PushHandle returned is written (int64); a push failure is returned as its .error()
  HR  ReadPayload: type tag compared with Policy::HandleType() (-> UnexpectedHandleType), the decoded reference is what
      GetHandle receives, a resolution failure is returned as its .error(), the resolved handle is stored
  HS  Size(): prefix + Size(type tag) + BaseEncodingSize(I64)  (upper bound for any reference)
  H   BoundedReader::GetHandle / BoundedWriter::PushHandle forward their argument and return the wrapped status
  HT  a table entry holding a Handle compiles and is framed like any other entry (compile-time witness; F-K regression)
  UH  UniqueHandle typestate (abstract execution over the owned value): destructor, move-assignment and close() close the
      owned resource exactly once; release() and moved-from handles close nothing; unique ownership is preserved;
      copying is deleted (witness)
"""
from .. import absx, facts, ir, report, symx, encrules, witness
from . import c16
from ..symx import StatusVal


def handle_write(chk, db, rule):
    chk.rule(rule, 'handle writer: tag, one PushHandle(value), the returned reference; push error returned via .error()', minimum=2)
    for fn in encrules.encoder_instances(db, {'WritePayload'}, prefer=('probe::HandleWriter',)):
        k = encrules.classify(fn)
        if k is None or k.kind != 'HANDLE':
            continue
        where = encrules.site(fn, '<%s>' % encrules.short_t(fn['recargs'][0]))
        paths = encrules.paths_of(db, fn)
        why = []
        succ = [p for p in paths if encrules.is_success(p)]
        if len(succ) != 1:
            why.append('%d successful paths' % len(succ))
        for p in succ:
            ev = [e for e in p.events if e.kind == 'call' and (encrules.enc_type(e) or e.name == 'PushHandle')]
            seq = [(e.name, encrules.enc_type(e)) for e in ev]
            if seq != [('Write', 'unsigned long'), ('PushHandle', None), ('Write', 'long')]:
                why.append('sequence %s, expected tag(uint64), PushHandle, reference(int64)' % seq)
                continue
            if 'HandleType()' not in repr(ev[0].args[0]):
                why.append('type tag written is %r, not Policy::HandleType()' % (ev[0].args[0],))
            if repr(ev[1].args[0]) != 'p:value':
                why.append('PushHandle receives %r instead of the handle being written' % (ev[1].args[0],))
            idx = p.events.index(ev[1])
            if repr(ev[2].args[0]) != 'value_of(status#%d)' % idx:
                why.append('reference written is %r, not the one PushHandle returned' % (ev[2].args[0],))
        for p in paths:
            pushes = [i for i, e in enumerate(p.events) if e.kind == 'call' and e.name == 'PushHandle']
            if len(pushes) > 1:
                why.append('handle pushed %d times on one path' % len(pushes))
            # whatever reference the channel returned is encoded: no value of the reference may end the write early
            for i in pushes:
                if p.status_facts().get(i) is True:
                    later = [e for e in p.events[i + 1:] if e.kind == 'call' and encrules.enc_type(e) == 'long' and e.name == 'Write']
                    if not later:
                        why.append('a successfully pushed handle is not followed by the write of its reference (path returns %r)' % (p.ret,))
            for i in pushes:
                if p.status_facts().get(i) is False and not (isinstance(p.ret, StatusVal) and p.ret.kind == 'errof' and p.ret.arg == i):
                    why.append('push failure is returned as %r' % (p.ret,))
        chk.decide(not why, rule, where, 'Encoding<Handle>::WritePayload: %s' % ('; '.join(sorted(set(why))) if why else
                   'tag, one PushHandle(value), returned reference; failure -> push_status.error()'), function=ir.fn_label(fn))


def handle_read_errors(chk, db, rule):
    for fn in encrules.encoder_instances(db, {'ReadPayload'}, prefer=('probe::HandleReader',)):
        k = encrules.classify(fn)
        if k is None or k.kind != 'HANDLE':
            continue
        where = encrules.site(fn, '<%s>' % encrules.short_t(fn['recargs'][0]))
        paths = encrules.paths_of(db, fn)
        why = []
        for p in paths:
            gets = [i for i, e in enumerate(p.events) if e.kind == 'call' and e.name == 'GetHandle']
            # every decoded reference of a handle whose type tag matched is resolved through the reader, whatever its value
            refs = [i for i, e in enumerate(p.events) if e.kind == 'call' and e.name == 'Read' and encrules.enc_type(e) == 'long']
            if refs and p.status_facts().get(refs[0]) is True and not gets and encrules.err_of(p) != 'UnexpectedHandleType':
                why.append('a decoded reference is not resolved through GetHandle (path returns %r)' % (p.ret,))
            for i in gets:
                if p.status_facts().get(i) is False and not (isinstance(p.ret, StatusVal) and p.ret.kind == 'errof' and p.ret.arg == i):
                    why.append('resolution failure is returned as %r' % (p.ret,))
                if p.status_facts().get(i) is True:
                    st = [e for e in p.events[i:] if e.kind == 'call' and e.name == 'operator=' and 'value_of(status#%d)' % i in repr(e.args)]
                    if not st:
                        why.append('resolved handle is not stored into the destination')
        chk.decide(not why, rule, where + ' [errors]', 'Encoding<Handle>::ReadPayload: %s' % ('; '.join(sorted(set(why))) if why else
                   'GetHandle failure -> get_status.error(); success -> *value = resolved handle'), function=ir.fn_label(fn))


# ---------------------------------------------------------------------------
def unique_handle(chk, db, rule):
    chk.rule(rule, 'UniqueHandle: owned resource closed exactly once by dtor / move-assign-over / close(); never after release or move-away', minimum=6)
    cands = sorted(q for q, r in db.records.items() if r.get('rect') == 'nop::UniqueHandle' and 'DefaultHandlePolicy<int' in q)
    if not cands:
        chk.unanalysable(rule, 'nop/types/handle.h', 'no UniqueHandle<DefaultHandlePolicy<int,...>> instance in the probes')
        return
    _unique_handle_for(chk, db, rule, cands[0], None)
    # ... and over the shipped file-descriptor policy (its own Close / Release; empty value -1): release() must hand the descriptor
    # out still open
    fcands = sorted(q for q, r in db.records.items() if r.get('rect') == 'nop::UniqueHandle' and q.endswith('<nop::FileHandlePolicy>'))
    if not fcands:
        chk.unanalysable(rule, 'nop/types/file_handle.h', 'no UniqueHandle<FileHandlePolicy> instance in the probes')
        return
    _unique_handle_for(chk, db, rule, fcands[0], -1)


def _unique_handle_for(chk, db, rule, q, empty):
    fns = [f for f in db.fns if f.get('rec') == q]
    import re
    m = re.search(r'DefaultHandlePolicy<int, (-?\d+)>', q)
    EMPTY = empty if empty is not None else (int(m.group(1)) if m else 0)
    file_policy = empty is not None

    def fresh_world(a, b):
        w = absx.World(db)
        w.declare(('A',), q)
        w.declare(('B',), q)
        w.cells[('A', 'value_')] = a
        w.cells[('B', 'value_')] = b
        return w
    closed = []

    def close_hook(it, fr, e, obj, args):
        if args and isinstance(args[0], absx.Loc):
            closed.append(it.w.cells.get(args[0].path))
        return NotImplemented
    ops = [f for f in fns if ('body' in f or f.get('inits')) and (f.get('access') == 'public')]
    seen_sites = set()
    for f in ops:
        where = '%s:%d %s' % (f['file'], f['pat']['l'], fn_sig(f))
        why = []
        n = 0
        takes_other = any(p.get('rec') == q for p in f['params'])
        a_vals = [None] if f.get('ctor') else [EMPTY, 7]
        for a in a_vals:
            for b in ([EMPTY, 8] if takes_other else [EMPTY]):
                for alias in ([False, True] if takes_other and not f.get('ctor') else [False]):
                    w = fresh_world(a if a is not None else EMPTY, b)
                    del closed[:]
                    args = []
                    for p in f['params']:
                        if p.get('rec') == q:
                            args.append(absx.Loc(('A',) if alias else ('B',)))
                        elif p.get('integral'):
                            args.append(9)
                        else:
                            args.append(absx.UNKNOWN)
                    it = absx.Interp(w, hooks={'Close': close_hook})
                    try:
                        rv = it.run(f, ('A',), args, None)
                    except absx.Unsupported as e:
                        chk.unanalysable(rule, where, str(e))
                        why = None
                        break
                    n += 1
                    av, bv = w.cells.get(('A', 'value_')), w.cells.get(('B', 'value_'))
                    real = [c for c in closed if c != EMPTY]
                    ctx = '%s with this=%s other=%s%s' % (fn_sig(f), a, b, ' (self)' if alias else '')
                    if len(real) != len(set(real)):
                        why.append('%s closes %s more than once' % (ctx, real))
                    if f.get('dtor'):
                        if (a != EMPTY) != (a in real) or len(real) > (1 if a != EMPTY else 0):
                            why.append('%s: destructor closes %s, owned %s' % (ctx, real, a))
                    elif f.get('moveassign') and not alias:
                        if real != ([a] if a != EMPTY else []):
                            why.append('%s closes %s, must close exactly the resource it owned (%s)' % (ctx, real, a))
                        if av != b or bv != EMPTY:
                            why.append('%s leaves this=%s other=%s, expected this=%s other=empty' % (ctx, av, bv, b))
                    elif f.get('moveassign') and alias:
                        if real or av != a:
                            why.append('%s: self move-assignment closes %s / leaves %s' % (ctx, real, av))
                    elif f.get('movector'):
                        if real or av != b or bv != EMPTY:
                            why.append('%s: move construction closes %s, this=%s other=%s' % (ctx, real, av, bv))
                    elif f['n'] == 'close':
                        if real != ([a] if a != EMPTY else []) or av != EMPTY:
                            why.append('%s closes %s and leaves %s' % (ctx, real, av))
                    elif f['n'] == 'release':
                        rvv = it.read(rv, absx.Frame(f, ('A',)), None) if isinstance(rv, absx.Loc) else rv
                        if real or av != EMPTY or rvv != a:
                            why.append('%s closes %s, leaves %s, returns %s (expected nothing closed, empty, %s)' % (ctx, real, av, rvv, a))
                    elif f.get('ctor') and f['params'] and f['params'][0].get('integral'):
                        if real or av != 9:
                            why.append('%s: constructing from a raw value closes %s / owns %s' % (ctx, real, av))
                    elif f.get('defaultctor'):
                        if real or av != EMPTY:
                            why.append('%s: default construction owns %s' % (ctx, av))
                    elif f.get('const'):
                        if real or av != a:
                            why.append('%s: const member changes the handle' % ctx)
                    if av != EMPTY and av == bv and not alias:
                        why.append('%s: two handles own resource %s' % (ctx, av))
                if why is None:
                    break
            if why is None:
                break
        if why is None:
            continue
        chk.decide(not why, rule, where, 'UniqueHandle::%s: %s' % (fn_sig(f), '; '.join(sorted(set(why))[:3]) if why else '%d ownership scenarios' % n),
                   function=ir.fn_label(f))
    # both shipped policies: Close leaves the empty value
    for g in db.fns:
        if g['n'] == 'Close' and g.get('static') and 'body' in g and g['file'] in ('nop/types/handle.h', 'nop/types/file_handle.h'):
            key = (g['file'], g['pat']['l'])
            if key in seen_sites:
                continue
            seen_sites.add(key)
            # the resource is handed to the OS exactly once: a retry loop around ::close (EINTR) closes a descriptor number that
            # may already belong to someone else
            os_calls = [c for c in ir.calls(g['body']) if not (c.get('callee') or {}).get('nop')]
            in_loop = [c for lp in ir.walk(g['body']) if lp.get('k') in ('for', 'while', 'do') for c in ir.calls(lp)
                       if not (c.get('callee') or {}).get('nop')]
            if os_calls:
                chk.decide(len(os_calls) == 1 and not in_loop, rule, facts.site(g) + ' ' + g['rec'].replace('nop::', '')[:40] + ' once',
                           '%s::Close releases the resource through %d call(s)%s' % (g['rec'].replace('nop::', '')[:40], len(os_calls),
                                                                                     ', repeated in a loop' if in_loop else ''), function=ir.fn_label(g))
                if in_loop:
                    continue
            # every value other than the empty one is released - also 0, which is a valid descriptor
            released_all = True
            rel_msg = ''
            for val in (0, 5, 1 << 20):
                wv = absx.World(db)
                wv.cells[('X', 'v')] = val
                got = []

                def os_hook(it_, fr_, e_, obj_, args_, got=got):
                    if obj_ is None and args_:
                        a0 = args_[0]
                        got.append(it_.read(a0, fr_, e_) if isinstance(a0, absx.Loc) else a0)
                        return 0
                    return NotImplemented
                # the OS-level release calls Close() reaches (directly or through members of the same policy): external functions
                # outside namespace std
                names = set()
                for h in [g] + [db.callee(g, c) for c in ir.calls(g['body'])]:
                    if h is None or 'body' not in h or h.get('rec') != g.get('rec'):
                        continue
                    for c in ir.calls(h['body']):
                        cal = c.get('callee') or {}
                        if not cal.get('nop') and not cal.get('q', '').startswith('std::') and not cal.get('rec'):
                            names.add(cal.get('n'))
                try:
                    absx.Interp(wv, hooks={n: os_hook for n in names if n}).run(g, None, [absx.Ptr(('X', 'v'))], None)
                except absx.Unsupported:
                    got = None
                if got is not None and names and got != [val]:
                    released_all = False
                    rel_msg = 'Close() of the value %d releases %s' % (val, got)
            if not released_all:
                chk.bad(rule, facts.site(g) + ' ' + g['rec'].replace('nop::', '')[:40] + ' all-values', '%s::%s' % (g['rec'].replace('nop::', '')[:40], rel_msg), function=ir.fn_label(g))
            w = absx.World(db)
            w.cells[('X', 'v')] = 5
            it = absx.Interp(w)
            try:
                it.run(g, None, [absx.Ptr(('X', 'v'))], None)
            except absx.Unsupported as e:
                chk.unanalysable(rule, facts.site(g), str(e))
                continue
            after = w.cells.get(('X', 'v'))
            d = [h for h in db.fns if h.get('rec') == g.get('rec') and h['n'] == 'Default' and 'body' in h]
            want = it.run(d[0], None, [], None) if d else None
            chk.decide(after == want and want is not None, rule, facts.site(g) + ' ' + g['rec'].replace('nop::', '')[:40],
                       '%s::Close leaves %s (Default() is %s): a second close() cannot close the resource again' % (g['rec'].replace('nop::', '')[:40], after, want),
                       function=ir.fn_label(g))


def fn_sig(fn):
    return '%s(%s)' % (fn['n'], ', '.join(p['t'].replace('nop::', '')[:40] for p in fn['params']))


def rules(chk, db):
    handle_write(chk, db, 'HW')
    encrules.read_rules(chk, db, want=('GRD',), prefix='HR.')
    chk.counts['HR.GRD.r'] = 25
    handle_read_errors(chk, db, 'HR.GRD.r')
    encrules.size_rules(chk, db, prefix='HS.')
    c16.rules(chk, db, prefix='B.')
    unique_handle(chk, db, 'UH')
    # a handle over-estimates its size, so a handle inside a table entry is the one value that is always followed by padding:
    # the padding goes through the writer's Skip, which must emit exactly that many bytes
    from .. import rwrules
    chk.rule('ST', 'stream writer / reader primitives move exactly the requested bytes (padding after a handle entry)', minimum=6)
    chk.rule('SS', 'stream status mapping', minimum=2)
    rwrules.check_stream_class(chk, db, 'nop::StreamReader', 'reader', 'ST', 'SS')
    rwrules.check_stream_class(chk, db, 'nop::StreamWriter', 'writer', 'ST', 'SS')
    witness.run(chk, 'c15_handles.cpp', 'HT', 'compile-time witnesses: Handle inside a table entry compiles; UniqueHandle is move-only', minimum=5)


def run(chk, db):
    facts.gate(chk, db, ['nop/base/handle.h', 'nop/types/handle.h', 'nop/types/file_handle.h', 'nop/utility/bounded_reader.h', 'nop/utility/bounded_writer.h'])
    rules(chk, db)
    chk.explanation = (
        'Event order and def-use of the handle encoder on its symbolic paths; forwarding of the bounded wrappers; abstract execution of every '
        'UniqueHandle member over all ownership scenarios (empty / owning, second handle, self-aliasing) with Policy::Close calls recorded; '
        'compile-time witnesses for handles in table entries and for the deleted copy operations. That the references denote "the same '
        'resources" is the business of the reader and writer supplied by the user and is not decided.')
    chk.assumptions = ['Policy::Close of a user policy closes the resource it is given and nothing else']
