"""C16 - BoundedReader / BoundedWriter confine all traffic to their byte limit.

Inductive step on the invariant  pos <= limit  for every primitive, decided on the
symbolic effect summary (nopsa/symx.py) of each member function instance:

  G  guard       every path that reaches the wrapped object or advances the position
                 has passed  need <= limit - pos  in an overflow-safe form
                 (need is derived from the primitive's *signature*, not its body)
  E  refusal     the failing branch of the guard returns Read/WriteLimitReached and
                 touches neither the wrapped object nor the position
  D  delegation  on the guarded path the wrapped object's same-named primitive is
                 called exactly once with the caller's arguments
  S  counting    the position advances by exactly `need`, exactly once, and only
                 after the wrapped call is known to have succeeded; a wrapped failure
                 is returned unchanged
  P  padding     Read/WritePadding skip exactly limit - pos (with the requested
                 padding value) and end with pos == limit
  H  handles     Get/PushHandle forward their argument and return the wrapped status
  I  initial     pos starts at 0, limit and delegate come from the constructor

These rules are each necessary: the witness behaviours are listed next to the rule in
DESIGN §4 C16.
"""
from .. import facts, ir, report, rw, symx
from ..symx import Poly, StatusVal

CLASSES = {'nop::BoundedReader': ('reader', 'ReadLimitReached'), 'nop::BoundedWriter': ('writer', 'WriteLimitReached'),
           'nop::fx::BoundedReader': ('reader', 'ReadLimitReached')}
DELEGATE_OF = {'Ensure': 'Ensure', 'Prepare': 'Prepare', 'Read': 'Read', 'Write': 'Write', 'Skip': 'Skip',
               'ReadPadding': 'Skip', 'WritePadding': 'Skip', 'GetHandle': 'GetHandle', 'PushHandle': 'PushHandle'}
EXPECTED_PRIMS = {'reader': {'Ensure', 'Read', 'Skip', 'ReadPadding', 'GetHandle'},
                  'writer': {'Prepare', 'Write', 'Skip', 'WritePadding', 'PushHandle'}}


def args_match(ev, params, replace=None):
    want = [Poly.atom('p:' + p['n']) for p in params]
    if replace:
        want = replace
    got = [symx.as_poly(a) for a in ev.args]
    return got == want, want, got


def check_method(chk, db, fn, roles, kind, limit_err, R):
    name = fn['n']
    where = facts.site(fn)
    label = ir.fn_label(fn)
    try:
        paths = rw.run_paths(db, fn)
    except symx.Unsupported as e:
        chk.unanalysable(R('G'), where, 'cannot summarise %s: %s' % (label, e))
        return
    pos = Poly.atom('f:' + roles.pos)
    lim = Poly.atom('f:' + roles.limit)
    rem = lim - pos
    summary = ' | '.join(p.describe() for p in paths)[:600]

    if name in ('GetHandle', 'PushHandle'):
        ok = True
        why = []
        for p in paths:
            dc = rw.delegate_calls(p, roles)
            if len(dc) != 1 or dc[0][1].name != DELEGATE_OF[name]:
                ok = False
                why.append('expected exactly one %s on the wrapped object' % DELEGATE_OF[name])
                continue
            m, want, got = args_match(dc[0][1], fn['params'])
            if not m:
                ok = False
                why.append('arguments %s forwarded as %s' % (want, got))
            if not (isinstance(p.ret, StatusVal) and p.ret.kind == 'call' and p.ret.arg == dc[0][0]):
                ok = False
                why.append('wrapped status not returned directly')
            if rw.field_events(p):
                ok = False
                why.append('position changed by a handle transfer')
        chk.decide(ok, R('H'), where, '%s: %s' % (name, '; '.join(why) if why else summary), function=label)
        return

    padding = name in ('ReadPadding', 'WritePadding')
    need = rem if padding else rw.need_of(fn, kind)
    if need is None:
        chk.unanalysable(R('G'), where, 'cannot derive the byte count of %s from its signature' % label)
        return
    forwards_status = name in ('Ensure', 'Prepare')

    g_ok, e_ok, d_ok, s_ok, p_ok = True, True, True, True, True
    g_why, e_why, d_why, s_why, p_why = [], [], [], [], []
    saw_refusal = False
    for p in paths:
        dc = rw.delegate_calls(p, roles)
        fe = [e for e in rw.field_events(p) if e.field == roles.pos]
        other_fields = [e for e in rw.field_events(p) if e.field != roles.pos]
        if other_fields:
            s_ok = False
            s_why.append('assigns %s' % other_fields[0].field)
        touches = bool(dc) or bool(fe)
        if not padding:
            failing = rw.failing_guard(p, need, roles)
            if failing:
                saw_refusal = True
                if not (isinstance(p.ret, StatusVal) and p.ret.kind == 'err' and p.ret.arg == limit_err):
                    e_ok = False
                    e_why.append('refusal path returns %r instead of %s' % (p.ret, limit_err))
                if touches:
                    e_ok = False
                    e_why.append('refusal path still touches the wrapped object or the position')
                continue
            if touches:
                g = rw.guard_on_path(p, need, roles)
                if g != 'safe':
                    g_ok = False
                    g_why.append('path [%s] %s' % (p.describe()[:160],
                                 'uses the wrapping form pos + need > limit' if g == 'unsafe' else
                                 'is not dominated by need <= limit - pos (need = %r)' % need))
        if not touches and not padding and isinstance(p.ret, StatusVal) and p.ret.kind == 'err':
            from ..rwrules import spurious_refusal
            w = spurious_refusal(p, need, roles)
            if w:
                e_ok = False
                e_why.append('path [%s] refuses a request that fits (%s)' % (p.describe()[:100], ', '.join('%s=%s' % kv for kv in sorted(w.items()))))
        if not touches:
            if not (isinstance(p.ret, StatusVal) and p.ret.kind == 'err'):
                # a path that does nothing and reports success would let the caller run past the limit
                d_ok = False
                d_why.append('path [%s] performs no transfer yet does not fail' % p.describe()[:120])
            continue
        # D: delegation
        if len(dc) != 1 or dc[0][1].name != DELEGATE_OF[name] or dc[0][1].in_loop:
            d_ok = False
            d_why.append('expected exactly one call of %s on the wrapped object, found %s' % (
                DELEGATE_OF[name], [e.name for _, e in dc]))
            continue
        idx, ev = dc[0]
        if padding:
            want = [rem] + [Poly.atom('p:' + q['n']) for q in fn['params']]
            m, want, got = args_match(ev, fn['params'], want)
        else:
            m, want, got = args_match(ev, fn['params'])
        if not m:
            d_ok = False
            d_why.append('wrapped call receives %s, expected %s' % (got, want))
        # S: counting
        facts_ = p.status_facts()
        if forwards_status:
            if fe:
                s_ok = False
                s_why.append('%s changes the position' % name)
            if not (isinstance(p.ret, StatusVal) and p.ret.kind == 'call' and p.ret.arg == idx):
                s_ok = False
                s_why.append('%s does not return the wrapped status' % name)
            continue
        if idx not in facts_:
            s_ok = False
            s_why.append('wrapped status never tested on path [%s]' % p.describe()[:120])
            continue
        if facts_[idx] is False:
            if fe:
                s_ok = False
                s_why.append('position advanced although the wrapped call failed')
            if not (isinstance(p.ret, StatusVal) and p.ret.kind in ('call', 'errof') and p.ret.arg == idx):
                s_ok = False
                s_why.append('wrapped failure not returned unchanged (returns %r)' % (p.ret,))
        else:
            if len(fe) != 1:
                s_ok = False
                s_why.append('position assigned %d times on the success path' % len(fe))
            else:
                after = p.events.index(fe[0]) > idx
                if not after:
                    s_ok = False
                    s_why.append('position advanced before the wrapped call')
                if symx.as_poly(fe[0].value) != pos + need:
                    s_ok = False
                    s_why.append('position becomes %r, expected %r' % (fe[0].value, pos + need))
                elif padding and symx.as_poly(fe[0].value) != lim:
                    p_ok = False
                    p_why.append('position after padding is %r, not the limit' % (fe[0].value,))
            if not (isinstance(p.ret, StatusVal) and p.ret.kind == 'ok'):
                s_ok = False
                s_why.append('success path returns %r' % (p.ret,))
    if not padding:
        chk.decide(g_ok, R('G'), where, '%s: %s' % (name, '; '.join(g_why) if g_why else 'need=%r guarded on every transferring path' % need), function=label)
        chk.decide(e_ok and saw_refusal, R('E'), where,
                   '%s: %s' % (name, '; '.join(e_why) if e_why else ('refusal path present' if saw_refusal else 'no refusal path at all')), function=label)
    else:
        chk.decide(p_ok and d_ok and s_ok, R('P'), where, '%s: %s' % (name, '; '.join(p_why + d_why + s_why) or summary), function=label)
    chk.decide(d_ok, R('D'), where, '%s: %s' % (name, '; '.join(d_why) if d_why else 'delegates once with the caller\'s arguments'), function=label)
    chk.decide(s_ok, R('S'), where, '%s: %s' % (name, '; '.join(s_why) if s_why else 'advances by exactly need after success'), function=label)


def rules(chk, db, prefix='', only=None):
    R = lambda r: prefix + r
    half = 2 if only else 1
    chk.rule(R('G'), 'guard need <= limit - pos (overflow-safe form) dominates every transfer', minimum=6 // half)
    chk.rule(R('E'), 'guard failure returns Read/WriteLimitReached without touching the wrapped object or the position', minimum=6 // half)
    chk.rule(R('D'), 'exactly one same-named call on the wrapped object with the caller\'s arguments', minimum=8 // half)
    chk.rule(R('S'), 'position advances by exactly need, once, only after wrapped success; wrapped failure returned unchanged', minimum=8 // half)
    chk.rule(R('P'), 'Read/WritePadding skip exactly limit - pos with the padding value and end at the limit', minimum=2 // half)
    chk.rule(R('H'), 'Get/PushHandle forward their argument to the wrapped object and return its status', minimum=2 // half)
    chk.rule(R('I'), 'position starts at 0; limit and wrapped object come from the constructor; every primitive exists', minimum=2 // half)
    by_class = {}
    for fn in db.fns:
        if fn.get('rect') in CLASSES and 'body' in fn and (only is None or fn['rect'] in only):
            by_class.setdefault(fn['rec'], []).append(fn)
    done_patterns = set()
    names_by_rect = {}
    for rec, methods in by_class.items():
        names_by_rect.setdefault(methods[0]['rect'], set()).update(m['n'] for m in methods)
    for rec, methods in sorted(by_class.items()):
        kind, limit_err = CLASSES[methods[0]['rect']]
        roles = rw.resolve_roles(db, rec, methods)
        if roles is None or roles.delegate is None:
            chk.unanalysable(R('I'), rec, 'cannot resolve position/limit/delegate fields of ' + rec)
            continue
        r = db.records[rec]
        # I: initial state
        key_i = (methods[0]['rect'], 'I')
        posf = [f for f in r['fields'] if f['n'] == roles.pos][0]
        init0 = posf.get('init') is not None and ir.const_of(ir.strip_all_casts(posf['init']) if posf['init'].get('k') != 'ilist' else
                                                             (posf['init']['el'][0] if posf['init']['el'] else {'cv': '0'})) == 0
        ctor_ok = None
        narrow = []
        for m in methods:
            if m.get('ctor') and len(m['params']) == 2:
                inits = {i.get('field'): i for i in m.get('inits', [])}
                a = inits.get(roles.limit, {}).get('e')
                b = inits.get(roles.delegate, {}).get('e')

                def refers(e, pid):
                    return e is not None and any(y.get('k') == 'ref' and y.get('id') == pid for y in ir.walk(e))
                pd = [p for p in m['params'] if p['t'].endswith('*')]
                ps = [p for p in m['params'] if not p['t'].endswith('*')]
                ctor_ok = bool(pd and ps and refers(a, ps[0]['id']) and refers(b, pd[0]['id']))
                pinit = inits.get(roles.pos, {}).get('e')
                if pinit is not None and inits.get(roles.pos, {}).get('written'):
                    init0 = ir.const_of(ir.strip_all_casts(pinit)) == 0
                # the frame enforces the DECLARED size: the limit / position fields are at least as wide as the constructor's size
                # parameter and the limit initialiser does not narrow it (a 32-bit budget accepts a declared size of 2^32 + k as k)
                from .. import termx as _tx
                bits = lambda t: _tx.BITS.get((t or '').replace('const ', '').strip())
                if ps and bits(ps[0]['t']):
                    want_bits = bits(ps[0]['t'])
                    for fname in (roles.limit, roles.pos):
                        ft = [f for f in r['fields'] if f['n'] == fname][0].get('t')
                        if bits(ft) and bits(ft) < want_bits:
                            narrow.append('field `%s` is %s, narrower than the size parameter (%s)' % (fname, ft, ps[0]['t']))
                    for y in ir.walk(a) if a is not None else ():
                        if y.get('k') in ('icast', 'cast') and bits(y.get('to')) and bits(y.get('to')) < want_bits and \
                                ir.const_of(ir.strip_all_casts(y)) is None:
                            narrow.append('the limit initialiser converts the size to %s' % y.get('to'))
        if (r['file'], r['loc']['l']) not in done_patterns:
            missing = EXPECTED_PRIMS[kind] - names_by_rect[methods[0]['rect']]
            chk.decide(init0 and ctor_ok is True and not missing and not narrow, R('I'), '%s:%d' % (r['file'], r['loc']['l']),
                       '%s: position `%s` starts at 0: %s; constructor binds limit `%s` and wrapped object `%s`: %s; missing primitives: %s; size kept at full width: %s'
                       % (methods[0]['rect'], roles.pos, init0, roles.limit, roles.delegate, ctor_ok, sorted(missing) or 'none', narrow[0] if narrow else 'yes'),
                       function=rec)
        done_patterns.add((r['file'], r['loc']['l']))
        # the budget arithmetic is unsigned: a conversion of the position / limit (or of limit - pos) to a SIGNED type turns a
        # remaining budget of 2^63 bytes or more into a negative number and refuses requests that fit
        key_u = (r['file'], r['loc']['l'], 'unsigned')
        if key_u not in done_patterns:
            done_patterns.add(key_u)
            bad_casts = []
            for m in methods:
                if 'body' not in m:
                    continue
                for y in ir.walk(m['body']):
                    if y.get('k') in ('icast', 'cast') and y.get('ck') == 'IntegralCast' and (y.get('from') or '').startswith('unsigned') and \
                            not (y.get('to') or '').replace('const ', '').startswith('unsigned') and (y.get('to') or '').replace('const ', '') in ('long', 'long long', 'int', 'std::ptrdiff_t', 'ptrdiff_t'):
                        inner = [z for z in ir.walk(y.get('e')) if z.get('k') == 'mem' and z.get('n') in (roles.pos, roles.limit)]
                        if inner:
                            bad_casts.append((m['n'], y.get('loc', {}).get('l') or m['pat']['l'], y.get('to')))
            chk.decide(not bad_casts, R('G'), '%s:%d unsigned' % (r['file'], r['loc']['l']),
                       '%s: %s' % (methods[0]['rect'], 'position / limit arithmetic is converted to the signed type %s in %s (line %s)' % (
                           bad_casts[0][2], bad_casts[0][0], bad_casts[0][1]) if bad_casts else 'position / limit arithmetic stays unsigned'), function=rec)
        for m in methods:
            if m.get('ctor') or m.get('dtor') or m['n'].startswith('operator') or m['n'] not in DELEGATE_OF:
                continue
            pk = (m['file'], m['pat']['l'], tuple(p['t'] for p in m['params']) if m['n'] in ('Read', 'Write') else ())
            # analyse one instance per pattern and per element type
            if pk in done_patterns:
                continue
            done_patterns.add(pk)
            check_method(chk, db, m, roles, kind, limit_err, R)


def run(chk, db):
    facts.gate(chk, db, ['nop/utility/bounded_reader.h', 'nop/utility/bounded_writer.h', 'nop/utility/stream_reader.h', 'nop/utility/stream_writer.h'])
    rules(chk, db)
    from .. import copyrules
    from .. import rwrules
    chk.rule('C', 'the library writers a BoundedWriter usually wraps move exactly the requested bytes with the requested padding value and advance by as much', minimum=6)
    for rec in ('nop::BufferWriter', 'nop::PedanticBufferWriter', 'nop::ConstexprBufferWriter'):
        rwrules.check_buffer_class(chk, db, rec, {'T': None, 'G': None, 'E': None, 'C': 'C'}, guard_required=False)
    # ... and the stream reader / writer it wraps when tables are persisted through iostreams: the wrapper counts what it asked
    # for, so a wrapped Skip / Read / Write that moves fewer bytes than asked yet reports success breaks the confinement
    chk.rule('ST', 'the stream reader / writer a bounded wrapper usually wraps move exactly the requested bytes or fail', minimum=6)
    chk.rule('SS', 'stream status mapping', minimum=2)
    rwrules.check_stream_class(chk, db, 'nop::StreamReader', 'reader', 'ST', 'SS')
    rwrules.check_stream_class(chk, db, 'nop::StreamWriter', 'writer', 'ST', 'SS')
    chk.rule('RC', 'the buffer readers a BoundedReader usually wraps move / skip exactly the requested bytes or fail', minimum=6)
    chk.rule('RG', 'the checked buffer reader guards every transfer / skip by need <= what remains', minimum=2)
    chk.rule('RE', 'a refused read / skip of the checked buffer reader leaves its position unchanged (the wrapper relies on it after a failure)', minimum=2)
    for rec in ('nop::BufferReader', 'nop::PedanticBufferReader'):
        rwrules.check_buffer_class(chk, db, rec, {'T': None, 'G': 'RG' if rec == 'nop::PedanticBufferReader' else None, 'E': 'RE' if rec == 'nop::PedanticBufferReader' else None, 'C': 'RC'}, guard_required=(rec == 'nop::PedanticBufferReader'))
    from .. import tsrules
    tsrules.noexcept_rule(chk, db, 'NX', ('nop::BoundedReader', 'nop::BoundedWriter'), minimum=2,
                          text='members of the bounded wrappers declared noexcept call nothing that may throw (the wrapped reader / writer is arbitrary user code)')
    copyrules.check(chk, db, 'CP', {'nop::BoundedReader', 'nop::BoundedWriter'}, minimum=4,
                    text='a copied / moved / assigned bounded wrapper keeps the consumed count, the limit and the wrapped object (the budget is not refreshed)')
    chk.explanation = (
        'Symbolic effect summaries (all paths; conditions as normalised integer polynomials over the fields and parameters) of every '
        'member of BoundedReader and BoundedWriter, one instance per pattern and element type; each primitive is an inductive step on '
        'pos <= limit with the guard, refusal, delegation, counting and padding rules. The byte count `need` is derived from the '
        'signature, so a body that miscounts is caught.')
    chk.assumptions = ['pos <= limit holds initially (rule I) and is only changed by the analysed primitives',
                       'pointer difference end - begin is the element count (C++ semantics); sizeof from the LP64 table']
    report.selftest(chk, rules, 'c16.cpp', {'G': 2, 'E': 1, 'D': 1, 'S': 3, 'P': 1})
