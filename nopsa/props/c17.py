"""C17 - all readers and all writers implement one byte-source / byte-sink contract.

Sibling cross-check in its strongest form: instead of comparing the implementations
pairwise, every primitive of every library reader/writer is compared with the one
specification of its role (nopsa/rwrules.py).  Two classes that both meet it agree
with each other on bytes moved, order, position and the call at which they fail.

  T   Ensure/Prepare(n) succeeds exactly when n <= limit - pos      (buffer family)
  G   checked classes guard every transfer by need <= limit - pos    (overflow-safe)
  E   the refusing branch returns the limit error and has no effect
  C   the transfer moves exactly `need` bytes at buffer[pos] and advances pos by need
  ST  stream classes use observable operations only and return the stream state
  SS  the stream-state helper reports success only if neither bad() nor eof()
  FD  fd classes report success only when read/write transferred the byte
  L   ConstexprBufferWriter::WriteElement stores little-endian lanes (= memcpy on LE)
  INV every reader has Ensure/Read/Read/Skip, every writer Prepare/Write/Write/Skip
"""
import re

from .. import facts, ir, report, rw, rwrules, symx
from ..symx import Poly

READERS = ['nop::BufferReader', 'nop::PedanticBufferReader', 'nop::FdReader']
WRITERS = ['nop::BufferWriter', 'nop::PedanticBufferWriter', 'nop::ConstexprBufferWriter', 'nop::FdWriter']
TEMPLATES = {'nop::StreamReader': 'reader', 'nop::StreamWriter': 'writer', 'nop::BoundedReader': 'reader',
             'nop::BoundedWriter': 'writer'}
UNCHECKED_BY_DESIGN = {'nop::BufferWriter': 'documented: BufferWriter only checks in Prepare(); the serializer always calls '
                                            'Prepare(Size(value)) first (C06 decides that part)'}


def lanes(chk, db, rule):
    fns = [f for f in db.fns if f.get('rec') == 'nop::ConstexprBufferWriter' and f['n'] == 'WriteElement' and 'body' in f]
    if not fns:
        chk.unanalysable(rule, 'nop/utility/constexpr_buffer_writer.h', 'no WriteElement instance')
        return
    widths = set()
    methods = [f for f in db.fns if f.get('rec') == 'nop::ConstexprBufferWriter']
    roles = rw.resolve_roles(db, 'nop::ConstexprBufferWriter', methods)
    if roles is None or not roles.buffer:
        chk.unanalysable(rule, 'nop/utility/constexpr_buffer_writer.h', 'cannot resolve the position / buffer fields of ConstexprBufferWriter')
        return
    for fn in fns:
        where = facts.site(fn)
        if len(fn['params']) != 2:
            chk.unanalysable(rule, where, 'WriteElement does not take (value, offset)')
            continue
        off = fn['params'][1]['n']
        t = fn['params'][0]['t']
        size = rw.SIZEOF.get(t)
        label = 'ConstexprBufferWriter::WriteElement(%s)' % t
        try:
            paths = rw.run_paths(db, fn)
        except symx.Unsupported as e:
            chk.unanalysable(rule, where, str(e))
            continue
        ok = len(paths) == 1 and size is not None
        why = []
        if ok:
            p = paths[0]
            stores = [e for e in p.events if e.kind == 'store']
            got = {}
            for s in stores:
                m = re.match(r'^f:%s\[(.*)\]$' % re.escape(roles.buffer), s.target)
                v = repr(s.value)
                mv = re.match(r'^\((p:\w+) >> (\d+)\)$', v)
                if not m or not mv:
                    ok = False
                    why.append('unrecognised store %s := %s' % (s.target, v))
                    continue
                idx = m.group(1)
                # idx is a canonical polynomial "K + f:index_ + p:offset" or "f:index_ + p:offset"
                mk = re.match(r'^(?:(\d+) \+ )?f:%s \+ p:%s$' % (re.escape(roles.pos), re.escape(off)), idx)
                if not mk:
                    ok = False
                    why.append('store index %s is not index_ + offset + k' % idx)
                    continue
                k = int(mk.group(1) or 0)
                got[k] = int(mv.group(2))
            want = {k: 8 * k for k in range(size)}
            if ok and got != want:
                ok = False
                why.append('byte lanes %s, little-endian needs %s' % (got, want))
            if p.events and any(e.kind == 'field' for e in p.events):
                ok = False
                why.append('WriteElement changes the position')
        widths.add(size)
        chk.decide(ok, rule, where, '%s: %s' % (label, '; '.join(why) if why else 'byte k of the value stored at buffer[pos+offset+k], k=0..%d' % (size - 1)),
                   function=label)
    # the bulk Write<T> of every element type must resolve (overload resolution, read off the resolved callee) to the lane
    # overload of exactly sizeof(T) bytes: a missing overload silently promotes the element to a wider lane
    bulk = [f for f in methods if f['n'] == 'Write' and 'body' in f and len(f['params']) == 2]
    seen = set()
    for f in bulk:
        t = f['params'][0]['t'].replace('const ', '').replace('*', '').strip()
        if t in seen:
            continue
        seen.add(t)
        calls = [y for y in ir.walk(f['body']) if y.get('k') == 'call' and (y.get('callee') or {}).get('n') == 'WriteElement']
        where = facts.site(f)
        if len(calls) != 1 or t not in rw.SIZEOF:
            chk.unanalysable(rule, where, 'bulk Write<%s>: expected one WriteElement call, found %d' % (t, len(calls)))
            continue
        callee = db.callee(f, calls[0]) if hasattr(db, 'callee') else None
        if callee is None:
            callee = db.fn_by_id(f, calls[0]['callee']['fid'])
        lane = callee['params'][0]['t'] if callee and callee.get('params') else None
        ok = lane is not None and rw.SIZEOF.get(lane) == rw.SIZEOF[t]
        chk.decide(ok, rule, where, 'bulk Write<%s> stores each element through WriteElement(%s): %s' % (
            t, lane, 'same width' if ok else 'lane of %s bytes for an element of %d' % (rw.SIZEOF.get(lane), rw.SIZEOF[t])),
            function='ConstexprBufferWriter::Write<%s>' % t)
    if not {1, 2, 4, 8} <= widths:
        chk.unanalysable(rule, 'nop/utility/constexpr_buffer_writer.h', 'WriteElement widths analysed: %s, need 1,2,4,8' % sorted(w for w in widths if w))


def fd_ownership(chk, db, rule):
    """FdReader / FdWriter own their descriptor: abstract execution (nopsa/absx.py) of every lifecycle member over
    {empty, owning} x {other empty, other owning} x {self}, recording ::close(fd): an owned descriptor is closed exactly
    once (destructor / Clear / being move-assigned over), never after Release or after having been moved away, and two
    objects never end up owning the same descriptor (a second close would hit whatever the process opened meanwhile)."""
    from .. import absx
    chk.rule(rule, 'fd reader/writer: the owned descriptor is closed exactly once; never after Release / move-away; never shared', minimum=8)
    EMPTY = -1
    for q in ('nop::FdReader', 'nop::FdWriter'):
        fns = [f for f in db.fns if f.get('rec') == q and ('body' in f or f.get('inits'))]
        r = db.records.get(q)
        if not fns or r is None:
            chk.unanalysable(rule, q, 'no instance of %s members' % q)
            continue
        fdf = [x['n'] for x in r['fields'] if x['t'] == 'int']
        if len(fdf) != 1:
            chk.unanalysable(rule, q, 'cannot identify the descriptor field of %s' % q)
            continue
        # close(2) is issued at most once per owned descriptor: never from inside a loop (after an interrupted close the descriptor is
        # already released on Linux, and a retry closes whatever another thread opened under that number meanwhile)
        for f in fns:
            if 'body' not in f:
                continue
            def in_loop_close(node, inside):
                if isinstance(node, list):
                    return any(in_loop_close(x, inside) for x in node)
                if not isinstance(node, dict):
                    return False
                if node.get('k') == 'call' and ir.callee_name(node) == 'close' and not (node.get('callee') or {}).get('rec') and inside:
                    return True
                ins = inside or node.get('k') in ('for', 'while', 'do', 'rfor')
                return any(in_loop_close(v, ins) for kk, v in node.items() if kk not in ('callee', 'loc'))
            if any(ir.callee_name(c) == 'close' for c in ir.calls(f['body'])):
                bad = in_loop_close(f['body'], False)
                chk.decide(not bad, rule, facts.site(f) + ' once', '%s::%s: ::close() is %s' % (q.replace('nop::', ''), f['n'],
                           'called from inside a loop (retried): a second close hits a descriptor number that may already belong to someone else' if bad else 'not retried'),
                           function=ir.fn_label(f))
        fd = fdf[0]
        closed = []

        def close_hook(it, fr, e, obj, args, closed=closed):
            if obj is None and args:
                v = args[0]
                v = it.read(v, fr, e) if isinstance(v, absx.Loc) else v
                closed.append(v)
                return 0
            return NotImplemented
        life = [f for f in fns if f.get('ctor') or f.get('dtor') or f['n'] in ('operator=', 'Clear', 'Release')]
        for f in life:
            if f.get('copyctor') or f.get('copyassign'):
                continue
            where = '%s:%d %s' % (f['file'], f['pat']['l'], fn_sig(f))
            why = []
            n = 0
            takes_other = any(p.get('rec') == q for p in f['params'])
            for a in ([None] if f.get('ctor') else [EMPTY, 7]):
                for b in ([EMPTY, 8] if takes_other else [EMPTY]):
                    for alias in ([False, True] if takes_other and not f.get('ctor') else [False]):
                        w = absx.World(db)
                        w.declare(('A',), q)
                        w.declare(('B',), q)
                        w.cells[('A', fd)] = a if a is not None else EMPTY
                        w.cells[('B', fd)] = b
                        del closed[:]
                        args = []
                        for p_ in f['params']:
                            if p_.get('rec') == q:
                                args.append(absx.Loc(('A',) if alias else ('B',)))
                            elif p_.get('integral'):
                                args.append(9)
                            else:
                                args.append(absx.UNKNOWN)
                        it = absx.Interp(w, hooks={'close': close_hook})
                        try:
                            rv = it.run(f, ('A',), args, None)
                            if not f.get('dtor'):
                                # both objects are destroyed afterwards: the complete history of each descriptor
                                dt = [g for g in fns if g.get('dtor')]
                                if dt:
                                    it.run(dt[0], ('A',), [], None)
                                    if takes_other and not alias:
                                        it.run(dt[0], ('B',), [], None)
                        except absx.Unsupported as e:
                            chk.unanalysable(rule, where, str(e))
                            why = None
                            break
                        n += 1
                        real = [c for c in closed if c != EMPTY]
                        ctx = '%s with this=%s other=%s%s' % (fn_sig(f), a, b, ' (self)' if alias else '')
                        if len(real) != len(set(real)):
                            why.append('%s followed by the destructors closes %s: a descriptor is closed twice' % (ctx, real))
                        owned = {v for v in (a, b if takes_other and not alias else EMPTY, 9 if f.get('ctor') and f['params'] and f['params'][0].get('integral') else EMPTY)
                                 if v not in (EMPTY, None)}
                        if f['n'] == 'Release':
                            owned.discard(a)
                            rvv = it.read(rv, absx.Frame(f, ('A',)), None) if isinstance(rv, absx.Loc) else rv
                            if rvv != a:
                                why.append('%s returns %s' % (ctx, rvv))
                        if set(real) != owned:
                            why.append('%s followed by the destructors closes %s, the descriptors owned were %s' % (ctx, sorted(real, key=str), sorted(owned, key=str)))
                    if why is None:
                        break
                if why is None:
                    break
            if why is None:
                continue
            chk.decide(not why, rule, where, '%s::%s: %s' % (q.replace('nop::', ''), fn_sig(f), '; '.join(sorted(set(why))[:3]) if why else
                                                              '%d ownership histories, every owned descriptor closed exactly once' % n), function=ir.fn_label(f))


def fn_sig(fn):
    return '%s(%s)' % (fn['n'], ', '.join(p['t'].replace('nop::', '')[:40] for p in fn['params']))


def inventory(chk, db, rule):
    need_r = {('Ensure', 1), ('Read', 1), ('Read', 2), ('Skip', 1)}
    need_w = {('Prepare', 1), ('Write', 1), ('Write', 2), ('Skip', 2)}
    classes = {}
    for q, r in db.records.items():
        rect = r.get('rect', q)
        if q in READERS or TEMPLATES.get(rect) == 'reader':
            classes.setdefault(rect if rect in TEMPLATES else q, ('reader', r))
        if q in WRITERS or TEMPLATES.get(rect) == 'writer':
            classes.setdefault(rect if rect in TEMPLATES else q, ('writer', r))
    for name in READERS + WRITERS + list(TEMPLATES):
        if name not in classes:
            chk.unanalysable(rule, name, 'class %s not found in the analysed translation units' % name)
    for name, (kind, r) in sorted(classes.items()):
        have = set()
        for m in r['methods']:
            if m.get('implicit') or m.get('deleted'):
                continue
            # arity from the signature string "Status<void> (unsigned long, unsigned char)"
            sig = m['sig']
            inner = sig[sig.rfind('(') + 1:sig.rfind(')')] if '(' in sig else ''
            arity = 0 if inner.strip() in ('', 'void') else inner.count(',') + 1
            have.add((m['n'], arity))
        missing = sorted((need_r if kind == 'reader' else need_w) - have)
        chk.decide(not missing, rule, '%s:%d' % (r['file'], r['loc']['l']),
                   '%s %s: missing primitives %s' % (kind, name, missing) if missing else '%s %s offers the four primitives' % (kind, name),
                   function=name)


def rules(chk, db):
    chk.rule('T', 'Ensure/Prepare(n) succeeds exactly when n <= limit - pos, overflow-safe', minimum=5)
    chk.rule('G', 'checked buffer classes guard every transfer by need <= limit - pos', minimum=8)
    chk.rule('E', 'refusal returns Read/WriteLimitReached and has no effect', minimum=6)
    chk.rule('C', 'transfer moves exactly need bytes at buffer[pos]; pos += need once', minimum=12)
    chk.rule('ST', 'stream primitives use observable operations and return the stream state after the transfer', minimum=6)
    chk.rule('SS', 'stream-state helper: success only if neither bad() nor eof()', minimum=2)
    chk.rule('FD', 'fd primitives: success only when read/write returned the requested count; 0 => limit error', minimum=4)
    chk.rule('L', 'ConstexprBufferWriter::WriteElement stores little-endian byte lanes', minimum=8)
    chk.rule('INV', 'every reader/writer class offers the four contract primitives', minimum=11)
    ids = {'T': 'T', 'G': 'G', 'E': 'E', 'C': 'C'}
    for rec in rwrules.BUFFER_CLASSES:
        rwrules.check_buffer_class(chk, db, rec, ids, guard_required=rec not in UNCHECKED_BY_DESIGN)
    rwrules.check_stream_class(chk, db, 'nop::StreamReader', 'reader', 'ST', 'SS')
    rwrules.check_stream_class(chk, db, 'nop::StreamWriter', 'writer', 'ST', 'SS')
    rwrules.check_fd_class(chk, db, 'nop::FdReader', 'reader', 'FD')
    rwrules.check_fd_class(chk, db, 'nop::FdWriter', 'writer', 'FD')
    fd_ownership(chk, db, 'OWN')
    from .. import copyrules
    copyrules.check(chk, db, 'CP', {'nop::BufferReader', 'nop::PedanticBufferReader', 'nop::BufferWriter', 'nop::PedanticBufferWriter',
                                    'nop::ConstexprBufferWriter', 'nop::BoundedReader', 'nop::BoundedWriter'}, minimum=14)
    from . import c16
    c16.rules(chk, db, prefix='B.')
    lanes(chk, db, 'L')
    inventory(chk, db, 'INV')


def run(chk, db):
    facts.gate(chk, db, ['nop/utility/buffer_', 'nop/utility/pedantic_', 'nop/utility/constexpr_', 'nop/utility/stream_',
                         'nop/utility/fd_'])
    rules(chk, db)
    from .. import witness
    witness.run(chk, 'c03_bytes.cpp', 'WB', 'compile-time witnesses: bytes produced by constexpr serialisation equal the documented bytes '
                '(which the run-time writers produce by C03)', minimum=25)
    chk.explanation = (
        'Every primitive of the 5 buffer-family classes, 2 stream classes and 2 fd classes is summarised symbolically (all paths) and '
        'compared with the single specification of its role; ConstexprBufferWriter byte lanes are compared with the little-endian '
        'layout memcpy produces on this host; the primitive inventory of all 11 reader/writer classes is checked. The bounded '
        'wrappers are decided by C16 with the same engine.')
    chk.assumptions = ['iostream contract: read/write/put/ignore set eofbit/badbit (or a short gcount) on a short transfer; seekg does not',
                       'read(2)/write(2) return the number of bytes transferred, 0 at end of data', 'little-endian LP64 host']
    report.selftest(chk, rules_fixture, 'c17.cpp', {'G': 1, 'C': 2, 'T': 1, 'ST': 2, 'SS': 1, 'FD': 1})


def rules_fixture(chk, db):
    """the same rule functions on the fixture's deliberately broken classes"""
    for r in ('T', 'G', 'E', 'C', 'ST', 'SS', 'FD'):
        chk.rule(r, r)
    rwrules.BUFFER_CLASSES['nop::fx::BadReader'] = ('reader', 'ReadLimitReached')
    try:
        rwrules.check_buffer_class(chk, db, 'nop::fx::BadReader', {'T': 'T', 'G': 'G', 'E': 'E', 'C': 'C'})
    finally:
        del rwrules.BUFFER_CLASSES['nop::fx::BadReader']
    rwrules.check_stream_class(chk, db, 'nop::fx::BadStreamReader', 'reader', 'ST', 'SS')
    rwrules.check_fd_class(chk, db, 'nop::fx::BadFdReader', 'reader', 'FD')
