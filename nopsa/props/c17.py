"""C17 - all readers and all writers implement one byte-source / byte-sink contract.

Sibling cross-check in its strongest form: instead of comparing the implementations
pairwise, every primitive of every library reader/writer is compared with the one
specification of its role (nopsa/rwrules.py).  Two classes that both meet it agree
with each other on bytes moved, order, position and the call at which they fail.

  T   Ensure/Prepare(n) succeeds exactly when n <= limit - pos      (buffer family)
  G   checked classes guard every transfer by need <= limit - pos    (overflow-safe)
  E   the refusing branch returns the limit error and has no effect
  C   the transfer moves exactly `need` bytes at buffer[pos] and advances pos by need
  ST  stream classes use observable operations only and return the stream state
  SS  the stream-state helper reports success only if neither bad() nor eof()
  FD  fd classes report success only when read/write transferred the byte
  L   ConstexprBufferWriter::WriteElement stores little-endian lanes (= memcpy on LE)
  INV every reader has Ensure/Read/Read/Skip, every writer Prepare/Write/Write/Skip
"""
import re

from .. import facts, ir, report, rw, rwrules, symx
from ..symx import Poly

READERS = ['nop::BufferReader', 'nop::PedanticBufferReader', 'nop::FdReader']
WRITERS = ['nop::BufferWriter', 'nop::PedanticBufferWriter', 'nop::ConstexprBufferWriter', 'nop::FdWriter']
TEMPLATES = {'nop::StreamReader': 'reader', 'nop::StreamWriter': 'writer', 'nop::BoundedReader': 'reader',
             'nop::BoundedWriter': 'writer'}
UNCHECKED_BY_DESIGN = {'nop::BufferWriter': 'documented: BufferWriter only checks in Prepare(); the serializer always calls '
                                            'Prepare(Size(value)) first (C06 decides that part)'}


def lanes(chk, db, rule):
    fns = [f for f in db.fns if f.get('rec') == 'nop::ConstexprBufferWriter' and f['n'] == 'WriteElement' and 'body' in f]
    if not fns:
        chk.unanalysable(rule, 'nop/utility/constexpr_buffer_writer.h', 'no WriteElement instance')
        return
    widths = set()
    methods = [f for f in db.fns if f.get('rec') == 'nop::ConstexprBufferWriter']
    roles = rw.resolve_roles(db, 'nop::ConstexprBufferWriter', methods)
    if roles is None or not roles.buffer:
        chk.unanalysable(rule, 'nop/utility/constexpr_buffer_writer.h', 'cannot resolve the position / buffer fields of ConstexprBufferWriter')
        return
    for fn in fns:
        where = facts.site(fn)
        if len(fn['params']) != 2:
            chk.unanalysable(rule, where, 'WriteElement does not take (value, offset)')
            continue
        off = fn['params'][1]['n']
        t = fn['params'][0]['t']
        size = rw.SIZEOF.get(t)
        label = 'ConstexprBufferWriter::WriteElement(%s)' % t
        try:
            paths = rw.run_paths(db, fn)
        except symx.Unsupported as e:
            chk.unanalysable(rule, where, str(e))
            continue
        ok = len(paths) == 1 and size is not None
        why = []
        if ok:
            p = paths[0]
            stores = [e for e in p.events if e.kind == 'store']
            got = {}
            for s in stores:
                m = re.match(r'^f:%s\[(.*)\]$' % re.escape(roles.buffer), s.target)
                v = repr(s.value)
                mv = re.match(r'^\((p:\w+) >> (\d+)\)$', v)
                if not m or not mv:
                    ok = False
                    why.append('unrecognised store %s := %s' % (s.target, v))
                    continue
                idx = m.group(1)
                # idx is a canonical polynomial "K + f:index_ + p:offset" or "f:index_ + p:offset"
                mk = re.match(r'^(?:(\d+) \+ )?f:%s \+ p:%s$' % (re.escape(roles.pos), re.escape(off)), idx)
                if not mk:
                    ok = False
                    why.append('store index %s is not index_ + offset + k' % idx)
                    continue
                k = int(mk.group(1) or 0)
                got[k] = int(mv.group(2))
            want = {k: 8 * k for k in range(size)}
            if ok and got != want:
                ok = False
                why.append('byte lanes %s, little-endian needs %s' % (got, want))
            if p.events and any(e.kind == 'field' for e in p.events):
                ok = False
                why.append('WriteElement changes the position')
        widths.add(size)
        chk.decide(ok, rule, where, '%s: %s' % (label, '; '.join(why) if why else 'byte k of the value stored at buffer[pos+offset+k], k=0..%d' % (size - 1)),
                   function=label)
    if not {1, 2, 4, 8} <= widths:
        chk.unanalysable(rule, 'nop/utility/constexpr_buffer_writer.h', 'WriteElement widths analysed: %s, need 1,2,4,8' % sorted(w for w in widths if w))


def inventory(chk, db, rule):
    need_r = {('Ensure', 1), ('Read', 1), ('Read', 2), ('Skip', 1)}
    need_w = {('Prepare', 1), ('Write', 1), ('Write', 2), ('Skip', 2)}
    classes = {}
    for q, r in db.records.items():
        rect = r.get('rect', q)
        if q in READERS or TEMPLATES.get(rect) == 'reader':
            classes.setdefault(rect if rect in TEMPLATES else q, ('reader', r))
        if q in WRITERS or TEMPLATES.get(rect) == 'writer':
            classes.setdefault(rect if rect in TEMPLATES else q, ('writer', r))
    for name in READERS + WRITERS + list(TEMPLATES):
        if name not in classes:
            chk.unanalysable(rule, name, 'class %s not found in the analysed translation units' % name)
    for name, (kind, r) in sorted(classes.items()):
        have = set()
        for m in r['methods']:
            if m.get('implicit') or m.get('deleted'):
                continue
            # arity from the signature string "Status<void> (unsigned long, unsigned char)"
            sig = m['sig']
            inner = sig[sig.rfind('(') + 1:sig.rfind(')')] if '(' in sig else ''
            arity = 0 if inner.strip() in ('', 'void') else inner.count(',') + 1
            have.add((m['n'], arity))
        missing = sorted((need_r if kind == 'reader' else need_w) - have)
        chk.decide(not missing, rule, '%s:%d' % (r['file'], r['loc']['l']),
                   '%s %s: missing primitives %s' % (kind, name, missing) if missing else '%s %s offers the four primitives' % (kind, name),
                   function=name)


def rules(chk, db):
    chk.rule('T', 'Ensure/Prepare(n) succeeds exactly when n <= limit - pos, overflow-safe', minimum=5)
    chk.rule('G', 'checked buffer classes guard every transfer by need <= limit - pos', minimum=8)
    chk.rule('E', 'refusal returns Read/WriteLimitReached and has no effect', minimum=6)
    chk.rule('C', 'transfer moves exactly need bytes at buffer[pos]; pos += need once', minimum=12)
    chk.rule('ST', 'stream primitives use observable operations and return the stream state after the transfer', minimum=6)
    chk.rule('SS', 'stream-state helper: success only if neither bad() nor eof()', minimum=2)
    chk.rule('FD', 'fd primitives: success only when read/write returned the requested count; 0 => limit error', minimum=4)
    chk.rule('L', 'ConstexprBufferWriter::WriteElement stores little-endian byte lanes', minimum=8)
    chk.rule('INV', 'every reader/writer class offers the four contract primitives', minimum=11)
    ids = {'T': 'T', 'G': 'G', 'E': 'E', 'C': 'C'}
    for rec in rwrules.BUFFER_CLASSES:
        rwrules.check_buffer_class(chk, db, rec, ids, guard_required=rec not in UNCHECKED_BY_DESIGN)
    rwrules.check_stream_class(chk, db, 'nop::StreamReader', 'reader', 'ST', 'SS')
    rwrules.check_stream_class(chk, db, 'nop::StreamWriter', 'writer', 'ST', 'SS')
    rwrules.check_fd_class(chk, db, 'nop::FdReader', 'reader', 'FD')
    rwrules.check_fd_class(chk, db, 'nop::FdWriter', 'writer', 'FD')
    from . import c16
    c16.rules(chk, db, prefix='B.')
    lanes(chk, db, 'L')
    inventory(chk, db, 'INV')


def run(chk, db):
    facts.gate(chk, db, ['nop/utility/buffer_', 'nop/utility/pedantic_', 'nop/utility/constexpr_', 'nop/utility/stream_',
                         'nop/utility/fd_'])
    rules(chk, db)
    chk.explanation = (
        'Every primitive of the 5 buffer-family classes, 2 stream classes and 2 fd classes is summarised symbolically (all paths) and '
        'compared with the single specification of its role; ConstexprBufferWriter byte lanes are compared with the little-endian '
        'layout memcpy produces on this host; the primitive inventory of all 11 reader/writer classes is checked. The bounded '
        'wrappers are decided by C16 with the same engine.')
    chk.assumptions = ['iostream contract: read/write/put/ignore set eofbit/badbit (or a short gcount) on a short transfer; seekg does not',
                       'read(2)/write(2) return the number of bytes transferred, 0 at end of data', 'little-endian LP64 host']
    report.selftest(chk, rules_fixture, 'c17.cpp', {'G': 1, 'C': 2, 'T': 1, 'ST': 2, 'SS': 1, 'FD': 1})


def rules_fixture(chk, db):
    """the same rule functions on the fixture's deliberately broken classes"""
    for r in ('T', 'G', 'E', 'C', 'ST', 'SS', 'FD'):
        chk.rule(r, r)
    rwrules.BUFFER_CLASSES['nop::fx::BadReader'] = ('reader', 'ReadLimitReached')
    try:
        rwrules.check_buffer_class(chk, db, 'nop::fx::BadReader', {'T': 'T', 'G': 'G', 'E': 'E', 'C': 'C'})
    finally:
        del rwrules.BUFFER_CLASSES['nop::fx::BadReader']
    rwrules.check_stream_class(chk, db, 'nop::fx::BadStreamReader', 'reader', 'ST', 'SS')
    rwrules.check_fd_class(chk, db, 'nop::fx::BadFdReader', 'reader', 'FD')
