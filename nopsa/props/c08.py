"""C08 - table framing is validated: hash, duplicate ids, entry sizes, padding.

  TH  hash compared before any entry is read; mismatch -> InvalidTableHash
  TC+TR  duplicate detection: the target entry must still be empty (-> DuplicateTableEntry), and every entry is cleared
         first so stale entries cannot cause false duplicates
  TR  the value is decoded inside a frame of exactly the declared size (too small -> the frame's ReadLimitReached, C16),
      surplus bytes are consumed by ReadPadding, whose status is returned
  TL/TD  entries are accepted in any order: dispatch depends only on the id just read
  SD  a decoding error inside an entry fails the whole read (status discipline on every table function)
"""
from .. import facts, report, tablerules, sd, ir, rwrules
from . import c10, c16


def rules(chk, db):
    tablerules.rules(chk, db, {'TH', 'TC', 'TR', 'TL', 'TD', 'TS'})
    c10.rules(chk, db, scope=lambda fn: 'body' in fn and fn['file'] in ('nop/base/table.h', 'nop/utility/bounded_reader.h'), prefix='T.')
    for r in ('T.SD1', 'T.SD2', 'T.SD3', 'T.SD4'):
        chk.counts[r] = 10
    c16.rules(chk, db, prefix='BR.', only={'nop::BoundedReader'})
    # "exactly the surplus bytes are skipped": Skip of the underlying stream / fd readers must skip all of them or fail
    chk.rule('ST', 'stream reader primitives move exactly the requested bytes and report the stream state', minimum=3)
    chk.rule('SS', 'stream reader status mapping', minimum=1)
    rwrules.check_stream_class(chk, db, 'nop::StreamReader', 'reader', 'ST', 'SS')
    # a malformed value inside an entry must fail in the value's own decoder: the frame would otherwise swallow the damage as padding
    from .. import encrules
    encrules.read_rules(chk, db, want=('GRD',))
    # ... likewise for scalar values: Match of the integer / float / bool decoders accepts exactly the documented prefix bytes
    from .. import ilrules
    chk.rule('MS', 'Match accepts exactly the documented classes (all 256 prefix bytes)', minimum=9)
    chk.rule('FB', 'float/double/bool match sets and payloads', minimum=3)
    ilrules.match_sets(chk, db, 'MS')
    ilrules.float_bool(chk, db, 'FB')
    # the hash a table is validated against is the documented one: SipHash-2-4 of the name under the published table keys
    # (compile-time witnesses shared with C18: a key swap in the overload NOP_TABLE_NS uses goes unnoticed by the reference vectors)
    from . import c18
    c18.witnesses(chk)
    # the surplus of an entry is skipped through the reader's checked Skip: it must refuse what is not there
    chk.rule('G', 'the checked buffer reader refuses a transfer / skip that exceeds what remains', minimum=2)
    chk.rule('E', 'refusal returns ReadLimitReached and has no effect', minimum=2)
    rwrules.check_buffer_class(chk, db, 'nop::PedanticBufferReader', {'T': None, 'G': 'G', 'E': 'E', 'C': None})
    # the hash that is compared is the full 64-bit value that was decoded (likewise ids and counts)
    chk.rule('NR', 'no narrowing of a decoded hash / id / size / count in the table encoder', minimum=3)
    encrules.narrowing(chk, db, 'NR', {'ReadPayload', 'Read', 'WritePayload', 'Write', 'Size'})


def run(chk, db):
    facts.gate(chk, db, ['nop/base/table.h', 'nop/utility/bounded_reader.h', 'nop/utility/stream_reader.h'])
    rules(chk, db)
    chk.explanation = (
        'Guard-to-error rules and framing rules on the symbolic paths of the table decoder for every probe table; status discipline on the '
        'table and bounded-reader functions so an inner error is never masked by the frame; the frame itself is decided by the C16 rules.'
        " The table decoder is analysed from one root (ReadPayload) with its helpers inlined and per-entry readers recognised by signature; the re-seating assignment of every entry reader is executed abstractly for its value type (duplicate detection depends on the entry becoming non-empty); the stream reader's Skip must skip all surplus bytes or fail.")
