"""C04 - decoder accepts exactly the documented language and reports the right error.

Integer layer (complete):
  MS   Match accepts exactly the documented class labels for the destination width and signedness (all 256 prefix bytes)
  RA   ReadPayload reads, for each accepted class, exactly the documented payload type into the destination type
  FD   every fixint byte decodes to the value it embeds (all 192 bytes, per type)
  FB   float/double/bool match sets
  UE   EncodingIO::Read returns UnexpectedEncodingType exactly when Match fails, and reads the payload otherwise
Container layer: validation guards and error categories of every ReadPayload: see nopsa/encrules.py
"""
from .. import facts, ilrules, ir, report, symx
from .. import encrules, rwrules
from . import c16


def read_dispatch(chk, db, rule):
    seen = set()
    for f in db.fns:
        if f.get('rect') != 'nop::EncodingIO' or f['n'] != 'Read' or 'body' not in f:
            continue
        key = f['recargs'][0] if len(seen) > 40 else f['q']
        if f['recargs'][0] in seen:
            continue
        seen.add(f['recargs'][0])
        where = facts.site(f)
        try:
            paths = symx.paths_of(db, f, lambda c, e: False)
        except symx.Unsupported as e:
            chk.unanalysable(rule, where, str(e))
            continue
        bad = []
        for p in paths:
            names = [e.name for e in p.events if e.kind == 'call']
            match_true = [s for c, s in p.conds if 'Match' in repr(c)]
            if isinstance(p.ret, symx.StatusVal) and p.ret.kind == 'err':
                if p.ret.arg != 'UnexpectedEncodingType' or match_true != [False] or 'ReadPayload' in names:
                    bad.append('error path: %s' % p.describe()[:140])
            elif 'ReadPayload' in names:
                if match_true != [True]:
                    bad.append('payload read without a successful Match: %s' % p.describe()[:140])
            elif names and names[0] == 'Read' and not (p.status_facts().get(0) is False):
                bad.append('path: %s' % p.describe()[:140])
        chk.decide(not bad, rule, where + ' <%s>' % f['recargs'][0][:40], 'EncodingIO<%s>::Read: %s' % (
            f['recargs'][0][:60], '; '.join(bad[:2]) if bad else 'prefix read, Match, then ReadPayload or UnexpectedEncodingType'),
            function=ir.fn_label(f))


def rules(chk, db):
    chk.rule('MS', 'Match accepts exactly the documented classes (all 256 prefix bytes)', minimum=9)
    chk.rule('RA', 'ReadPayload reads the documented payload type per class into the destination type', minimum=9)
    chk.rule('FD', 'every fixint byte decodes to the value it embeds', minimum=9)
    chk.rule('FB', 'float/double/bool match sets and payloads', minimum=3)
    chk.rule('UE', 'EncodingIO::Read: UnexpectedEncodingType exactly when Match fails', minimum=20)
    ilrules.match_sets(chk, db, 'MS')
    ilrules.payload_classes(chk, db, None, 'RA')
    ilrules.fix_decode(chk, db, 'FD')
    ilrules.float_bool(chk, db, 'FB')
    read_dispatch(chk, db, 'UE')
    # ENS: a declared length is demanded from the reader in BYTES before it is honoured (ReadLimitReached category of truncated input)
    encrules.read_rules(chk, db, want=('LEN', 'GRD', 'RST', 'ENS'))
    chk.rule('CO', 'wrapper decoders are composed of exactly the documented component encodings', minimum=30)
    encrules.composition(chk, db, 'CO', ('ReadPayload', 'Match'))
    chk.rule('NR.r', 'no run-time narrowing integral conversion in any ReadPayload (validation sees the full 64-bit length)', minimum=10)
    encrules.narrowing(chk, db, 'NR.r', {'ReadPayload', 'Read'})
    chk.rule('PK', 'Match() of every container kind accepts exactly the documented container prefix (BIN for integral sequences)', minimum=30)
    encrules.prefix_kind(chk, db, 'PK', ('Match',))
    # ReadLimitReached category: an over-long declared length is refused by the reader's Ensure, exactly and overflow-safely
    chk.rule('T', 'Ensure(n) succeeds exactly when n <= limit - pos, overflow-safe', minimum=2)
    for rec in ('nop::BufferReader', 'nop::PedanticBufferReader'):
        rwrules.check_buffer_class(chk, db, rec, {'T': 'T', 'G': None, 'E': None, 'C': None}, guard_required=False)
    chk.rule('G', 'the checked buffer reader refuses a transfer that exceeds what remains (counted in bytes)', minimum=2)
    chk.rule('E', 'refusal returns ReadLimitReached and has no effect', minimum=2)
    rwrules.check_buffer_class(chk, db, 'nop::PedanticBufferReader', {'T': None, 'G': 'G', 'E': 'E', 'C': None})
    c16.rules(chk, db, prefix='BR.', only={'nop::BoundedReader'})
    # ... and the stream reader reports exhaustion instead of delivering bytes that are not in the source
    chk.rule('ST', 'stream reader primitives move exactly the requested bytes and report the stream state', minimum=3)
    chk.rule('SS', 'stream reader status mapping', minimum=1)
    rwrules.check_stream_class(chk, db, 'nop::StreamReader', 'reader', 'ST', 'SS')
    # ... and the fd reader delivers a well-formed encoding that arrives in pieces: a short read(2) is not the end of the data
    chk.rule('FDR', 'fd reader: success only when read() returned the requested bytes; a short read continues, 0 => ReadLimitReached', minimum=2)
    rwrules.check_fd_class(chk, db, 'nop::FdReader', 'reader', 'FDR')
    # a well-formed table from a newer definition (more entries, unknown ids) is accepted: the decoder refuses only a wrong hash
    from .. import tablerules
    # ... and "yields the value those bytes denote": a table's entries are all cleared before the entry loop, on every path
    # (a zero-entry table decoded into a used destination must not keep stale entries)
    tablerules.rules(chk, db, {'TL', 'TC'})


def run(chk, db):
    facts.gate(chk, db, ['nop/base/', 'nop/utility/buffer_reader.h', 'nop/utility/pedantic_buffer_reader.h', 'nop/utility/bounded_reader.h'])
    rules(chk, db)
    chk.explanation = (
        'Integer layer: Match evaluated on all 256 prefix bytes for each of the nine integer encoders and compared with the documented '
        'class labels; class->payload type from the resolved ReadAs<> arguments on every path; fixint decode evaluated for all 192 '
        'embedded bytes. Container layer: symbolic paths of every ReadPayload instance compared with the documented validation guards '
        'and error categories of its type constructor; the guards must dominate every element read.'
        ' Wrapper decoders use the documented components (CO); Match of every container kind accepts exactly its documented prefix on all 256 bytes (PK); Ensure of buffer/bounded readers exact and overflow-safe, stream reader primitives (ReadLimitReached / StreamError category).')
    chk.assumptions = ['check order is not constrained (the property compares categories on single-defect inputs only)']
