"""C07 - tables stay readable across definition versions in both directions.

Reader behaviour depends only on the (id -> entry) map of the reading definition, which the rules cover for every id:
  TW/TE  write side: hash, count of non-empty active entries, entries as id + size + value + padding; empty/deleted entries omitted
  TC     absent entries read as empty: every declared entry cleared first
  TL/TD  every declared id is tried, an id reaches the entry declared with it, unknown ids are skipped
  TS     deleted entries and unknown ids are skipped by exactly their declared size
  TR     the reader ends exactly after each entry: BoundedReader(size) + ReadPadding
  UID    duplicate ids in one table do not compile (compile-fail witness), distinct ids do
"""
import os
import re
import subprocess

from .. import facts, report, tablerules, witness, encrules
from . import c16


def rules(chk, db):
    tablerules.rules(chk, db, {'TW', 'TE', 'TC', 'TH', 'TL', 'TD', 'TR', 'TS'})
    # skipping unknown/deleted entries and landing exactly after the table is the bounded reader's/writer's frame arithmetic
    c16.rules(chk, db, prefix='B.')
    # entry ids and sizes travel as 64-bit quantities through the whole dispatch path; an entry's declared size is Size(value)
    chk.rule('NR', 'no narrowing of a decoded id / size / count in the table encoder', minimum=3)
    encrules.narrowing(chk, db, 'NR', {'ReadPayload', 'Read', 'WritePayload', 'Write', 'Size'})
    encrules.size_rules(chk, db)
    from .. import rwrules, ilrules
    chk.rule('BS', 'BaseEncodingSize = 1 + payload width (the declared size of an integer-valued entry)', minimum=10)
    ilrules.base_size(chk, db, 'BS')
    chk.rule('ST', 'stream transport primitives (tables are commonly persisted through streams): exact transfers, Ensure/Prepare without effect', minimum=6)
    chk.rule('SS', 'stream status mapping', minimum=2)
    rwrules.check_stream_class(chk, db, 'nop::StreamReader', 'reader', 'ST', 'SS')
    rwrules.check_stream_class(chk, db, 'nop::StreamWriter', 'writer', 'ST', 'SS')
    # ... or read back from memory: every entry ends with a zero-or-more byte Skip and tables often end the buffer, so the buffer
    # readers' Ensure must succeed exactly when the request fits (Ensure(0) / Skip(0) at the very end included)
    chk.rule('T', 'Ensure(n) of the buffer readers succeeds exactly when n <= limit - pos, overflow-safe', minimum=2)
    for rec in ('nop::BufferReader', 'nop::PedanticBufferReader'):
        rwrules.check_buffer_class(chk, db, rec, {'T': 'T', 'G': None, 'E': None, 'C': None}, guard_required=False)
    chk.rule('G', 'the checked buffer reader refuses a transfer / skip that exceeds what remains', minimum=2)
    chk.rule('E', 'refusal returns ReadLimitReached and has no effect', minimum=2)
    rwrules.check_buffer_class(chk, db, 'nop::PedanticBufferReader', {'T': None, 'G': 'G', 'E': 'E', 'C': None})


def run(chk, db):
    facts.gate(chk, db, ['nop/base/table.h', 'nop/table.h', 'nop/utility/bounded_reader.h', 'nop/utility/bounded_writer.h'])
    rules(chk, db)
    # a deleted entry carries no state: anything it remembered between two decodes would make skipping depend on history
    from . import c13
    c13.entries(chk, db, 'EN')
    witness.run(chk, 'c07_tables.cpp', 'UID', 'compile-time witnesses: duplicate entry ids rejected, evolved definitions accepted', minimum=4)
    chk.explanation = (
        'All members of Encoding<Table> are summarised symbolically for each probe table definition (added, deleted, reordered and nested '
        'entries, handle entries); the recursive Index<N> helpers are flattened so the rules quantify over every declared entry id. '
        'Per-entry value preservation reduces to C01 for the entry type; fungible entry types to C09.'
        ' Bounded reader/writer frame arithmetic (B.*), 64-bit ids/sizes through the dispatch path (NR) and Size() of entry values (SZ) are included because skipping, landing after the table and the declared entry size depend on them.')
    chk.assumptions = ['ids are never reused across versions (stated in the property)']
