"""Optional comparison operators: evaluated abstractly over every combination of operand emptiness and value order
and compared with the total order  empty < every value, otherwise the values decide."""
import operator

from .. import absx, facts, ir

OPS = {'operator==': operator.eq, 'operator!=': operator.ne, 'operator<': operator.lt, 'operator>': operator.gt,
       'operator<=': operator.le, 'operator>=': operator.ge}


def build(w, root, recq, db, value):
    """an Optional<int> at `root`: empty (value None) or holding `value`"""
    w.declare((root,), recq)
    base = recq
    seen = 0
    while not base.startswith('nop::Optional<') and seen < 4:
        bs = [b for b in db.records.get(base, {}).get('bases', [])]
        if not bs:
            break
        base = bs[0]          # inherited constructors: the Optional base sub-object shares the path
        seen += 1
    ctors = [f for f in db.fns if f.get('rec') == base and f.get('ctor') and ('body' in f or f.get('inits'))]
    if value is None:
        c = [f for f in ctors if f.get('defaultctor') and not f['params']]
        args = []
    else:
        c = [f for f in ctors if len(f['params']) == 1 and f['params'][0].get('integral') and not f['params'][0]['t'].endswith('&&')]
        args = [value]
    if not c:
        raise absx.Unsupported('no suitable constructor of %s' % recq)
    absx.Interp(w).run(c[0], (root,), args, None)


def derives_from_optional_int(db, recq, depth=0):
    r = db.records.get(recq or '')
    if r is None or depth > 4:
        return False
    return any(b.startswith('nop::Optional<int>') or derives_from_optional_int(db, b, depth + 1) for b in r.get('bases', []))


def rules(chk, db, rule):
    chk.rule(rule, 'each of the 18 Optional comparison operators equals the total order empty < value, values decide', minimum=18)
    fns = [f for f in db.fns if f['file'] == 'nop/types/optional.h' and f['n'] in OPS and len(f['params']) == 2 and 'body' in f
           and not f.get('rec')]
    # instances over int operands only (scalars are concrete in the abstract heap)
    chosen = {}
    for f in fns:
        kinds = []
        ok = True
        for p in f['params']:
            if p.get('rec', '').startswith('nop::Optional<int>') or derives_from_optional_int(db, p.get('rec')):
                kinds.append('opt')
            elif p.get('integral') and not p.get('rec'):
                kinds.append('val')
            else:
                ok = False
        if ok and 'opt' in kinds:
            chosen.setdefault((f['n'], tuple(kinds), f['pat']['l'], tuple(p.get('rec', 'T')[:24] for p in f['params'])), f)
    for (name, kinds, line, recs), f in sorted(chosen.items(), key=lambda kv: (kv[0][2], kv[0][3])):
        where = '%s:%d %s(%s)' % (f['file'], line, name, ', '.join(r.replace('nop::', '') if k == 'opt' else 'T' for k, r in zip(kinds, recs)))
        bad = []
        n = 0
        dom = {'opt': [None, 1, 2, 3], 'val': [1, 2, 3]}
        try:
            for a in dom[kinds[0]]:
                for b in dom[kinds[1]]:
                    w = absx.World(db)
                    args = []
                    for root, kind, v, p in (('A', kinds[0], a, f['params'][0]), ('B', kinds[1], b, f['params'][1])):
                        if kind == 'opt':
                            build(w, root, p['rec'], db, v)
                            args.append(absx.Loc((root,)))
                        else:
                            args.append(v)
                    it = absx.Interp(w)
                    rv = it.run(f, None, args, None)
                    rv = it.read(rv, absx.Frame(f), None) if isinstance(rv, absx.Loc) else rv
                    ka = (0,) if a is None else (1, a)
                    kb = (0,) if b is None else (1, b)
                    want = int(OPS[name](ka, kb))
                    n += 1
                    if rv is absx.UNKNOWN or int(bool(rv)) != want:
                        bad.append('%s %s %s gives %s, the order requires %s' % ('empty' if a is None else a, name[8:], 'empty' if b is None else b, rv, bool(want)))
                    if w.problems:
                        bad.append('reads an empty operand: %s' % w.problems[0][0])
        except absx.Unsupported as e:
            chk.unanalysable(rule, where, str(e))
            continue
        chk.decide(not bad, rule, where, '%s: %d operand combinations%s' % (name, n, (': ' + '; '.join(bad[:3])) if bad else ' agree with the total order'),
                   function=ir.fn_label(f))
