"""C13 - Optional, Entry and Result keep a consistent state and element lifetime.

  L/I/O/K/D/P   typestate rules of nopsa/tsrules.py on Result<E,T>, Optional<T> and Entry<T,Id> instances with a
                non-trivially-destructible T, over ALL reachable abstract states and all argument choices
  CMP           the 18 Optional comparison operators equal the total order "empty < every value, else the values decide"
                on every combination of operand emptiness and value ordering (finite abstract domain, exhaustive)
  MSG           Status<T>::GetErrorMessage has a distinct non-default message for every ErrorStatus enumerator
"""
from .. import absx, facts, ir, report, tsrules, il


class ResultAdapter(tsrules.Adapter):
    observers = ('has_value', 'has_error', 'error')
    alias_own_element = True

    def element_types(self):
        return getattr(self, 'elem_types', ())
    derived = {'operator bool': lambda obs: obs[0]}

    def __init__(self, enum=None):
        """enum: the error enum's facts; None (the enumerator) need not be the zero value"""
        vals = {x['n']: int(x['v']) for x in (enum or {}).get('enumerators', [])}
        self.none = vals.get('None', 0)
        self.codes = sorted(set(vals.values())) or [0, 1, 2]
        self.empty_obs = (0, 0, self.none)

    def arg_domain(self, p, fn):
        if p.get('enum'):
            return [('val', v) for v in self.codes]
        return None

    def expected_live(self, obs, alts):
        return [alts[0]] if (obs[0] and alts) else []      # scalar T: no lifetime cells

    def post(self, fn, choice, before, after, obs_b, rv):
        out = []
        hv, he, err = after
        if he and err == self.none:
            out.append('reports an error but error() is None')
        if not he and err != self.none:
            out.append('error() is %s without has_error()' % err)
        if hv and he:
            out.append('reports both a value and an error')
        n = fn['n']
        ps = fn['params']
        if n == 'clear' and after != self.empty_obs:
            out.append('clear() leaves %s' % (after,))
        single = choice[0] if len(choice) == 1 else None
        if single is not None and (fn.get('ctor') or n == 'operator='):
            if single[0] == 'elem' and after != (1, 0, self.none):
                out.append('assigning/constructing from a value yields %s' % (after,))
            if single[0] == 'val' and not ps[0].get('enum'):
                if after != (1, 0, self.none):
                    out.append('assigning/constructing from a value yields %s' % (after,))
            elif single[0] == 'val':
                want = self.empty_obs if single[1] == self.none else (0, 1, single[1])
                if after != want:
                    out.append('assigning/constructing from error code %s yields %s, expected %s' % (single[1], after, want))
        if fn.get('defaultctor') and after != self.empty_obs:
            out.append('default construction yields %s' % (after,))
        return out


class ResultVoidAdapter(ResultAdapter):
    """Result<E, void>: a separate specialisation that holds only the error code"""
    observers = ('has_error', 'error')
    derived = {'operator bool': lambda obs: not obs[0]}

    def __init__(self, enum=None):
        ResultAdapter.__init__(self, enum)
        self.empty_obs = (0, self.none)

    def expected_live(self, obs, alts):
        return []

    def post(self, fn, choice, before, after, obs_b, rv):
        out = []
        he, err = after
        if bool(he) != (err != self.none):
            out.append('has_error() is %s but error() is %s' % (he, err))
        single = choice[0] if len(choice) == 1 else None
        if single is not None and single[0] == 'val' and (fn.get('ctor') or fn['n'] == 'operator='):
            want = (int(single[1] != self.none), single[1])
            if after != want:
                out.append('assigning/constructing from error code %s yields %s, expected %s' % (single[1], after, want))
        if fn['n'] == 'clear' and after != self.empty_obs:
            out.append('clear() leaves %s' % (after,))
        if fn.get('defaultctor') and after != self.empty_obs:
            out.append('default construction yields %s' % (after,))
        return out


class OptionalAdapter(tsrules.Adapter):
    observers = ('empty',)
    alias_own_element = True

    def element_types(self):
        return getattr(self, 'elem_types', ())
    empty_obs = (1,)
    derived = {'operator bool': lambda obs: not obs[0]}

    def expected_live(self, obs, alts):
        # a trivially destructible element has no lifetime cells: the specialised State/Storage twins copy raw storage
        return [] if (obs[0] or not alts) else [alts[0]]

    def post(self, fn, choice, before, after, obs_b, rv):
        out = []
        n = fn['n']
        if n == 'clear' and after != self.empty_obs:
            out.append('clear() leaves a value')
        if fn.get('defaultctor') and after != self.empty_obs:
            out.append('default construction is not empty')
        single = choice[-1] if choice else None
        if single is not None and single[0] == 'elem' and (fn.get('ctor') or n == 'operator=') and after != (0,):
            out.append('assigning/constructing from a value leaves the Optional empty')
        return out


def encrules_split(q):
    from .. import encrules
    return encrules.split_args(q[q.index('<') + 1:-1])


def pick_class(db, rect, pred):
    qs = sorted({f['rec'] for f in db.fns if f.get('rect') == rect and pred(f['rec'])})
    return qs


def typestate(chk, db, prefix=''):
    chk.rule(prefix + 'L', 'lifetime legality: construct only dead storage; destroy/assign/read only live storage', minimum=20)
    chk.rule(prefix + 'I', 'accessor-visible state names exactly the live storage after every operation', minimum=20)
    chk.rule(prefix + 'O', 'outside constructors an element is constructed only while the object reports empty', minimum=4)
    chk.rule(prefix + 'K', 'copy keeps the source and equalises the destination; move empties the source; const members change nothing', minimum=10)
    chk.rule(prefix + 'D', 'destructor leaves no live storage', minimum=2)
    chk.rule(prefix + 'P', 'per-operation postconditions (clear, value/error assignment, default construction)', minimum=20)
    targets = []
    nontrivial = lambda q: 'std::basic_string<char' in q or 'NonTrivial' in q
    for q in pick_class(db, 'nop::Result', lambda q: nontrivial(q) and 'void>' not in q and (q.startswith('nop::Result<Err,') or q.startswith('nop::Result<Err2,'))):
        en = q[len('nop::Result<'):].split(',')[0]
        targets.append((q, ResultAdapter(db.enums.get(en)), 'Result<%s,' % en + ('std::string' if 'basic_string' in q else 'T') + '>'))
    STR = 'std::basic_string<char, std::char_traits<char>, std::allocator<char>>'
    for q in pick_class(db, 'nop::Optional', lambda q: q in ('nop::Optional<%s>' % STR, 'nop::Optional<probe::NonTrivial>'))[:2]:
        targets.append((q, OptionalAdapter(), 'Optional<' + ('std::string' if 'basic_string' in q else 'NonTrivial') + '>'))
    # the trivially-destructible State/Storage specialisations of Optional, Result over a scalar, and Result<E, void>
    for q in pick_class(db, 'nop::Optional', lambda q: q == 'nop::Optional<int>'):
        targets.append((q, OptionalAdapter(), 'Optional<int>'))
    for q in pick_class(db, 'nop::Result', lambda q: q == 'nop::Result<Err, int>'):
        targets.append((q, ResultAdapter(db.enums.get('Err')), 'Result<Err,int>'))
    for q in pick_class(db, 'nop::Result', lambda q: q in ('nop::Result<Err, void>', 'nop::Result<Err2, void>')):
        en = q[len('nop::Result<'):].split(',')[0]
        targets.append((q, ResultVoidAdapter(db.enums.get(en)), 'Result<%s,void>' % en))
    if len(targets) < 8:
        chk.unanalysable(prefix + 'L', 'nop/types', 'Result/Optional instances over a non-trivial element type not found in the probes')
    for q, ad, label in targets:
        # the element type of the instantiation (last template argument), for the self-aliasing argument choice
        try:
            ad.elem_types = (encrules_split(q)[-1],)
        except Exception:
            ad.elem_types = ()
        try:
            ex = tsrules.Explorer(db, q, ad, label).run()
        except absx.Unsupported as e:
            chk.unanalysable(prefix + 'L', label, str(e))
            continue
        tsrules.report(chk, ex, prefix)
        chk.extra.setdefault('typestate', {})[label] = {'reachable_states': len(ex.states), 'transitions': ex.transitions}


def messages(chk, db, rule):
    chk.rule(rule, 'GetErrorMessage: a distinct, non-default message for every ErrorStatus enumerator', minimum=15)
    fns = [f for f in db.fns if f.get('rect') == 'nop::Status' and f['n'] == 'GetErrorMessage' and 'body' in f]
    enum = None
    for q, e in db.enums.items():
        if q.endswith('nop::ErrorStatus') or q == 'nop::ErrorStatus':
            enum = e
    if not fns or enum is None:
        chk.unanalysable(rule, 'nop/status.h', 'GetErrorMessage / ErrorStatus not found')
        return
    fn = fns[0]
    sw = [y for y in ir.walk(fn['body']) if y.get('k') == 'switch']
    if len(sw) != 1:
        chk.unanalysable(rule, facts.site(fn), 'GetErrorMessage is not a single switch')
        return
    # the code that is described is the one the accessor reports: error() consults the state, the raw member shares its bytes
    # with a held value
    subj = ir.strip_all_casts(sw[0].get('cond') or sw[0].get('e') or {})
    if subj.get('k') == 'ref':
        for y in ir.walk(fn['body']):
            if y.get('k') == 'decl':
                for v in y['vars']:
                    if v.get('id') == subj.get('id') and v.get('init') is not None:
                        subj = ir.strip_all_casts(v['init'])
    if subj.get('k') == 'call' and ir.callee_name(subj) == 'error':
        chk.ok(rule, facts.site(fn) + ' subject', 'GetErrorMessage describes the code reported by error()')
    elif subj.get('k') == 'mem':
        chk.bad(rule, facts.site(fn) + ' subject', 'GetErrorMessage switches on the raw member `%s` instead of error(): while a value is held that member '
                'shares its bytes with the value' % subj.get('n'), function=ir.fn_label(fn))
    else:
        chk.unanalysable(rule, facts.site(fn), 'cannot tell what GetErrorMessage switches on (%s)' % ir.show(subj)[:60])
    cases = {}
    default = None
    cur = []
    for st in ir.stmt_list(sw[0]['body']):
        node = st
        labels = []
        while node['k'] in ('case', 'default'):
            labels.append(ir.const_of(node['v']) if node['k'] == 'case' else 'default')
            node = node['sub']
        cur += labels
        if node['k'] == 'ret':
            s = [y for y in ir.walk(node) if y.get('k') == 'str']
            msg = s[0].get('v') if s else None
            for l in cur:
                if l == 'default':
                    default = msg
                else:
                    cases[l] = msg
            cur = []
    seen = {}
    for x in enum['enumerators']:
        v = int(x['v'])
        msg = cases.get(v)
        ok = msg is not None and msg != default and msg != '' and (msg not in seen or seen[msg] == v)
        seen.setdefault(msg, v)
        chk.decide(ok, rule, facts.site(fn) + ' ' + x['n'], 'ErrorStatus::%s -> %r%s' % (x['n'], msg, '' if ok else
                   ' (missing, empty, shared with another enumerator or equal to the default message)'), function=x['n'])


def entries(chk, db, rule):
    chk.rule(rule, 'an active table Entry is exactly an Optional (no state or behaviour of its own); a deleted Entry is always empty', minimum=2)
    seen = set()
    for q, r in sorted(db.records.items()):
        if r.get('rect') != 'nop::Entry':
            continue
        active = 'nop::ActiveEntry' in q
        key = (active,)
        own = [f for f in db.fns if f.get('rec') == q and 'body' in f and not f.get('ctor') and not f.get('dtor')]
        where = '%s:%d <%s>' % (r['file'], r['loc']['l'], q.replace('nop::', '')[:60])
        if active:
            ok = not r['fields'] and len(r['bases']) == 1 and r['bases'][0].startswith('nop::Optional<') and \
                not [f for f in own if not f.get('defaulted')]
            if key not in seen or not ok:
                chk.decide(ok, rule, where, 'active Entry derives from Optional<T> only, adds no data members and no member functions: %s' % ok, function=q)
        else:
            bad = []
            if r['fields'] or r['bases']:
                bad.append('has data members or bases')
            for f in own:
                rets = [y for y in ir.walk(f['body']) if y.get('k') == 'ret']
                if f['n'] == 'empty' and not (len(rets) == 1 and ir.const_of(ir.strip_all_casts(rets[0]['e'])) == 1):
                    bad.append('empty() does not return true')
                if f['n'] == 'clear' and list(ir.calls(f['body'])):
                    bad.append('clear() has effects')
                if f['n'] == 'operator bool':
                    e = ir.strip_all_casts(rets[0]['e']) if len(rets) == 1 else {}
                    neg_empty = e.get('k') == 'un' and e['op'] == '!' and ir.callee_name(ir.strip_all_casts(e['e'])) == 'empty'
                    if not (neg_empty or ir.const_of(e) == 0):
                        bad.append('operator bool is neither !empty() nor false')
            if not {'empty', 'clear'} <= {f['n'] for f in own} and key in seen:
                continue
            if key not in seen or bad:
                chk.decide(not bad, rule, where, 'deleted Entry: %s' % ('; '.join(bad) if bad else 'stateless, empty() is true, clear() does nothing'), function=q)
        seen.add(key)


def run(chk, db):
    facts.gate(chk, db, ['nop/types/optional.h', 'nop/types/result.h', 'nop/status.h'])
    typestate(chk, db)
    entries(chk, db, 'EN')
    from . import c13cmp
    c13cmp.rules(chk, db, 'CMP')
    messages(chk, db, 'MSG')
    tsrules.noexcept_rule(chk, db, 'NX', ('nop::Optional', 'nop::Result', 'nop::Entry'), minimum=4,
                          text='members of Optional / Result / Entry declared noexcept call nothing that may throw (probe element types have throwing copy and move operations)')
    tsrules.copy_not_hijacked(chk, db, 'CH', ('nop::Optional', 'nop::Result', 'nop::Variant', 'nop::Entry'), minimum=10,
                              text='constructing an Optional / Entry / Result / Variant from an object of its own class (non-const lvalues included) resolves to the copy / move constructor, never to a converting or forwarding template')
    from .. import witness
    witness.run(chk, 'c13_moves.cpp', 'MVW', 'compile-time witnesses: move construction / move assignment / converting move assignment of Optional, Entry, '
                'whole tables, Result and Variant compile for a move-only element type (so overload resolution selects the rvalue overloads)', minimum=5)
    chk.explanation = (
        'Exhaustive exploration of the abstract state space of Result<E,T> and Optional<T> (T non-trivially destructible) derived from the '
        'code by abstract execution: every constructor and public operation from every reachable state with every abstract argument '
        '(value, error code, second object in every reachable state, self). Comparison operators evaluated over all operand states. '
        'Error-message switch checked against the enumerator list.')
    chk.assumptions = ['element constructors/assignments are modelled as atomic events; T\'s own ==/< are a total order (for CMP)',
                       'the trivially-destructible State/Storage twins copy raw storage and are covered only by L/K on their own instances']
