"""C06 - GetSize never under-estimates; buffer writes never exceed capacity.

  PF   SerializerCommon::Write calls Prepare(Encoding<T>::Size(value)) and tests it before the first byte is written
  SZ   every Size() mirrors its WritePayload: prefix + Size(length) + payload with the writer's own length
       expression and element list; element sizes are accumulated in size_t; Handle over-estimates with I64
  BS   BaseEncodingSize = 1 + payload width per class; integer Size = BaseEncodingSize(Prefix)
  NR   no narrowing conversion in any Size()/WritePayload
  T/G/E/C  checked writers (Pedantic, Constexpr, Bounded via C16 rules) guard before storing, overflow-safe; Prepare
       succeeds exactly when n <= remaining
  TE   table entries: declared size, bounded-writer limit and Size(value) are the same quantity; padding follows
"""
from .. import facts, ilrules, ir, report, rwrules, symx, encrules, tablerules
from . import c16


def prepare_first(chk, db, rule):
    fns = [f for f in db.fns if f.get('rec') == 'nop::SerializerCommon' and f['n'] == 'Write' and 'body' in f]
    if not fns:
        chk.unanalysable(rule, 'nop/base/serializer.h', 'SerializerCommon::Write not instantiated')
        return
    seen = set()
    for f in fns:
        if (f['file'], f['pat']['l']) in seen:
            continue
        seen.add((f['file'], f['pat']['l']))
        where = facts.site(f)
        # helpers of SerializerCommon itself (e.g. an extracted GetSize) are part of the function
        paths = symx.paths_of(db, f, lambda c, e: c.get('rec') == 'nop::SerializerCommon')
        why = []
        for p in paths:
            ev = [e for e in p.events if e.kind == 'call']
            names = [e.name for e in ev]
            if 'Write' in names:
                wi = names.index('Write')
                if 'Prepare' not in names[:wi]:
                    why.append('bytes are written on a path without a preceding Prepare')
                    continue
                pi = names.index('Prepare')
                if p.status_facts().get(p.events.index(ev[pi])) is not True:
                    why.append('Write reached although Prepare was not known to succeed')
                si = [i for i, n in enumerate(names[:pi]) if n == 'Size']
                if not si or repr(ev[pi].args[0]) != 'Size(p:value)#%d' % p.events.index(ev[si[0]]):
                    why.append('Prepare argument %r is not Encoding<T>::Size(value)' % (ev[pi].args[0],))
        chk.decide(not why, rule, where, 'SerializerCommon::Write: %s' % ('; '.join(sorted(set(why))) if why else
                   'Prepare(Encoding<T>::Size(value)) succeeds before Encoding<T>::Write'), function=ir.fn_label(f))
    # every Serializer<...>::Write / GetSize forwards to these
    for f in db.fns:
        if f.get('rect') == 'nop::Serializer' and f['n'] in ('Write', 'GetSize') and 'body' in f:
            key = (f['file'], f['pat']['l'])
            if key in seen:
                continue
            seen.add(key)
            def reaches(g, call, depth=0):
                cal = db.callee(g, call)
                if cal is None:
                    return False
                if f['n'] == 'Write' and cal.get('rec') == 'nop::SerializerCommon' and cal['n'] == 'Write':
                    return True
                if f['n'] == 'GetSize' and cal.get('rect') == 'nop::Encoding' and cal['n'] == 'Size':
                    return True
                if 'body' in cal and depth < 3 and cal.get('rec') == 'nop::SerializerCommon':
                    inner = [c for c in ir.calls(cal['body']) if (c.get('callee') or {}).get('nop')]
                    return len(inner) == 1 and reaches(cal, inner[0], depth + 1)
                return False
            cs = [c for c in ir.calls(f['body']) if (c.get('callee') or {}).get('nop')]
            ok = len(cs) == 1 and reaches(f, cs[0])
            chk.decide(ok, rule, facts.site(f), 'Serializer::%s forwards to %s' % (f['n'], 'SerializerCommon::Write' if f['n'] == 'Write' else 'Encoding<T>::Size'),
                       function=ir.fn_label(f))


def rules(chk, db):
    chk.rule('PF', 'Prepare(Size(value)) succeeds before the first byte is written', minimum=4)
    chk.rule('BS', 'BaseEncodingSize = 1 + payload width; integer Size = BaseEncodingSize(Prefix)', minimum=10)
    chk.rule('NR', 'no run-time narrowing integral conversion in Size()/WritePayload', minimum=10)
    chk.rule('T', 'Prepare(n) succeeds exactly when n <= limit - pos, overflow-safe', minimum=3)
    chk.rule('G', 'checked writers guard every store by need <= limit - pos', minimum=4)
    chk.rule('E', 'refusal returns WriteLimitReached and has no effect', minimum=4)
    chk.rule('C', 'writers move exactly need bytes at buffer[pos]; pos += need', minimum=6)
    prepare_first(chk, db, 'PF')
    ilrules.base_size(chk, db, 'BS')
    encrules.size_rules(chk, db)
    chk.rule('CO', 'wrapper Size() sums the sizes of exactly the component encodings the writer emits', minimum=15)
    encrules.composition(chk, db, 'CO', ('Size',))
    encrules.narrowing(chk, db, 'NR', {'Size', 'WritePayload', 'Write'})
    ids = {'T': 'T', 'G': 'G', 'E': 'E', 'C': 'C'}
    for rec in ('nop::BufferWriter', 'nop::PedanticBufferWriter', 'nop::ConstexprBufferWriter'):
        rwrules.check_buffer_class(chk, db, rec, ids, guard_required=rec != 'nop::BufferWriter')
    c16.rules(chk, db, prefix='BW.', only={'nop::BoundedWriter'})
    tablerules.entry_size(chk, db, 'TE')
    tablerules.rules(chk, db, {'TW'})       # Size(table) against the hash / count / entries its writer emits
    # the constexpr writer's capacity check admits length * sizeof(T) bytes: each element must then go through the lane of sizeof(T)
    from . import c17
    chk.rule('L', 'ConstexprBufferWriter stores each element of a bulk Write through the byte lane of exactly sizeof(element) bytes', minimum=8)
    c17.lanes(chk, db, 'L')


def run(chk, db):
    facts.gate(chk, db, ['nop/base/', 'nop/utility/buffer_writer.h', 'nop/utility/pedantic_buffer_writer.h',
                         'nop/utility/constexpr_buffer_writer.h', 'nop/utility/bounded_writer.h'])
    rules(chk, db)
    chk.explanation = (
        'Size() of every encoder kind is compared term by term with the symbolic summary of its own WritePayload (length expression, '
        'element/member list, raw byte count); accumulators must be size_t; the serializer must Prepare(Size) first; checked writers '
        'and the bounded writer are decided by the reader/writer role specification; table entries by the framing rules.')
    chk.assumptions = ['BufferWriter is unchecked by documented design: its safety is exactly PF + SZ']
