"""Helpers over the nopx expression / statement IR."""

TRANSPARENT_ICASTS = ('NoOp', 'UncheckedDerivedToBase', 'DerivedToBase', 'ConstructorConversion')


def is_status_type(t):
    if not t:
        return False
    t = t.replace('const ', '').strip()
    return t.startswith('nop::Status<') or t.startswith('nop::Result<')


def is_byvalue_status(t):
    return is_status_type(t) and not t.rstrip().endswith('&')


def strip(x, casts=TRANSPARENT_ICASTS):
    """peel wrappers that only copy/convert the same value"""
    while isinstance(x, dict):
        k = x['k']
        if k == 'ctor' and len(x['args']) == 1 and x.get('copymove'):
            x = x['args'][0]
        elif k == 'icast' and x['ck'] in casts:
            x = x['e']
        elif k == 'call' and x.get('callee') and x['callee']['n'] in ('forward', 'move') and \
                x['callee']['q'].startswith('std::') and len(x['args']) == 1:
            x = x['args'][0]
        else:
            break
    return x


def strip_all_casts(x):
    while isinstance(x, dict):
        y = strip(x)
        if y['k'] in ('icast', 'cast'):
            y = y['e']
        if y is x:
            break
        x = y
    return x


def strip_init(x):
    """value of a brace initialiser with one element, with casts removed"""
    while isinstance(x, dict):
        y = strip_all_casts(x)
        if y.get('k') == 'ilist' and len(y['el']) == 1:
            y = y['el'][0]
        if y is x:
            break
        x = y
    return x


def walk(x):
    """pre-order generator over all expression/statement dicts below x"""
    stack = [x]
    while stack:
        y = stack.pop()
        if isinstance(y, dict):
            if 'k' in y:
                yield y
            for k, v in y.items():
                if k.startswith('_'):
                    continue
                if isinstance(v, (dict, list)):
                    stack.append(v)
        elif isinstance(y, list):
            stack.extend(reversed(y))


def calls(x):
    return [y for y in walk(x) if y.get('k') == 'call']


def callee_name(c):
    cal = c.get('callee')
    return cal['n'] if cal else None


def show(x, depth=0):
    """compact human-readable rendering for reports"""
    if x is None:
        return '∅'
    if depth > 12:
        return '…'
    k = x.get('k')
    d = depth + 1
    if k == 'ref':
        return x['n']
    if k == 'mem':
        b = show(x['b'], d)
        if b == 'this':
            return x['n']
        return '%s%s%s' % (b, '->' if x['arrow'] else '.', x['n'])
    if k == 'this':
        return 'this'
    if k == 'call':
        c = x.get('callee')
        name = c['n'] if c else show(x.get('fn'), d)
        if c and c.get('rec') and c.get('static'):
            name = c['rec'].replace('nop::', '') + '::' + name
        obj = ''
        if 'obj' in x:
            o = show(x['obj'], d)
            obj = '' if o == 'this' else o + ('->' if x.get('arrow') else '.')
        if x.get('ck') == 'op' and c:
            a = [show(y, d) for y in x['args']]
            op = c['n'].replace('operator', '')
            if len(a) == 2 and op not in ('()', '[]'):
                return '(%s %s %s)' % (a[0], op, a[1])
            if op == '[]' and len(a) == 2:
                return '%s[%s]' % (a[0], a[1])
            if len(a) == 1:
                return '%s%s' % (op, a[0])
        return '%s%s(%s)' % (obj, name, ', '.join(show(a, d) for a in x['args']))
    if k == 'ctor':
        t = x['t'].replace('nop::', '')
        if len(t) > 40:
            t = t[:37] + '...'
        return '%s{%s}' % (t, ', '.join(show(a, d) for a in x['args']))
    if k in ('icast', 'cast'):
        if x['ck'] in ('IntegralCast', 'IntegralToBoolean', 'BitCast', 'ArrayToPointerDecay', 'UserDefinedConversion') or k == 'cast':
            if k == 'cast' or x['ck'] == 'IntegralCast':
                return '(%s)%s' % (x['to'].replace('nop::', ''), show(x['e'], d))
        return show(x['e'], d)
    if k == 'un':
        return ('%s%s' % (show(x['e'], d), x['op'])) if x.get('post') else ('%s%s' % (x['op'], show(x['e'], d)))
    if k == 'bin':
        return '(%s %s %s)' % (show(x['l'], d), x['op'], show(x['r'], d))
    if k in ('int', 'bool'):
        return x['cv']
    if k == 'sizeof':
        return 'sizeof(%s)' % x['of']
    if k == 'idx':
        return '%s[%s]' % (show(x['b'], d), show(x['i'], d))
    if k == 'cond':
        return '(%s ? %s : %s)' % (show(x['c'], d), show(x['a'], d), show(x['b'], d))
    if k == 'new':
        return 'new(%s) %s' % (', '.join(show(a, d) for a in x['place']), x['t'])
    if k == 'pdtor':
        return '%s.~%s()' % (show(x['b'], d), x['t'])
    if k == 'ilist':
        return '{' + ', '.join(show(a, d) for a in x['el']) + '}'
    if k == 'lambda':
        return 'lambda@%s' % x['loc']['l']
    if k == 'zero':
        return x['t'] + '{}'
    if k == 'str':
        return repr(x.get('v', ''))
    return '<%s>' % k


def const_of(x):
    """integer constant value of an expression as folded by clang, or None"""
    if isinstance(x, dict) and 'cv' in x:
        try:
            return int(x['cv'])
        except ValueError:
            return None
    return None


def enum_refs(x, owner=None):
    out = []
    for y in walk(x):
        if y.get('k') == 'ref' and y.get('dk') == 'enum':
            if owner is None or owner in y.get('q', ''):
                out.append(y['n'])
    return out


def stmt_list(s):
    if s is None:
        return []
    if s['k'] == 'block':
        return s['body']
    return [s]


def fn_label(fn):
    q = fn['q']
    return q if len(q) < 140 else q[:137] + '...'


# ---------------------------------------------------------------------------
# structured control flow: guards that dominate a statement


def terminates(s):
    """True if control never falls out of the end of statement s"""
    if s is None:
        return False
    k = s['k']
    if k == 'ret':
        return True
    if k == 'expr' and s['e'].get('k') == 'throw':
        return True
    if k == 'block':
        return any(terminates(c) for c in s['body'])
    if k == 'if':
        return s.get('else') is not None and terminates(s['then']) and terminates(s['else'])
    if k in ('while', 'for') and (s.get('cond') is None or const_of(s['cond']) == 1):
        # while(true) without break: leaves only by return
        return not any(y.get('k') == 'break' for y in walk(s['body']))
    return False


def leaves_block(s):
    """True if control never reaches the statement following s in its block
    (return, break, continue, throw on every path)"""
    if s is None:
        return False
    k = s['k']
    if k in ('ret', 'break', 'continue'):
        return True
    if k == 'expr' and s['e'].get('k') == 'throw':
        return True
    if k == 'block':
        return any(leaves_block(c) for c in s['body'])
    if k == 'if':
        return s.get('else') is not None and leaves_block(s['then']) and leaves_block(s['else'])
    return terminates(s)


def guarded(s, guards=()):
    """yield (leaf statement, guards) where guards is a tuple of (condition
    expression, sense) pairs known to hold whenever the statement executes.
    Handles nested ifs and the early-exit idiom `if (c) return ...; rest`."""
    if s is None:
        return
    k = s['k']
    if k == 'block':
        g = guards
        for c in s['body']:
            for y in guarded(c, g):
                yield y
            if c['k'] == 'if':
                t_leaves = leaves_block(c['then'])
                e_leaves = leaves_block(c.get('else')) if c.get('else') else False
                if t_leaves and not e_leaves:
                    g = g + ((c['cond'], False),)
                elif e_leaves and not t_leaves:
                    g = g + ((c['cond'], True),)
    elif k == 'if':
        yield (s, guards)   # the condition itself is evaluated under `guards`
        for y in guarded(s['then'], guards + ((s['cond'], True),)):
            yield y
        if s.get('else'):
            for y in guarded(s['else'], guards + ((s['cond'], False),)):
                yield y
    elif k in ('for', 'while'):
        if k == 'for' and s.get('init'):
            for y in guarded(s['init'], guards):
                yield y
        yield (s, guards)
        g = guards + (((s['cond'], True),) if s.get('cond') else ())
        for y in guarded(s['body'], g):
            yield y
    elif k in ('rfor', 'do'):
        yield (s, guards)
        for y in guarded(s['body'], guards):
            yield y
    elif k == 'switch':
        yield (s, guards)
        for y in guarded(s['body'], guards):
            yield y
    elif k in ('case', 'default'):
        for y in guarded(s['sub'], guards):
            yield y
    else:
        yield (s, guards)


def flatten_cond(cond, sense):
    """split a guard into atomic (expr, sense) facts: (a && b, True) -> a, b;
    (a || b, False) -> !a, !b; !x flips"""
    c = strip(cond)
    if c['k'] == 'un' and c['op'] == '!':
        return flatten_cond(c['e'], not sense)
    if c['k'] == 'bin' and c['op'] == '&&' and sense:
        return flatten_cond(c['l'], True) + flatten_cond(c['r'], True)
    if c['k'] == 'bin' and c['op'] == '||' and not sense:
        return flatten_cond(c['l'], False) + flatten_cond(c['r'], False)
    if c['k'] in ('icast', 'cast') and c['ck'] in ('IntegralToBoolean', 'UserDefinedConversion', 'PointerToBoolean'):
        return flatten_cond(c['e'], sense)
    return [(c, sense)]


def facts_of(guards):
    out = []
    for cond, sense in guards:
        out.extend(flatten_cond(cond, sense))
    return out
