"""Wire-format facts transcribed from docs/format.md (each function cites the section).

The prefix table itself is PARSED from /repo/docs/format.md on every run (section
"Prefix Definitions"); if it no longer parses the analysis is broken, not passed.
"""
import os
import re


def parse_prefix_table(repo):
    """docs/format.md '### Prefix Definitions' table -> {label: (lo, hi)}, {function name: label}"""
    path = os.path.join(repo, 'docs', 'format.md')
    rows = {}
    names = {}
    intable = False
    for line in open(path):
        if line.startswith('Function') and 'Prefix' in line and 'Hex' in line:
            intable = True
            continue
        if intable:
            if line.startswith('---'):
                continue
            parts = [p.strip() for p in line.split('|')]
            if len(parts) < 5:
                if rows:
                    break
                continue
            func, label, _binary, hx = parts[0], parts[1], parts[2], parts[3]
            m = re.match(r'^0x([0-9a-fA-F]{2})(?:\s*-\s*0x([0-9a-fA-F]{2}))?$', hx)
            if not m:
                raise ValueError('cannot parse hex column: ' + line)
            lo = int(m.group(1), 16)
            hi = int(m.group(2), 16) if m.group(2) else lo
            key = label or func.upper()
            rows[key] = (lo, hi)
            names[func] = key
    if len(rows) < 20:
        raise ValueError('prefix table not found in docs/format.md')
    return rows, names


# enumerator name in nop::EncodingByte -> documented label (and which end of a range)
ENUM_TO_LABEL = {
    'PositiveFixInt': ('POS', 'lo'), 'PositiveFixIntMin': ('POS', 'lo'), 'PositiveFixIntMax': ('POS', 'hi'),
    'PositiveFixIntMask': ('POS', 'hi'), 'False': ('F', 'lo'), 'True': ('T', 'lo'),
    'U8': ('U8', 'lo'), 'U16': ('U16', 'lo'), 'U32': ('U32', 'lo'), 'U64': ('U64', 'lo'),
    'I8': ('I8', 'lo'), 'I16': ('I16', 'lo'), 'I32': ('I32', 'lo'), 'I64': ('I64', 'lo'),
    'F32': ('F32', 'lo'), 'F64': ('F64', 'lo'), 'ReservedMin': ('RESERVED', 'lo'), 'ReservedMax': ('RESERVED', 'hi'),
    'Table': ('TAB', 'lo'), 'Error': ('ERR', 'lo'), 'Handle': ('HND', 'lo'), 'Variant': ('VAR', 'lo'),
    'Structure': ('STU', 'lo'), 'Array': ('ARY', 'lo'), 'Map': ('MAP', 'lo'), 'Binary': ('BIN', 'lo'),
    'String': ('STR', 'lo'), 'Nil': ('NIL', 'lo'), 'Extension': ('EXT', 'lo'),
    'NegativeFixInt': ('NEG', 'lo'), 'NegativeFixIntMin': ('NEG', 'lo'), 'NegativeFixIntMax': ('NEG', 'hi'),
}

# "Signed Integers" / "Unsigned Integers": payload width in bytes of each class
PAYLOAD = {'POS': 0, 'NEG': 0, 'U8': 1, 'U16': 2, 'U32': 4, 'U64': 8, 'I8': 1, 'I16': 2, 'I32': 4, 'I64': 8, 'F32': 4, 'F64': 8}
CLASS_TYPE = {'U8': 'unsigned char', 'U16': 'unsigned short', 'U32': 'unsigned int', 'U64': 'unsigned long',
              'I8': 'signed char', 'I16': 'short', 'I32': 'int', 'I64': 'long', 'F32': 'float', 'F64': 'double'}


def minimal_class(v, signed):
    """'the smallest integer class able to hold each integer' (format.md, Integer Encoding Class)"""
    if signed:
        if -64 <= v <= 127:
            return 'POS' if v >= 0 else 'NEG'
        for bits, lab in ((8, 'I8'), (16, 'I16'), (32, 'I32'), (64, 'I64')):
            if -2 ** (bits - 1) <= v < 2 ** (bits - 1):
                return lab
    else:
        if 0 <= v <= 127:
            return 'POS'
        for bits, lab in ((8, 'U8'), (16, 'U16'), (32, 'U32'), (64, 'U64')):
            if v < 2 ** bits:
                return lab
    raise ValueError(v)


def accepted_labels(bits, signed):
    """Integer Class Labels: INT<N> = POS, NEG, I8..I<N>;  UINT<N> = POS, U8..U<N>"""
    if signed:
        return ['POS', 'NEG'] + [l for b, l in ((8, 'I8'), (16, 'I16'), (32, 'I32'), (64, 'I64')) if b <= bits]
    return ['POS'] + [l for b, l in ((8, 'U8'), (16, 'U16'), (32, 'U32'), (64, 'U64')) if b <= bits]


def label_of_byte(b, table):
    for lab in ('F', 'T'):
        pass
    for lab, (lo, hi) in table.items():
        if lab in ('F', 'T'):
            continue
        if lo <= b <= hi:
            return lab
    return None
