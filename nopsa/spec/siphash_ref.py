"""Reference SipHash-2-4 (Aumasson & Bernstein, 2012) as *terms*, built with the same
canonicalising constructors the analysed code is evaluated with.  Written from the
specification, independent of include/nop/utility/sip_hash.h.

  v0 = k0 ^ 0x736f6d6570736575   v1 = k1 ^ 0x646f72616e646f6d
  v2 = k0 ^ 0x6c7967656e657261   v3 = k1 ^ 0x7465646279746573
  for each 8-byte little-endian word m:  v3 ^= m; SipRound x2; v0 ^= m
  b = len << 56 | remaining bytes (little-endian)
  v3 ^= b; SipRound x2; v0 ^= b; v2 ^= 0xff; SipRound x4; return v0^v1^v2^v3
"""
from ..termx import mk, C, node

IV = (0x736f6d6570736575, 0x646f72616e646f6d, 0x6c7967656e657261, 0x7465646279746573)


def rotl(x, n):
    return node('rotl', x, C(n))


def sipround(v):
    v0, v1, v2, v3 = v
    v0 = mk('add', v0, v1)
    v1 = rotl(v1, 13)
    v1 = mk('xor', v1, v0)
    v0 = rotl(v0, 32)
    v2 = mk('add', v2, v3)
    v3 = rotl(v3, 16)
    v3 = mk('xor', v3, v2)
    v0 = mk('add', v0, v3)
    v3 = rotl(v3, 21)
    v3 = mk('xor', v3, v0)
    v2 = mk('add', v2, v1)
    v1 = rotl(v1, 17)
    v1 = mk('xor', v1, v2)
    v2 = rotl(v2, 32)
    return [v0, v1, v2, v3]


def init(k0, k1):
    return [mk('xor', C(IV[0]), k0), mk('xor', C(IV[1]), k1), mk('xor', C(IV[2]), k0), mk('xor', C(IV[3]), k1)]


def byte(buf, index):
    """input byte as an unsigned 64-bit quantity"""
    return node('zext', 8, node('load', buf, index))


def word(buf, off):
    return mk('or', *[mk('shl', byte(buf, mk('add', off, C(j))), C(8 * j)) for j in range(8)])


def compress(v, m):
    v = list(v)
    v[3] = mk('xor', v[3], m)
    v = sipround(sipround(v))
    v[0] = mk('xor', v[0], m)
    return v


def last_word(buf, length, end, left):
    b = mk('shl', length, C(56))
    for j in range(left):
        b = mk('or', b, mk('shl', byte(buf, mk('add', end, C(j))), C(8 * j)))
    return b


def finalize(v, b):
    v = compress(v, b)
    v[2] = mk('xor', v[2], C(0xff))
    v = sipround(sipround(sipround(sipround(v))))
    return mk('xor', v[0], v[1], v[2], v[3])
