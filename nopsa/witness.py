"""Compile-time witnesses: a translation unit of static_asserts (each tagged "W:<id>") and of
must-fail regions (each between `// MUSTFAIL <id>` and `// END <id>`), evaluated by
`clang++ -fsyntax-only -ferror-limit=0`.  The compiler is the decision procedure; nothing is run.

  static_assert "W:id"        holds  <=>  no 'static_assert failed' / 'not an integral constant expression' diagnostic names it
  MUSTFAIL id ... END id      holds  <=>  at least one error or instantiation note points into the region
  everything else must compile: an error outside all regions makes the witness TU unusable (analysis broken)
"""
import os
import re
import subprocess

from . import facts


def run(chk, filename, rule, text, minimum=1, extra_flags=()):
    chk.rule(rule, text, minimum=minimum)
    path = os.path.join(facts.VERIF, 'witnesses', filename)
    flags = ['-std=c++14', '-Wno-everything', '-I' + facts.INCLUDE, '-I' + os.path.join(facts.REPO, 'test')] + list(extra_flags)
    pre = subprocess.run(['clang++', '-E', '-P'] + flags + [path], stdout=subprocess.PIPE, stderr=subprocess.DEVNULL).stdout.decode(errors='replace')
    ids = []
    for m in re.finditer(r'"W:[^"]*"(?:\s*"[^"]*")*', pre):
        i = ''.join(re.findall(r'"([^"]*)"', m.group(0)))
        if re.match(r'^W:[A-Za-z0-9_.:-]+$', i):
            ids.append(i)
    src = open(path).read().splitlines()
    regions = {}
    must_compile = {}
    cur = None
    for n, line in enumerate(src, 1):
        m = re.match(r'\s*// (MUSTFAIL|MUSTCOMPILE) (\S+)', line)
        if m:
            cur = (m.group(2), n, m.group(1))
        m = re.match(r'\s*// END (\S+)', line)
        if m and cur and cur[0] == m.group(1):
            (regions if cur[2] == 'MUSTFAIL' else must_compile)[cur[0]] = (cur[1], n)
            cur = None
    r = subprocess.run(['clang++', '-fsyntax-only', '-ferror-limit=0'] + flags + [path], stdout=subprocess.PIPE, stderr=subprocess.STDOUT)
    out = r.stdout.decode(errors='replace')
    failed = set(re.findall(r'static_assert failed.*?"(W:[A-Za-z0-9_.:-]+)"', out))
    # attribute every diagnostic block (error + its notes) to the witness-file lines it mentions
    blocks = []
    curb = None
    for line in out.splitlines():
        if re.search(r': (fatal )?error: ', line):
            curb = {'head': line, 'lines': set()}
            blocks.append(curb)
        if curb is not None:
            m = re.match(r'^%s:(\d+):' % re.escape(path), line)
            if m:
                curb['lines'].add(int(m.group(1)))
    hit = {rid: 0 for rid in regions}
    broke = {rid: [] for rid in must_compile}
    stray = []
    for b in blocks:
        if 'static_assert failed' in b['head'] and re.search(r'"W:', b['head']):
            continue
        # a witness whose expression is no longer a constant expression (the constexpr evaluation hits undefined behaviour, e.g.
        # a store past the buffer) does not hold either: the statement claims "this is a constant expression equal to true"
        m = re.match(r'^%s:(\d+):\d+: error: static_assert expression is not an integral constant expression' % re.escape(path), b['head'])
        if m:
            stmt = ' '.join(src[int(m.group(1)) - 1:int(m.group(1)) + 3]).split(';')[0]
            wid = re.search(r'static_assert\(.*"(W:[A-Za-z0-9_.:-]+)"', stmt)
            if wid:
                failed.add(wid.group(1))
                continue
        owner = None
        for rid, (a, z) in regions.items():
            if any(a <= l <= z for l in b['lines']):
                owner = rid
        mc = None
        for rid, (a, z) in must_compile.items():
            if any(a <= l <= z for l in b['lines']):
                mc = rid
        if owner:
            hit[owner] += 1
        elif mc:
            broke[mc].append(b['head'])
        else:
            stray.append(b['head'])
    if stray:
        chk.unanalysable(rule, 'witnesses/' + filename, 'witness TU does not compile outside its must-fail regions: ' + stray[0][:220])
        return
    for i in sorted(set(ids)):
        chk.decide(i not in failed, rule, 'witnesses/%s %s' % (filename, i), '%s: %s' % (i, 'static_assert FAILED' if i in failed else 'holds'), function=i)
    for rid, n in sorted(hit.items()):
        chk.decide(n > 0, rule, 'witnesses/%s %s' % (filename, rid), 'must-fail witness %s: %s' % (rid, 'rejected by the compiler' if n else
                   'COMPILES although it must not'), function=rid)
    for rid, errs in sorted(broke.items()):
        chk.decide(not errs, rule, 'witnesses/%s %s' % (filename, rid), 'must-compile witness %s: %s' % (rid, 'accepted by the compiler' if not errs else
                   'REJECTED: ' + errs[0][-160:]), function=rid)
