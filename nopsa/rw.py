"""Effect-summary rules for reader/writer primitives (bounded wrappers, buffer
readers/writers): guard normal forms, delegation, index bookkeeping.

Roles are resolved from the class itself, not from names: the *delegate* is the
pointer field, the *position* is the integral field that primitives assign, the
*limit* is the other integral field (initialised by the constructor, never assigned
by a primitive).
"""
from . import facts, ir, symx
from .symx import Poly, Cmp, StatusVal

SIZEOF = {'char': 1, 'signed char': 1, 'unsigned char': 1, 'bool': 1, 'short': 2, 'unsigned short': 2, 'int': 4,
          'unsigned int': 4, 'long': 8, 'unsigned long': 8, 'long long': 8, 'unsigned long long': 8, 'float': 4,
          'double': 8, 'char16_t': 2, 'char32_t': 4, 'wchar_t': 4, 'void': 1}


class Roles:
    def __init__(self, pos, limit, delegate, buffer):
        self.pos, self.limit, self.delegate, self.buffer = pos, limit, delegate, buffer

    def __repr__(self):
        return 'pos=%s limit=%s delegate=%s buffer=%s' % (self.pos, self.limit, self.delegate, self.buffer)


def resolve_roles(db, rec_q, methods):
    """methods: analysed instances of the class's member functions"""
    r = db.records.get(rec_q)
    if r is None:
        return None
    ints = [f['n'] for f in r['fields'] if f['t'] in ('unsigned long', 'std::size_t', 'unsigned int', 'unsigned long long')]
    ptrs = [f for f in r['fields'] if f['t'].endswith('*')]
    assigned = set()
    where = {}
    for m in methods:
        if m.get('ctor') or 'body' not in m or m['n'].startswith('operator'):
            continue
        for y in ir.walk(m['body']):
            if y.get('k') == 'bin' and (y['op'].endswith('=') and y['op'] not in ('==', '!=', '<=', '>=')):
                t = ir.strip(y['l'])
                if t['k'] == 'mem' and ir.strip(t['b'])['k'] == 'this':
                    assigned.add(t['n'])
                    where.setdefault(t['n'], set()).add(m['n'])
            if y.get('k') == 'un' and y['op'] in ('++', '--'):
                t = ir.strip(y['e'])
                if t['k'] == 'mem' and ir.strip(t['b'])['k'] == 'this':
                    assigned.add(t['n'])
                    where.setdefault(t['n'], set()).add(m['n'])
    pos = [n for n in ints if n in assigned]
    lim = [n for n in ints if n not in assigned]
    if len(pos) > 1:
        # further mutable counters (caches, statistics): the position is the one the TRANSFER primitives advance; the others are
        # extra state that the guard rules see as opaque conditions
        moving = [n for n in pos if where.get(n, set()) & {'Read', 'Write', 'Skip'}]
        if len(moving) == 1:
            pos = moving
    if len(pos) != 1 or len(lim) != 1:
        return None
    delegate = None
    buffer = None
    for f in ptrs:
        pointee = f['t'][:-1].strip().replace('const ', '')
        if pointee in ('unsigned char', 'void', 'char'):
            buffer = f['n']
        else:
            delegate = f['n']
    return Roles(pos[0], lim[0], delegate, buffer)


def need_of(fn, kind_name):
    """symbolic byte count a primitive is asked to move, from its *signature* (independent of its body)"""
    n = fn['n']
    ps = fn['params']
    if n in ('Ensure', 'Prepare', 'Skip') and len(ps) >= 1:
        return Poly.atom('p:' + ps[0]['n'])
    if n in ('Read', 'Write') and len(ps) == 1:
        return Poly.const(1)
    if n in ('Read', 'Write') and len(ps) == 2:
        t = ps[0]['t'].replace('const ', '').replace('*', '').strip()
        if t not in SIZEOF:
            return None
        return (Poly.atom('p:' + ps[1]['n']) - Poly.atom('p:' + ps[0]['n'])) * Poly.const(SIZEOF[t])
    return None


def field_atoms(roles):
    return {'f:' + roles.pos, 'f:' + roles.limit}


def classify_guard(cond, sense, need, roles):
    """returns 'safe' if (cond, sense) states need <= limit - pos in an overflow-safe form,
    'unsafe' if it states it in the additive (wrapping) form, None otherwise"""
    if not isinstance(cond, Cmp):
        return None
    c = cond if sense else cond.negated()
    R = Poly.atom('f:' + roles.limit) - Poly.atom('f:' + roles.pos)
    want = Cmp('<=', need, R)
    if c.key() != want.key():
        return None
    fa = field_atoms(roles)
    for side in (cond.lhs, cond.rhs):
        atoms = side.atoms()
        if atoms & fa and atoms - fa:
            return 'unsafe'
        # a lone field with a constant added / subtracted (`limit - 1`, `pos + 1`) wraps at the ends of the range as well
        if len(atoms & fa) == 1 and not (atoms - fa) and (side.t.get((), 0) or 0) != 0:
            return 'unsafe'
        if atoms <= fa and len(atoms) == 2:
            # both fields on one side: must be exactly limit - pos (never a sum)
            if side != R and side != -R:
                return 'unsafe'
    return 'safe'


def guard_on_path(path, need, roles):
    best = None
    for c, s in path.conds:
        g = classify_guard(c, s, need, roles)
        if g == 'safe':
            return 'safe'
        if g == 'unsafe':
            best = 'unsafe'
    return best


def failing_guard(path, need, roles):
    """True if the path is the one where the guard failed (need > remaining)"""
    for c, s in path.conds:
        if classify_guard(c, not s, need, roles) in ('safe', 'unsafe'):
            return True
    return False


def delegate_calls(path, roles):
    return [(i, e) for i, e in enumerate(path.events) if e.kind == 'call' and roles.delegate and e.obj == 'f:' + roles.delegate]


def field_events(path, roles=None):
    return [e for e in path.events if e.kind == 'field']


def run_paths(db, fn):
    inline = lambda callee, call: ir.strip(call['obj']).get('k') == 'this' if 'obj' in call else False
    return symx.paths_of(db, fn, inline)
