"""Table encoder rules (include/nop/base/table.h), shared by C06 / C07 / C08 / C11 / C01.

Every member of Encoding<Table> is summarised symbolically for every probe table
(added / deleted / reordered entries, nested tables, handle entries).  Recursive
helpers over Index<N> are flattened by inlining, so the rules see the whole entry list:

  TW  WritePayload: hash (uint64) , count of non-empty active entries (SizeType), entries in declaration order
  TE  WriteEntry/Size(entry): written iff the entry is non-empty; id, size = Size(value), BoundedWriter(size),
      value, WritePadding - the declared size, the frame limit and Size(value) are one quantity; deleted entries
      write nothing and have size 0; the predicate is the same in ActiveEntryCount, WriteEntry and Size
  TC  ReadPayload clears every declared entry before anything is read
  TH  the hash is compared before any entry is read; mismatch -> InvalidTableHash
  TL  ReadEntries decodes exactly `count` (id, entry) pairs
  TD  ReadEntryForId tries every declared id, dispatches id k to the entry declared with id k, and skips unknown ids
  TR  ReadEntry(active): empty-check -> DuplicateTableEntry; size; re-seat; BoundedReader(size); value; ReadPadding
  TS  SkipEntry / ReadEntry(deleted): read the size, Skip exactly that many bytes, return its status
"""
import re

from . import facts, ir, symx, encrules
from .symx import Poly, Cmp, StatusVal


def table_fns(db):
    out = {}
    for f in db.fns:
        if f.get('rect') == 'nop::Encoding' and f['file'] == 'nop/base/table.h' and 'body' in f:
            out.setdefault(f['recargs'][0], []).append(f)
    return out


def pick(fns, name, pred=None, prefer=('nop::BufferReader', 'nop::BufferWriter')):
    c = [f for f in fns if f['n'] == name and (pred is None or pred(f))]
    c.sort(key=lambda f: 0 if any(p in ' '.join(f.get('targs') or []) for p in prefer) else 1)
    return c


def entry_info(t):
    """nop::Entry<T, Id, nop::ActiveEntry|DeletedEntry> -> (T, id, active)"""
    t = t.replace('const ', '').rstrip('&* ').strip()
    m = re.match(r'^nop::Entry<(.*), (\d+)(?:UL)?, nop::(ActiveEntry|DeletedEntry)>$', t)
    if not m:
        return None
    return m.group(1), int(m.group(2)), m.group(3) == 'ActiveEntry'


def entry_role(f):
    """'writer' | 'reader' | 'sizer' for members of the table encoder that operate on ONE entry - recognised by signature
    (const Entry<T,Id,Tag>& [, Writer*] / Entry<T,Id,Tag>*, Reader*), not by name; every other member is a helper
    whose decomposition is free to change and is inlined"""
    if f is None or f.get('rect') != 'nop::Encoding' or f.get('file') != 'nop/base/table.h':
        return None
    ps = f.get('params') or []
    if not ps or entry_info(ps[0]['t']) is None:
        return None
    if len(ps) == 1:
        return 'sizer'
    if len(ps) == 2:
        return 'reader' if ps[0]['t'].rstrip().endswith('*') else 'writer'
    return None


def inline_helpers(root, keep_roles=('writer', 'reader', 'sizer')):
    """inline the helpers of the root's own table encoder (a nested table's encoder is a different record and stays a call)"""
    rec = root.get('rec')

    def f(callee, call):
        return callee.get('rect') == 'nop::Encoding' and callee['file'] == 'nop/base/table.h' and callee.get('rec') == rec and \
            callee['n'] not in ('Read', 'Write', 'Prefix', 'Match') and entry_role(callee) not in keep_roles
    return f


def is_bounded(e):
    """the object / argument expression denotes a BoundedReader or BoundedWriter (by its type, not its name)"""
    x = e
    for _ in range(6):
        if not isinstance(x, dict):
            return False
        t = x.get('t') or ''
        if 'nop::BoundedReader<' in t or 'nop::BoundedWriter<' in t:
            return True
        x = x.get('e') or x.get('b')
    return False


class _EmptyObs:
    observers = ('empty',)


def reseat_leaves_value(db, fn, call, local_state=None, target_local=None):
    """abstract execution (nopsa/absx.py) of the re-seating assignment `*entry = <source>` of an entry reader, starting from an
    empty entry: returns the entry's empty() afterwards.  The source expression and the resolved operator= overload are the
    ones of this instantiation, so an entry whose value type is itself an Optional is decided on its own overload set."""
    from . import absx, tsrules
    callee = db.callee(fn, call)
    if callee is None or callee.get('rec') not in db.records:
        raise absx.Unsupported('re-seat is not a resolved member assignment')
    recq = callee['rec']
    ex = tsrules.Explorer(db, recq, _EmptyObs(), recq)
    w = ex.world()
    w.declare(('A',), recq)
    dctor = [f for f in ex.fns if f.get('ctor') and f.get('defaultctor') and not f['params'] and ('body' in f or f.get('inits'))]
    if not dctor:
        raise absx.Unsupported('no default constructor instance of ' + recq)
    it = absx.Interp(w)
    it.run(dctor[0], ('A',), [], None)
    if ex.observe(w, 'A') != (1,):
        raise absx.Unsupported('a default-constructed entry does not report empty')
    fr = absx.Frame(fn, None)
    if target_local is not None:
        fr.env[target_local] = absx.Ptr(('A',))          # the destination is reached through this local pointer
        for prm in fn['params']:                          # parameters are the initialisers: an Optional-like one in the given state
            t = tsrules.strip_cvref(prm.get('t', ''))
            rr = db.records.get(t)
            if rr is not None and rr.get('rect') == 'nop::Optional':
                ex.make_other(w, t, local_state or 'empty')
                fr.env[prm['id']] = absx.Loc(('B',))
            else:
                fr.env[prm['id']] = absx.Elem(w.fresh('arg'))
    else:
        fr.env[fn['params'][0]['id']] = absx.Ptr(('A',))
    # a local of the reader used as the source (decode into a local, then commit): a record local of an Optional-like
    # class is given the requested state, any other local is an opaque element value
    locals_ = {}
    for y in ir.walk(fn['body']):
        if y.get('k') == 'decl':
            for v in y['vars']:
                if 'id' in v:
                    locals_[v['id']] = v
    used = {y['id'] for y in ir.walk(call) if y.get('k') == 'ref' and y.get('dk') == 'local' and y.get('id') in locals_}
    for vid in used:
        if vid in fr.env:
            continue
        t = tsrules.strip_cvref(locals_[vid].get('t', ''))
        r = db.records.get(t)
        if r is not None and r.get('rect') == 'nop::Optional':
            ex.make_other(w, t, local_state or 'empty')
            fr.env[vid] = absx.Loc(('B',))
        else:
            fr.env[vid] = absx.Elem(w.fresh('local'))
    it.ev(call, fr)
    return ex.observe(w, 'A')[0], list(w.problems)


def entry_fns(fns, role):
    return [f for f in fns if entry_role(f) == role]


def declared_entries(db, fns):
    """[(member, id, active, T)] in declaration order - taken from the table's EntryList<HashValue<H>, MemberPointer<...>...>
    type (what NOP_TABLE declares), NOT from the encoder's own recursion, so a helper that skips an entry is noticed"""
    tname = fns[0]['recargs'][0]
    for q, r in db.records.items():
        if r.get('rect') != 'nop::EntryList' or len(r.get('recargs', [])) < 1:
            continue
        pack = r['recargs'][1] if len(r['recargs']) > 1 else '<>'
        if ('&' + tname + '::') not in pack and not (pack.strip() in ('<>', '') and False):
            continue
        inner = pack.strip()
        if inner.startswith('<') and inner.endswith('>'):
            inner = inner[1:-1]
        out = []
        for mp in encrules.split_args(inner):
            if not mp.startswith('nop::MemberPointer<'):
                continue
            args = encrules.split_args(mp[len('nop::MemberPointer<'):-1])
            member = [a for a in args if a.startswith('&')][0].rsplit('::', 1)[-1]
            et = args[0]
            et = et[:et.rfind(' ' + tname + '::*')] if (' ' + tname + '::*') in et else et
            info = entry_info(et)
            out.append((member, info[1] if info else None, info[2] if info else None, info[0] if info else None))
        return out
    return None


def rules(chk, db, want, prefix=''):
    R = lambda r: prefix + r
    texts = {
        'TW': 'table WritePayload: uint64 hash, SizeType count of non-empty active entries, then the entries',
        'TE': 'entry write/size: same non-empty predicate; id, size = Size(value) = frame limit, value, padding; deleted entries contribute nothing',
        'TC': 'every declared entry is cleared before the table is read',
        'TH': 'hash compared before any entry is read; mismatch -> InvalidTableHash',
        'TL': 'exactly `count` (id, entry) pairs are decoded',
        'TD': 'id dispatch tries every declared id, reaches the entry declared with that id, skips unknown ids',
        'TR': 'ReadEntry: duplicate check, size, re-seat, frame of exactly `size`, value, padding',
        'TS': 'SkipEntry / deleted entry: read size, Skip(size), status returned',
    }
    mins = {'TW': 4, 'TE': 8, 'TC': 4, 'TH': 4, 'TL': 4, 'TD': 4, 'TR': 6, 'TS': 4}
    for r in want:
        chk.rule(R(r), texts[r], minimum=mins[r])
    tabs = table_fns(db)
    if not tabs:
        chk.unanalysable(R(sorted(want)[0]), 'nop/base/table.h', 'no table encoder instantiated')
        return
    for tname, fns in sorted(tabs.items()):
        short = tname.replace('probe::', '')
        decl = declared_entries(db, fns)
        if decl is None:
            continue
        ids = [d[1] for d in decl]
        # ---------------- write side
        if 'TW' in want:
            for f in pick(fns, 'WritePayload')[:1]:
                where = facts.site(f) + ' <%s>' % short
                try:
                    paths = symx.paths_of(db, f, inline_helpers(f))
                except symx.Unsupported as e:
                    chk.unanalysable(R('TW'), where, str(e))
                    continue
                succ = [p for p in paths if encrules.is_success(p)]
                full = max(succ, key=lambda p: len(p.events)) if succ else None
                why = []
                if full is None:
                    why.append('no successful path')
                else:
                    v = [it for it in encrules.io_view(full) if it[0] == 'ENC']
                    calls = [e for e in full.events if e.kind == 'call' and entry_role(e.callee) == 'writer']
                    order = []
                    last_resolve = None
                    for e in full.events:
                        if e.kind == 'call' and e.name == 'Resolve':
                            last_resolve = encrules.member_id(getattr(e, 'q', ''))
                        elif e.kind == 'call' and entry_role(e.callee) == 'writer':
                            order.append(last_resolve)
                    if order != [d[0] for d in decl]:
                        why.append('entries written in order %s, declared %s' % (order, [d[0] for d in decl]))
                    if len(v) != 2 or v[0][1] != 'unsigned long' or v[1][1] != 'unsigned long':
                        why.append('expected hash (uint64) then count (SizeType), found %s' % [it[1] for it in v])
                    else:
                        cnt = repr(v[1][3][0])
                        nterms = cnt.count('operator bool()')
                        if nterms != len(decl) or 'Resolve' not in cnt:
                            why.append('count is %s: not the number of non-empty entries over all %d declared entries' % (cnt[:120], len(decl)))
                        hv = symx.as_poly(v[0][3][0])
                        if not hv.is_const():
                            why.append('hash written is not the compile-time table hash')
                    if len(calls) != len(decl) or (calls and full.events.index(calls[0]) < (v[1][4] if len(v) == 2 else 0)):
                        why.append('entries are not all written after hash and count')
                chk.decide(not why, R('TW'), where, 'Encoding<%s>::WritePayload: %s' % (short, '; '.join(why) if why else 'hash, count of non-empty entries, entries'),
                           function=ir.fn_label(f))
                # Size(table) = prefix + Size(the hash the writer emits) + Size(the count the writer emits) + one Size per declared entry
                written_hash = None
                if full is not None:
                    v = [it for it in encrules.io_view(full) if it[0] == 'ENC']
                    if len(v) == 2 and symx.as_poly(v[0][3][0]).is_const():
                        written_hash = symx.as_poly(v[0][3][0]).const_value()
                for g in pick(fns, 'Size', lambda h: len(h['params']) == 1 and entry_info(h['params'][0]['t']) is None)[:1]:
                    gw = facts.site(g) + ' <%s>' % short
                    try:
                        gp = symx.paths_of(db, g, inline_helpers(g))
                    except symx.Unsupported as e:
                        chk.unanalysable(R('TW'), gw, str(e))
                        continue
                    why = []
                    if len(gp) != 1:
                        why.append('%d paths' % len(gp))
                    else:
                        sp = gp[0]
                        sz = [e for e in sp.events if e.kind == 'call' and e.name == 'Size']
                        scal = [e for e in sz if encrules.enc_type(e) == 'unsigned long' and len(e.args) == 1]
                        consts = [symx.as_poly(e.args[0]).const_value() for e in scal if symx.as_poly(e.args[0]).is_const()]
                        counts = [e for e in scal if not symx.as_poly(e.args[0]).is_const()]
                        per_entry = [e for e in sz if e not in scal]
                        if written_hash is None or consts != [written_hash]:
                            why.append('hash field sized for %s, the writer emits %s' % (consts, written_hash))
                        if len(counts) != 1 or repr(counts[0].args[0]).count('operator bool()') != len(decl):
                            why.append('count field not sized for the number of non-empty entries over all %d declared entries' % len(decl))
                        if len(per_entry) != len(decl):
                            why.append('%d entry sizes for %d declared entries' % (len(per_entry), len(decl)))
                        r = symx.as_poly(sp.ret)
                        if len(r.t) != len(sz) + 1 or any(c != 1 for c in r.t.values()) or 'BaseEncodingSize' not in repr(r):
                            why.append('size is %s: not prefix + hash + count + entries' % repr(r)[:160])
                    chk.decide(not why, R('TW'), gw + ' size', 'Encoding<%s>::Size: %s' % (short, '; '.join(why) if why else
                               'prefix + Size(hash) + Size(active count) + every entry'), function=ir.fn_label(g))
            # entry order
            for f in pick(fns, 'WriteEntries', lambda g: len(g['params']) == 3)[:0]:
                pass
        if 'TE' in want:
            seen = set()
            for f in sorted(entry_fns(fns, 'writer'), key=lambda g: 0 if 'nop::BufferWriter' in ' '.join(g.get('targs') or []) else 1):
                info = entry_info(f['params'][0]['t'])
                key = (f['file'], f['pat']['l'], f['params'][0]['t'])
                if info is None or key in seen:
                    continue
                seen.add(key)
                where = facts.site(f) + ' <%s id %d>' % (short, info[1])
                paths = symx.paths_of(db, f, inline_helpers(f))
                why = []
                if not info[2]:
                    if any(p.events for p in paths) or not all(encrules.is_success(p) for p in paths):
                        why.append('deleted entry performs I/O or fails')
                else:
                    succ = [p for p in paths if encrules.is_success(p)]
                    empties = [p for p in succ if not [e for e in p.events if e.kind == 'call' and e.name not in ('operator bool', 'empty')]]
                    fulls = [p for p in succ if p not in empties]
                    if not empties or not fulls:
                        why.append('expected one path writing nothing (empty entry) and one writing the entry')
                    for p in fulls:
                        tested = [(c, s) for c, s in p.conds if 'operator bool' in repr(c) or '.empty()' in repr(c)]
                        if not tested:
                            why.append('entry written without testing whether it holds a value')
                        ev = [e for e in p.events if e.kind == 'call']
                        names = [e.name for e in ev]
                        seq = [n for n in names if n in ('Write', 'Size', 'WritePadding') or n.startswith('ctor:nop::BoundedWriter')]
                        want_seq = ['Write', 'Size', 'Write', 'ctor', 'Write', 'WritePadding']
                        norm = ['ctor' if n.startswith('ctor:') else n for n in seq]
                        if norm != want_seq:
                            why.append('sequence is %s, expected id, Size, size, frame, value, padding' % norm)
                            continue
                        w_id, sz, w_sz, frame, w_val, pad = [e for e in ev if e.name in ('Write', 'Size', 'WritePadding') or e.name.startswith('ctor:nop::BoundedWriter')]
                        if symx.as_poly(w_id.args[0]) != Poly.const(info[1]) or encrules.enc_type(w_id) != 'unsigned long':
                            why.append('id written is %r as %s, declared id %d (uint64)' % (w_id.args[0], encrules.enc_type(w_id), info[1]))
                        szsym = repr(w_sz.args[0])
                        if not szsym.startswith('Size(') or encrules.enc_type(w_sz) != 'unsigned long':
                            why.append('declared size %s is not Encoding<T>::Size(value) as SizeType' % szsym)
                        if len(frame.args) != 2 or repr(frame.args[1]) != szsym:
                            why.append('frame limit %s differs from the declared size %s' % ([repr(a) for a in frame.args], szsym))
                        if not is_bounded(w_val.expr['args'][1]):
                            why.append('value is not written through the bounded writer')
                        if not (isinstance(p.ret, StatusVal) and p.ret.kind == 'call' and p.events[p.ret.arg] is pad):
                            why.append('WritePadding status is not what is returned')
                        if repr(sz.args[0]) != repr(w_val.args[0]):
                            why.append('Size() taken of %r but %r is written' % (sz.args[0], w_val.args[0]))
                chk.decide(not why, R('TE'), where, 'WriteEntry<%s id %d %s>: %s' % (short, info[1], 'active' if info[2] else 'deleted',
                           '; '.join(sorted(set(why))) if why else 'written iff non-empty: id, size = Size(value) = frame limit, value, padding'),
                           function=ir.fn_label(f))
            seen = set()
            for f in entry_fns(fns, 'sizer'):
                info = entry_info(f['params'][0]['t'])
                key = f['params'][0]['t']
                if key in seen:
                    continue
                seen.add(key)
                where = facts.site(f) + ' <%s id %d>' % (short, info[1])
                paths = symx.paths_of(db, f, inline_helpers(f))
                why = []
                if not info[2]:
                    if not all(symx.as_poly(p.ret) == Poly.const(0) for p in paths):
                        why.append('deleted entry has non-zero size')
                else:
                    zero = [p for p in paths if symx.as_poly(p.ret) == Poly.const(0)]
                    non = [p for p in paths if p not in zero]
                    if len(zero) != 1 or len(non) != 1:
                        why.append('expected size 0 for an empty entry and one formula otherwise')
                    for p in non:
                        ev = [e for e in p.events if e.kind == 'call' and e.name == 'Size']
                        if len(ev) != 3:
                            why.append('expected Size(value), Size(id), Size(size)')
                            continue
                        val = [e for e in ev if encrules.enc_type(e) != 'unsigned long' or 'get()' in repr(e.args[0])]
                        valsym = 'Size(%s)#%d' % (repr(val[0].args[0]), p.events.index(val[0])) if val else None
                        others = [e for e in ev if e not in val[:1]]
                        argtxt = sorted(repr(e.args[0]) for e in others)
                        if valsym is None or sorted([str(info[1]), valsym]) != argtxt:
                            why.append('size fields sized for %s, expected id %d and the value size' % (argtxt, info[1]))
                        r = symx.as_poly(p.ret)
                        if len(r.t) != 3 or any(c != 1 for c in r.t.values()):
                            why.append('entry size is %r, expected Size(id) + Size(size) + size' % r)
                chk.decide(not why, R('TE'), where, 'Size(entry <%s id %d %s>): %s' % (short, info[1], 'active' if info[2] else 'deleted',
                           '; '.join(sorted(set(why))) if why else '0 when empty/deleted, else Size(id) + Size(size) + size'), function=ir.fn_label(f))
        # ---------------- read side: one root (ReadPayload) with every helper inlined except the per-entry readers, so
        # the decomposition into ReadEntries / ReadEntryForId / SkipEntry (or any other) does not matter
        for f in pick(fns, 'ReadPayload')[:1]:
            where = facts.site(f) + ' <%s>' % short
            try:
                paths = symx.paths_of(db, f, inline_helpers(f))
            except symx.Unsupported as e:
                chk.unanalysable(R('TC'), where, str(e))
                continue
            succ = [p for p in paths if encrules.is_success(p)]
            views = {id(p): encrules.io_view(p) for p in paths}

            def encs(p):
                return [it for it in views[id(p)] if it[0] == 'ENC']
            if 'TC' in want:
                why = []
                for p in paths:
                    ev = [e for e in p.events if e.kind == 'call']
                    first_read = encs(p)[0][5] if encs(p) else None
                    first_io = ev.index(first_read) if first_read in ev else len(ev)
                    clears = [e for e in ev[:first_io] if e.name == 'clear']
                    resolves = [encrules.member_id(getattr(e, 'q', '')) for e in ev[:first_io] if e.name == 'Resolve']
                    if len(clears) != len(decl) or sorted(set(resolves)) != sorted(d[0] for d in decl):
                        why.append('%d of %d declared entries are cleared before reading (%s)' % (len(set(resolves)) if len(clears) == len(resolves) else len(clears), len(decl), sorted(set(resolves))))
                chk.decide(not why, R('TC'), where, 'Encoding<%s>::ReadPayload: %s' % (short, '; '.join(sorted(set(why))) if why else
                           'all %d entries cleared on every path before the first read' % len(decl)), function=ir.fn_label(f))
            if 'TH' in want:
                why = []
                for p in succ:
                    v = encs(p)
                    if len(v) < 2 or v[0][1] != 'unsigned long' or v[1][1] != 'unsigned long' or v[0][5].in_loop or v[1][5].in_loop:
                        why.append('expected hash (uint64) then count (SizeType) before the entries')
                        continue
                    h = encrules.len_atom(v[0])
                    eq = [c for c, s2 in p.conds if isinstance(c, Cmp) and h is not None and (c if s2 else c.negated()).op == '==' and
                          repr(h) in repr(c)]
                    if not eq:
                        why.append('entries are read without the hash having been compared')
                bad = [p for p in paths if encrules.err_of(p) == 'InvalidTableHash']
                if not bad or any(len(encs(p)) != 1 for p in bad):
                    why.append('hash mismatch is not rejected with InvalidTableHash right after the hash is read')
                chk.decide(not why, R('TH'), where, 'Encoding<%s>::ReadPayload: %s' % (short, '; '.join(sorted(set(why))) if why else
                           'hash validated (InvalidTableHash) before the count and entries are read'), function=ir.fn_label(f))
            looped = [p for p in paths if any(it[5].in_loop for it in views[id(p)])]
            if 'TL' in want:
                why = []
                full = max([p for p in succ if p in looped] or succ or paths, key=lambda p: len(p.events))
                v = encs(full)
                cnt = encrules.len_atom(v[1]) if len(v) >= 2 else None
                if cnt is None:
                    why.append('no decoded entry count')
                else:
                    ok, msg = encrules.loop_bound(f, cnt, full, db=db)
                    if not ok:
                        why.append(msg.replace('d:', ''))
                for p in looped:
                    inl = [it for it in views[id(p)] if it[5].in_loop]
                    if not inl or inl[0][0] != 'ENC' or inl[0][1] != 'unsigned long' or inl[0][2] != 'Read':
                        why.append('an iteration does not start by decoding the entry id (uint64)')
                # forward compatibility: the table decoder itself refuses only a wrong hash (everything else it returns is the status
                # of a read, of Skip or of an entry reader): a count or an id it does not know is never a reason to reject
                for p in paths:
                    e_ = encrules.err_of(p)
                    if e_ is not None and e_ != 'InvalidTableHash':
                        why.append('returns %s of its own accord on path [%s]' % (e_, p.describe()[:140]))
                chk.decide(not why, R('TL'), where, 'Encoding<%s>::ReadPayload: %s' % (short, '; '.join(sorted(set(why))) if why else
                           'for i in [0, count): decode an id, then handle that entry; no count / id is refused'), function=ir.fn_label(f))
            if 'TD' in want or 'TS' in want:
                why = []
                why_s = []
                reached = {}
                skips = 0
                for p in looped:
                    inl = [it for it in views[id(p)] if it[5].in_loop]
                    if not inl or inl[0][0] != 'ENC':
                        continue
                    id_ev = inl[0][5]
                    idsym = encrules.len_atom(inl[0])
                    if p.status_facts().get(p.events.index(id_ev)) is False or idsym is None:
                        continue            # the id itself could not be read: nothing to dispatch
                    idname = repr(idsym)
                    after = [e for e in p.events[p.events.index(id_ev) + 1:] if e.kind == 'call' and e.in_loop]
                    ops = [e for e in after if entry_role(e.callee) == 'reader']
                    raw = [it for it in inl[1:] if it[0] in ('ENC', 'RW', 'RAW', 'BYTE')]
                    eqs = [(c if s2 else c.negated()) for c, s2 in p.conds if isinstance(c, Cmp) and idname in repr(c)]
                    pos = [c for c in eqs if c.op == '==']
                    neg = [c for c in eqs if c.op == '!=']

                    def idconst(c):
                        return int(-c.p.const_value()) if c.p.t.get((idname,), 0) == 1 else int(c.p.const_value())
                    if len(ops) == 1 and not raw:
                        if len(pos) != 1:
                            why.append('entry read without an id match')
                            continue
                        k = idconst(pos[0])
                        info = entry_info(ops[0].callee['params'][0]['t'])
                        if info is None or info[1] != k:
                            why.append('id %d dispatches to the entry declared with id %s' % (k, info[1] if info else '?'))
                        reached[k] = True
                    elif not ops and raw:
                        # unknown id: the entry's size is decoded and exactly that many bytes are skipped
                        skips += 1
                        negids = sorted(idconst(c) for c in neg)
                        if negids != sorted(ids):
                            why.append('skip reached after testing ids %s, declared ids are %s' % (negids, sorted(ids)))
                        names = [(it[0], it[1] if it[0] == 'RW' else it[2]) for it in raw]
                        size_read = raw[0] if raw[0][0] == 'ENC' and raw[0][1] == 'unsigned long' else None
                        size_ok = size_read is not None and p.status_facts().get(raw[0][4]) is not False
                        if size_read is None:
                            why_s.append('unknown entry: size not decoded as SizeType first (%s)' % names)
                        elif size_ok:
                            szsym = encrules.len_atom(size_read)
                            sk = [it for it in raw[1:] if it[0] == 'RW' and it[1] == 'Skip']
                            if len(raw) != 2 or len(sk) != 1 or szsym is None or repr(sk[0][3][0]) != repr(szsym):
                                why_s.append('unknown entry: expected Skip(decoded size), found %s' % names[1:])
                    else:
                        why.append('path with %d entry operations and %d raw transfers after the id' % (len(ops), len(raw)))
                if skips < 1:
                    why.append('no path skips an unknown id')
                if sorted(reached) != sorted(ids):
                    why.append('ids dispatched: %s, declared: %s' % (sorted(reached), sorted(ids)))
                if 'TD' in want:
                    chk.decide(not why, R('TD'), where, 'Encoding<%s>::ReadPayload: %s' % (short, '; '.join(sorted(set(why))) if why else
                               'ids %s each reach their own entry, anything else is skipped' % sorted(ids)), function=ir.fn_label(f))
                if 'TS' in want:
                    chk.decide(not why_s and skips >= 1, R('TS'), where, 'Encoding<%s>::ReadPayload, unknown id: %s' % (short, '; '.join(sorted(set(why_s))) if why_s else
                               'size read, Skip(size)'), function=ir.fn_label(f))
        if 'TR' in want:
            seen = set()
            for f in sorted(entry_fns(fns, 'reader'), key=lambda g: 0 if 'nop::BufferReader' in ' '.join(g.get('targs') or []) else 1):
                info = entry_info(f['params'][0]['t'])
                key = f['params'][0]['t']
                if info is None or key in seen or not info[2]:
                    continue
                seen.add(key)
                where = facts.site(f) + ' <%s id %d>' % (short, info[1])
                paths = symx.paths_of(db, f, inline_helpers(f))
                why = []
                dups = [p for p in paths if encrules.err_of(p) == 'DuplicateTableEntry']
                if len(dups) != 1 or [e for e in dups[0].events if e.kind == 'call' and e.name not in ('empty', 'operator bool')]:
                    why.append('a non-empty entry is not rejected with DuplicateTableEntry before anything is read')
                elif not any('.empty()' in repr(c) and s2 is False or ('operator bool' in repr(c) and s2 is True) for c, s2 in dups[0].conds):
                    why.append('DuplicateTableEntry is not conditioned on the entry already holding a value')
                succ = [p for p in paths if encrules.is_success(p)]
                for p in succ:
                    ev = [e for e in p.events if e.kind == 'call' and e.name not in ('empty', 'operator bool', 'get')]
                    norm = ['ctor' if e.name.startswith('ctor:nop::BoundedReader') else ('assign' if e.name == 'operator=' else
                            ('tmp' if e.name.startswith('ctor:') else e.name)) for e in ev]
                    norm = [n for n in norm if n != 'tmp']
                    ev = [e for e in ev if not (e.name.startswith('ctor:') and not e.name.startswith('ctor:nop::BoundedReader'))]
                    if norm == ['Read', 'assign', 'ctor', 'Read', 'ReadPadding']:
                        r_sz, asg, frame, r_val, pad = ev           # re-seat, then decode into the entry's value
                        states = (None,)
                    elif norm == ['Read', 'ctor', 'Read', 'assign', 'ReadPadding']:
                        r_sz, frame, r_val, asg, pad = ev           # decode into a local, then commit it to the entry
                        states = ('empty', 'value')
                        dst = repr(r_val.args[0])
                        committed = repr(asg.args[1:])
                        if not dst.startswith('&l:') or not (dst[1:] in committed or 'd:%s#%d' % (dst[3:], p.events.index(r_val)) in committed):
                            why.append('the value is decoded into %s but %s is committed to the entry' % (dst, [repr(a) for a in asg.args[1:]]))
                    else:
                        why.append('sequence is %s, expected size, re-seat, frame, value, padding (or size, frame, value into a local, commit, padding)' % norm)
                        continue
                    szsym = encrules.len_atom(('ENC', None, None, None, None, r_sz))
                    if encrules.enc_type(r_sz) != 'unsigned long' or szsym is None:
                        why.append('entry size not decoded as SizeType')
                    elif len(frame.args) != 2 or repr(frame.args[1]) != repr(szsym):
                        why.append('frame limit %s is not the decoded size' % [repr(a) for a in frame.args])
                    if not is_bounded(r_val.expr['args'][1]):
                        why.append('value is not read through the bounded reader')
                    try:
                        from . import absx
                        for st in states:
                            still_empty, probs = reseat_leaves_value(db, f, asg.expr, st)
                            if still_empty != 0:
                                why.append('the assignment to the entry leaves it EMPTY for this value type%s (resolved overload %s): the entry reads back '
                                           'empty although it was present in the encoding' % (' when the decoded value is an empty wrapper' if st == 'empty' else '',
                                                                                          ir.fn_label(db.callee(f, asg.expr))[:80]))
                            elif probs:
                                why.append('re-seating: %s' % '; '.join('%s [%s]' % pr for pr in probs[:2]))
                    except absx.Unsupported as e:
                        chk.unanalysable(R('TR'), where, 're-seating assignment cannot be executed abstractly: %s' % e)
                    if not (isinstance(p.ret, StatusVal) and p.ret.kind == 'call' and p.events[p.ret.arg] is pad):
                        why.append('ReadPadding status is not what is returned')
                chk.decide(not why, R('TR'), where, 'ReadEntry<%s id %d>: %s' % (short, info[1], '; '.join(sorted(set(why))) if why else
                           'duplicate check, size, re-seat, frame(size), value, padding'), function=ir.fn_label(f))
        if 'TS' in want:
            seen = set()
            for f in [g for g in entry_fns(fns, 'reader') if (entry_info(g['params'][0]['t']) or (0, 0, True))[2] is False]:
                key = (f['file'], f['pat']['l'], f['params'][0]['t'])
                if key in seen:
                    continue
                seen.add(key)
                info = entry_info(f['params'][0]['t'])
                where = facts.site(f) + ' <%s id %d deleted>' % (short, info[1])
                paths = symx.paths_of(db, f, inline_helpers(f))
                why = []
                succ = [p for p in paths if encrules.is_success(p)]
                for p in succ:
                    ev = [e for e in p.events if e.kind == 'call']
                    if [e.name for e in ev] != ['Read', 'Skip']:
                        why.append('sequence %s, expected size then Skip' % [e.name for e in ev])
                        continue
                    szsym = encrules.len_atom(('ENC', None, None, None, None, ev[0]))
                    if encrules.enc_type(ev[0]) != 'unsigned long' or szsym is None or repr(ev[1].args[0]) != repr(szsym):
                        why.append('Skip(%r) is not the decoded entry size' % (ev[1].args[0],))
                    if not (isinstance(p.ret, StatusVal) and p.ret.kind == 'call' and p.events[p.ret.arg] is ev[1]):
                        why.append('Skip status is not what is returned')
                if not succ:
                    why.append('no successful path')
                chk.decide(not why, R('TS'), where, 'deleted entry <%s id %d>: %s' % (short, info[1], '; '.join(sorted(set(why))) if why else 'size read, Skip(size), status returned'),
                           function=ir.fn_label(f))


def entry_size(chk, db, rule):
    rules(chk, db, {'TE'}, prefix='')
    # TE registered under its own id; alias for the caller's rule name
    if rule != 'TE':
        chk.rules[rule] = chk.rules.pop('TE')
        chk.counts[rule] = chk.counts.pop('TE')
        chk.obs = [((rule,) + ob[1:]) if ob[0] == 'TE' else ob for ob in chk.obs]
