"""Integer-layer rules shared by C01 / C03 / C04 / C06."""
import re

from . import facts, il, ir, symx
from .spec import format_spec as fs

INT_TYPES = ['char', 'unsigned char', 'signed char', 'unsigned short', 'short', 'unsigned int', 'int', 'unsigned long', 'long']
BITS = {'char': 8, 'unsigned char': 8, 'signed char': 8, 'unsigned short': 16, 'short': 16, 'unsigned int': 32, 'int': 32,
        'unsigned long': 64, 'long': 64}
SIGNED = {'signed char', 'short', 'int', 'long'}     # plain char is encoded through its unsigned view


def doc_table(chk, rule):
    try:
        return fs.parse_prefix_table(facts.REPO)
    except Exception as e:
        chk.unanalysable(rule, 'docs/format.md', 'prefix table does not parse: %s' % e)
        return None, None


def enum_values(db):
    for q, e in db.enums.items():
        if q.endswith('nop::EncodingByte') or q == 'nop::EncodingByte':
            return e, {x['n']: int(x['v']) for x in e['enumerators']}
    return None, {}


def enum_table(chk, db, rule):
    table, _ = doc_table(chk, rule)
    e, vals = enum_values(db)
    if table is None:
        return
    if e is None:
        chk.unanalysable(rule, 'nop/base/encoding_byte.h', 'enum EncodingByte not found')
        return
    where = '%s:%d' % (e['file'], e['loc']['l'])
    for name, (label, end) in sorted(fs.ENUM_TO_LABEL.items()):
        if name not in vals:
            chk.bad(rule, where + ' ' + name, 'enumerator EncodingByte::%s is missing' % name, function=name)
            continue
        lo, hi = table[label]
        want = lo if end == 'lo' else hi
        chk.decide(vals[name] == want, rule, where + ' ' + name,
                   'EncodingByte::%s = 0x%02x, docs/format.md says %s = 0x%02x' % (name, vals[name], label, want), function=name)
    for name in sorted(set(vals) - set(fs.ENUM_TO_LABEL)):
        chk.bad(rule, where + ' ' + name, 'enumerator EncodingByte::%s (0x%02x) is not in the documented prefix table' % (name, vals[name]),
                function=name)


def int_encoders(db):
    """{type: {'Prefix': fn, 'Match': fn, 'Size': fn, 'WritePayload': [fn], 'ReadPayload': [fn]}}"""
    out = {}
    for f in db.fns:
        if f.get('rect') != 'nop::Encoding' or f['file'] != 'nop/base/encoding.h' or 'body' not in f:
            continue
        t = f['recargs'][0]
        if t not in INT_TYPES:
            continue
        d = out.setdefault(t, {})
        if f['n'] in ('Prefix', 'Match', 'Size'):
            d.setdefault(f['n'], f)
        elif f['n'] in ('WritePayload', 'ReadPayload'):
            d.setdefault(f['n'], []).append(f)
    return out


def label_of(b, table):
    for lab in ('U8', 'U16', 'U32', 'U64', 'I8', 'I16', 'I32', 'I64', 'F32', 'F64', 'TAB', 'ERR', 'HND', 'VAR', 'STU', 'ARY', 'MAP',
                'BIN', 'STR', 'NIL', 'EXT', 'RESERVED', 'POS', 'NEG'):
        lo, hi = table[lab]
        if lo <= b <= hi:
            return lab
    return '?'


def view(t, v):
    return v % 256 if t == 'char' else v


def prefix_minimal(chk, db, rule):
    table, _ = doc_table(chk, rule)
    if table is None:
        return
    encs = int_encoders(db)
    for t in INT_TYPES:
        fn = encs.get(t, {}).get('Prefix')
        if fn is None:
            chk.unanalysable(rule, 'nop/base/encoding.h', 'no instance of Encoding<%s>::Prefix' % t)
            continue
        where = facts.site(fn) + ' <%s>' % t
        p = fn['params'][0]
        try:
            pts = il.cut_points(db, fn, p['id'], t)
            bad = []
            ncell = 0
            for a, b in il.cells(pts):
                ncell += 1
                ra, rb = il.run(db, fn, [a]), il.run(db, fn, [b])
                for v, r in ((a, ra), (b, rb)):
                    sv = view(t, v)
                    want = fs.minimal_class(sv, t in SIGNED)
                    if want in ('POS', 'NEG'):
                        ok = r == (sv % 256)
                    else:
                        ok = r == table[want][0]
                    if not ok:
                        bad.append('value %d encodes with prefix 0x%02x (%s), minimal class is %s' % (v, r, label_of(r, table), want))
                # inside a cell the function is constant in the comparisons; for fixints the embedded byte varies with
                # the value, so the class label (not the byte) must agree at both ends
                la = label_of(ra, table)
                lb = label_of(rb, table)
                if la != lb and not bad:
                    bad.append('prefix class changes inside the cell [%d, %d] although no constant separates it' % (a, b))
            chk.decide(not bad, rule, where, 'Encoding<%s>::Prefix is minimal on all %d cells of [%d, %d]%s' % (
                t, ncell, il.RANGES[t][0], il.RANGES[t][1], (': ' + '; '.join(bad[:3])) if bad else ''), function=ir.fn_label(fn))
        except il.Unanalysable as e:
            chk.unanalysable(rule, where, 'Encoding<%s>::Prefix is not piecewise constant in the analysable sense: %s' % (t, e))


def match_sets(chk, db, rule):
    table, _ = doc_table(chk, rule)
    if table is None:
        return
    encs = int_encoders(db)
    for t in INT_TYPES:
        fn = encs.get(t, {}).get('Match')
        if fn is None:
            chk.unanalysable(rule, 'nop/base/encoding.h', 'no instance of Encoding<%s>::Match' % t)
            continue
        where = facts.site(fn) + ' <%s>' % t
        want_labels = fs.accepted_labels(BITS[t], t in SIGNED)
        want = set()
        for lab in want_labels:
            lo, hi = table[lab]
            want |= set(range(lo, hi + 1))
        try:
            got = {b for b in range(256) if il.run(db, fn, [b])}
        except il.Unanalysable as e:
            chk.unanalysable(rule, where, 'cannot evaluate Match<%s>: %s' % (t, e))
            continue
        extra = sorted(got - want)
        missing = sorted(want - got)
        chk.decide(not extra and not missing, rule, where,
                   'Encoding<%s>::Match accepts %s%s%s' % (
                       t, '+'.join(want_labels),
                       ('; ALSO accepts ' + ', '.join('0x%02x(%s)' % (b, label_of(b, table)) for b in extra[:6])) if extra else '',
                       ('; REJECTS ' + ', '.join('0x%02x(%s)' % (b, label_of(b, table)) for b in missing[:6])) if missing else ''),
                   function=ir.fn_label(fn))


def _as_of_event(ev):
    callee = ev.callee
    if callee is None or not callee.get('targs'):
        return None
    return callee['targs'][0], (callee['targs'][1] if len(callee['targs']) > 1 else None)


def payload_classes(chk, db, rule_w, rule_r):
    """class -> payload type written / read, per integer encoder (all paths of Write/ReadPayload)"""
    table, _ = doc_table(chk, rule_w or rule_r)
    if table is None:
        return
    encs = int_encoders(db)
    byte_label = {table[l][0]: l for l in fs.CLASS_TYPE}
    for t in INT_TYPES:
        want_labels = [l for l in fs.accepted_labels(BITS[t], t in SIGNED) if l not in ('POS', 'NEG')]
        for kind, rule, asname in (('WritePayload', rule_w, 'WriteAs'), ('ReadPayload', rule_r, 'ReadAs')):
            if rule is None:
                continue
            fns = encs.get(t, {}).get(kind) or []
            if not fns:
                chk.unanalysable(rule, 'nop/base/encoding.h', 'no instance of Encoding<%s>::%s' % (t, kind))
                continue
            fn = fns[0]
            where = facts.site(fn) + ' <%s>' % t
            try:
                paths = symx.paths_of(db, fn, lambda c, e: False)
            except symx.Unsupported as e:
                chk.unanalysable(rule, where, str(e))
                continue
            got = {}
            bad = []
            for p in paths:
                cls = None
                for c, s in p.conds:
                    if isinstance(c, symx.Cmp) and s and c.op == '==':
                        # p:prefix - K == 0
                        k = None
                        for mono, coef in c.p.t.items():
                            if mono == ():
                                k = -coef if c.p.t.get(('p:prefix',), 0) == 1 else coef
                        if k is not None and k in byte_label:
                            cls = byte_label[k]
                ios = [e for e in p.events if e.kind == 'call' and e.name in ('WriteAs', 'ReadAs', 'Write', 'Read')]
                if cls is None:
                    if ios:
                        bad.append('fixint path performs I/O: %s' % p.describe()[:100])
                    continue
                if len(ios) != 1 or ios[0].name != asname:
                    bad.append('class %s: expected one %s, found %s' % (cls, asname, [e.name for e in ios]))
                    continue
                a = _as_of_event(ios[0])
                got[cls] = a[0] if a else None
                if kind == 'ReadPayload' and a and a[1]:
                    frm = a[1]
                    if frm != t:
                        bad.append('class %s converts into %s instead of %s' % (cls, frm, t))
            for lab in want_labels:
                if got.get(lab) != fs.CLASS_TYPE[lab]:
                    bad.append('class %s payload type is %s, documented %s' % (lab, got.get(lab), fs.CLASS_TYPE[lab]))
            for lab in set(got) - set(want_labels):
                bad.append('handles class %s, which %s must not use' % (lab, t))
            chk.decide(not bad, rule, where, 'Encoding<%s>::%s: %s' % (
                t, kind, '; '.join(bad[:4]) if bad else ', '.join('%s->%s' % (l, got[l]) for l in want_labels)), function=ir.fn_label(fn))


def fix_decode(chk, db, rule):
    """the embedded fixint byte decodes to the value whose minimal encoding it is"""
    table, _ = doc_table(chk, rule)
    if table is None:
        return
    encs = int_encoders(db)
    for t in INT_TYPES:
        fns = encs.get(t, {}).get('ReadPayload') or []
        if not fns:
            continue
        fn = fns[0]
        where = facts.site(fn) + ' <%s>' % t
        prefix_id = fn['params'][0]['id']
        value_id = fn['params'][1]['id']
        stores = []
        for y in ir.walk(fn['body']):
            if y.get('k') == 'bin' and y['op'] == '=':
                l = ir.strip(y['l'])
                if l.get('k') == 'un' and l['op'] == '*' and ir.strip(l['e']).get('id') == value_id and il.mentions(y['r'], prefix_id):
                    stores.append(y)
        if len(stores) != 1:
            chk.decide(False, rule, where, 'Encoding<%s>::ReadPayload: expected exactly one `*value = f(prefix)` store, found %d' % (t, len(stores)),
                       function=ir.fn_label(fn))
            continue
        labels = [l for l in fs.accepted_labels(BITS[t], t in SIGNED) if l in ('POS', 'NEG')]
        bad = []
        ev = il.Concrete(db, fn)
        try:
            for lab in labels:
                lo, hi = table[lab]
                for b in range(lo, hi + 1):
                    got = il.wrap(ev.ev(stores[0]['r'], {prefix_id: b}), t)
                    want = b if lab == 'POS' else b - 256
                    if view(t, got) != view(t, want):
                        bad.append('prefix 0x%02x decodes to %d, expected %d' % (b, got, want))
        except il.Unanalysable as e:
            chk.unanalysable(rule, where, 'cannot evaluate fixint decode of %s: %s' % (t, e))
            continue
        chk.decide(not bad, rule, where, 'Encoding<%s>: every fixint byte decodes to the value it embeds%s' % (
            t, (': ' + '; '.join(bad[:3])) if bad else ''), function=ir.fn_label(fn))


def base_size(chk, db, rule):
    table, _ = doc_table(chk, rule)
    if table is None:
        return
    fns = [f for f in db.fns if f['q'] == 'nop::BaseEncodingSize' and 'body' in f]
    if not fns:
        chk.unanalysable(rule, 'nop/base/encoding.h', 'BaseEncodingSize not found')
        return
    fn = fns[0]
    where = facts.site(fn)
    bad = []
    try:
        for b in range(256):
            lab = label_of(b, table)
            got = il.run(db, fn, [b])
            if lab == 'RESERVED':
                continue
            want = 1 + fs.PAYLOAD.get(lab, 0)
            if got != want:
                bad.append('BaseEncodingSize(0x%02x %s) = %d, documented %d' % (b, lab, got, want))
    except il.Unanalysable as e:
        chk.unanalysable(rule, where, str(e))
        return
    chk.decide(not bad, rule, where, 'BaseEncodingSize = 1 + payload width for every non-reserved prefix%s' % (
        (': ' + '; '.join(bad[:4])) if bad else ''), function='nop::BaseEncodingSize')
    # Size(value) of every arithmetic encoder is BaseEncodingSize(Prefix(value))
    encs = int_encoders(db)
    for t in INT_TYPES:
        f = encs.get(t, {}).get('Size')
        if f is None:
            continue
        rets = [y for y in ir.walk(f['body']) if y.get('k') == 'ret']
        ok = False
        if len(rets) == 1:
            e = ir.strip_all_casts(rets[0]['e'])
            if e.get('k') == 'call' and ir.callee_name(e) == 'BaseEncodingSize' and len(e['args']) == 1:
                a = ir.strip_all_casts(e['args'][0])
                if a.get('k') == 'call' and ir.callee_name(a) == 'Prefix' and len(a['args']) == 1 and \
                        ir.strip_all_casts(a['args'][0]).get('id') == f['params'][0]['id']:
                    ok = True
        chk.decide(ok, rule, facts.site(f) + ' <%s>' % t, 'Encoding<%s>::Size(v) is BaseEncodingSize(Prefix(v)): %s' % (t, ok),
                   function=ir.fn_label(f))


def float_bool(chk, db, rule):
    """float / double / bool encoders: prefix, match set, payload type"""
    table, _ = doc_table(chk, rule)
    if table is None:
        return
    want = {'float': ('F32', 'float'), 'double': ('F64', 'double')}
    for t, (lab, as_t) in want.items():
        fns = {}
        for f in db.fns:
            if f.get('rect') == 'nop::Encoding' and f['file'] == 'nop/base/encoding.h' and f.get('recargs', [''])[0] == t and 'body' in f:
                fns.setdefault(f['n'], f)
        if not {'Prefix', 'Match', 'WritePayload', 'ReadPayload'} <= set(fns):
            chk.unanalysable(rule, 'nop/base/encoding.h', 'Encoding<%s> members not all instantiated' % t)
            continue
        bad = []
        try:
            if il.run(db, fns['Prefix'], [0]) != table[lab][0]:
                bad.append('Prefix is not %s' % lab)
            acc = {b for b in range(256) if il.run(db, fns['Match'], [b])}
            if acc != {table[lab][0]}:
                bad.append('Match accepts %s' % sorted(hex(b) for b in acc))
        except il.Unanalysable as e:
            bad.append('cannot evaluate: %s' % e)
        for kind, asname in (('WritePayload', 'WriteAs'), ('ReadPayload', 'ReadAs')):
            ios = [c for c in ir.calls(fns[kind]['body']) if ir.callee_name(c) in ('WriteAs', 'ReadAs', 'Write', 'Read')]
            callee = db.callee(fns[kind], ios[0]) if len(ios) == 1 else None
            if not (callee and callee['n'] == asname and callee.get('targs', [''])[0] == as_t):
                bad.append('%s does not transfer one %s' % (kind, as_t))
        chk.decide(not bad, rule, facts.site(fns['Prefix']) + ' <%s>' % t, 'Encoding<%s>: %s' % (
            t, '; '.join(bad) if bad else '%s prefix, exact match, native %s payload' % (lab, as_t)), function='nop::Encoding<%s>' % t)
    fns = {}
    for f in db.fns:
        if f.get('rect') == 'nop::Encoding' and f['file'] == 'nop/base/encoding.h' and f.get('recargs', [''])[0] == 'bool' and 'body' in f:
            fns.setdefault(f['n'], f)
    if {'Prefix', 'Match'} <= set(fns):
        bad = []
        try:
            if il.run(db, fns['Prefix'], [0]) != table['F'][0] or il.run(db, fns['Prefix'], [1]) != table['T'][0]:
                bad.append('Prefix(false/true) is not F/T')
            acc = {b for b in range(256) if il.run(db, fns['Match'], [b])}
            if acc != {table['F'][0], table['T'][0]}:
                bad.append('Match accepts %s' % sorted(hex(b) for b in acc))
        except il.Unanalysable as e:
            bad.append(str(e))
        chk.decide(not bad, rule, facts.site(fns['Prefix']) + ' <bool>', 'Encoding<bool>: %s' % ('; '.join(bad) if bad else
                   'False=0x00 True=0x01, nothing else accepted'), function='nop::Encoding<bool>')
