"""Fact base: runs the nopx extractor over the selected translation units (cached by
content), loads the per-TU JSON and offers lookups (callee resolution, patterns,
instances, records, enums, statics).

Everything is derived from /repo's *current* working tree on every run: the cache
key of a TU covers every file under /repo/include, /repo/test, /repo/examples, the
probes and the extractor binary, so an edited header always causes re-extraction.
"""
import glob
import hashlib
import json
import os
import subprocess
import sys
import time
from concurrent.futures import ThreadPoolExecutor

VERIF = os.path.dirname(os.path.dirname(os.path.abspath(__file__)))
REPO = os.environ.get('NOPSA_REPO', '/repo')
NOPX = os.path.join(VERIF, '.build', 'nopx')
# extraction cache: for /repo itself under /verif/.cache (pruned to the current tree on every load); for a scratch tree
# (NOPSA_REPO set) under NOPSA_OUT, i.e. inside the scratch directory that its creator removes - a patched tree never
# leaves cache entries behind
if os.environ.get('NOPSA_REPO') and os.environ.get('NOPSA_OUT'):
    CACHE = os.path.join(os.environ['NOPSA_OUT'], '.cache')
else:
    CACHE = os.path.join(VERIF, '.cache')
INCLUDE = os.path.join(REPO, 'include')


class AnalysisBroken(Exception):
    """The analysis cannot be carried out (tool failure, code no longer compiles,
    anchor vanished, uncovered pattern).  Exit status 2; never a pass, never a
    violation."""

    def __init__(self, reason, site=''):
        Exception.__init__(self, reason)
        self.reason = reason
        self.site = site


def _sha(paths):
    h = hashlib.sha256()
    for p in sorted(paths):
        h.update(p.encode())
        try:
            with open(p, 'rb') as f:
                h.update(f.read())
        except OSError:
            h.update(b'<missing>')
    return h.hexdigest()


def _tree(root, exts=('.h', '.cpp', '.md')):
    out = []
    for d, _, fs in os.walk(root):
        for f in fs:
            if f.endswith(exts):
                out.append(os.path.join(d, f))
    return out


def tu_list(tier):
    tus = sorted(glob.glob(os.path.join(VERIF, 'probes', '*.cpp')))
    if tier == 'thorough':
        tus += sorted(glob.glob(os.path.join(REPO, 'test', '*.cpp')))
        tus += sorted(glob.glob(os.path.join(REPO, 'examples', '*.cpp')))
    return tus


def flags(tu):
    fl = ['-std=c++14', '-I' + INCLUDE, '-I' + os.path.join(REPO, 'test'), '-I' + os.path.join(VERIF, 'probes'),
          '-UNDEBUG', '-Wno-everything']
    if tu.startswith(os.path.join(REPO, 'examples')):
        fl.append('-I' + os.path.join(REPO, 'examples'))
    return fl


def ensure_tool():
    src = os.path.join(VERIF, 'tool', 'nopx.cc')
    if not os.path.exists(NOPX) or os.path.getmtime(src) > os.path.getmtime(NOPX):
        r = subprocess.run([os.path.join(VERIF, 'tool', 'build.sh')], stdout=subprocess.PIPE, stderr=subprocess.STDOUT)
        if r.returncode != 0:
            raise AnalysisBroken('cannot build extractor: ' + r.stdout.decode()[-400:], 'tool/nopx.cc')


def _extract_one(tu, key):
    out = os.path.join(CACHE, 'tu', key + '.json')
    if os.path.exists(out):
        return out, True, ''
    os.makedirs(os.path.dirname(out), exist_ok=True)
    tmp = out + '.tmp.%d' % os.getpid()
    cmd = [NOPX, '-o', tmp, tu, '--'] + flags(tu)
    r = subprocess.run(cmd, stdout=subprocess.PIPE, stderr=subprocess.STDOUT)
    log = r.stdout.decode(errors='replace')
    if r.returncode != 0 or not os.path.exists(tmp):
        # clang diagnostics explain why the TU no longer compiles
        r2 = subprocess.run(['clang++', '-fsyntax-only'] + flags(tu) + ['-Wno-everything', tu],
                            stdout=subprocess.PIPE, stderr=subprocess.STDOUT)
        if os.path.exists(tmp):
            os.unlink(tmp)
        first = [l for l in r2.stdout.decode(errors='replace').splitlines() if 'error' in l][:3]
        raise AnalysisBroken('translation unit does not compile: ' + ' | '.join(first or [log[-300:]]), tu)
    os.replace(tmp, out)
    return out, False, log


class DB:
    """All function instances of all analysed TUs."""

    def __init__(self):
        self.tus = []
        self.fns = []          # de-duplicated instances
        self.drivers = []      # bodies of the probe translation units' own functions (resolved calls into the library)
        self.by_q = {}
        self.by_pat = {}       # (relfile, line) -> [fn]
        self.patterns = {}     # (relfile, line) -> qualified name (dependent patterns)
        self.records = {}
        self.enums = {}
        self.statics = []
        self.stats = {}

    def callee(self, fn, call):
        """function instance a call/ctor expression resolves to, or None"""
        c = call.get('callee')
        if not c or 'fid' not in c:
            return None
        return fn['_tu']['F'].get(c['fid'])

    def fn_by_id(self, fn, fid):
        return fn['_tu']['F'].get(fid)

    def instances(self, relfile, name=None, rect=None, pred=None):
        out = []
        for f in self.fns:
            if f['file'] != relfile:
                continue
            if name is not None and f['n'] != name:
                continue
            if rect is not None and f.get('rect') != rect:
                continue
            if pred is not None and not pred(f):
                continue
            out.append(f)
        return out

    def find(self, rect=None, name=None, pred=None):
        out = []
        for f in self.fns:
            if rect is not None and f.get('rect') != rect:
                continue
            if name is not None and f['n'] != name:
                continue
            if pred is not None and not pred(f):
                continue
            out.append(f)
        return out


def relfile(path):
    i = path.find('/include/nop/')
    if i >= 0:
        return path[i + len('/include/'):]
    return path


def site(fn, loc=None):
    l = (loc or {}).get('l') or fn['pat']['l']
    return '%s:%s' % (fn['file'], l)


def load(tier='quick', want_tus=None):
    t0 = time.time()
    ensure_tool()
    tus = want_tus or tu_list(tier)
    base = _sha(_tree(INCLUDE) + _tree(os.path.join(REPO, 'test')) + _tree(os.path.join(REPO, 'examples')) +
                _tree(os.path.join(VERIF, 'probes')) + [NOPX])
    jobs = []
    gen = base[:16]
    for tu in tus:
        key = hashlib.sha256((base + tu + ' '.join(flags(tu))).encode()).hexdigest()[:24]
        jobs.append((tu, os.path.join(gen, key)))
    # keep only the current tree's generation in the cache (a changed tree invalidates everything anyway)
    tu_dir = os.path.join(CACHE, 'tu')
    if os.path.isdir(tu_dir):
        import shutil
        for d_ in os.listdir(tu_dir):
            if d_ != gen:
                shutil.rmtree(os.path.join(tu_dir, d_), ignore_errors=True)
    with ThreadPoolExecutor(max_workers=16) as ex:
        results = list(ex.map(lambda j: _extract_one(*j), jobs))
    db = DB()
    hits = 0
    for (tu, key), (path, hit, log) in zip(jobs, results):
        hits += 1 if hit else 0
        with open(path) as f:
            text = f.read()
        # entities of an unnamed namespace are distinct per translation unit although they print alike
        tag = os.path.splitext(os.path.basename(tu))[0]
        d = json.loads(text.replace('(anonymous namespace)', '(anon:%s)' % tag))
        if d.get('errors'):
            os.unlink(path)
            raise AnalysisBroken('translation unit has compile errors', tu)
        d['path'] = tu
        d['F'] = {}
        files = d['files']
        rel = [relfile(x) for x in files]
        d['rel'] = rel
        for fn in d['functions']:
            fn['_tu'] = d
            fn['file'] = rel[fn['pat']['f']]
            d['F'][fn['fid']] = fn
            key2 = (fn['q'], fn['file'], fn['pat']['l'], tuple(p['t'] for p in fn['params']))
            if key2 in db.by_q:
                continue
            db.by_q[key2] = fn
            db.fns.append(fn)
            db.by_pat.setdefault((fn['file'], fn['pat']['l']), []).append(fn)
        for fn in d.get('drivers', []):
            fn['_tu'] = d
            fn['file'] = rel[fn['pat']['f']]
            db.drivers.append(fn)
        for p in d['patterns']:
            db.patterns[(rel[p['loc']['f']], p['loc']['l'])] = p['q']
        for r in d['records']:
            r['file'] = rel[r['loc']['f']]
            db.records.setdefault(r['q'], r)
        for e in d['enums']:
            e['file'] = rel[e['loc']['f']]
            db.enums.setdefault(e['q'], e)
        for s in d['statics']:
            s['file'] = rel[s['loc']['f']]
            s['tu'] = tu
            db.statics.append(s)
        db.tus.append(d)
    db.stats = {'tus': len(tus), 'cache_hits': hits, 'functions': len(db.fns), 'patterns': len(db.patterns),
                'extract_s': round(time.time() - t0, 2)}
    return db


# Function patterns that cannot have an analysed instance, each with its reason.
EXEMPT_PATTERNS = [
    ('nop/base/encoding.h', 'std::is_same<T, std::size_t>::value && IsUnique',
     'Encoding<size_t> for platforms where size_t is a distinct type from uint32_t/uint64_t: not instantiable on LP64'),
    ('nop/rpc/interface.h', 'nop::InterfaceMethod::Invoke',
     'the return-less Invoke(Sender*, Return*, ...) overload passes Return* where Status<Return>* is required: uninstantiable dead code'),
    ('nop/types/optional.h', 'std::is_trivially_destructible<U>::value, void>::type>::State<',
     'initializer-list in-place constructor of the trivially destructible State: no trivially destructible T is constructible '
     'from an initializer_list in the probes; the non-trivial twin is covered'),
    ('nop/utility/sip_hash.h', 'nop::BlockReader::BlockReader<T>', 'array constructor template: instances are reported at the '
     'class template location'),
]


def uncovered(db, prefixes):
    """dependent function patterns under the given file prefixes without any analysed instance"""
    out = []
    for (file, line), q in sorted(db.patterns.items()):
        if not any(file.startswith(p) for p in prefixes):
            continue
        if (file, line) in db.by_pat:
            continue
        if any(file == f and sub in q for f, sub, _ in EXEMPT_PATTERNS):
            continue
        out.append((file, line, q))
    return out


def patterns_ref():
    try:
        return json.load(open(os.path.join(VERIF, 'nopsa', 'spec', 'patterns_ref.json')))
    except (OSError, ValueError):
        return None


def gate(chk, db, prefixes):
    """coverage gating: a pattern a rule needs but no probe instantiates is analysis-broken, never a silent pass.
    Patterns that are not in the reference inventory (tool/gen_patterns_ref.py) are NEW code that nothing analysed reaches:
    they are listed (NOTE line, evidence) and no claim is made about them, but they do not break the check."""
    miss = uncovered(db, prefixes)
    ref = patterns_ref()
    total = {}
    for (file, line), q in db.patterns.items():
        k = '%s|%s' % (file, q)
        total[k] = total.get(k, 0) + 1
    lost, new = [], []
    for file, line, q in miss:
        k = '%s|%s' % (file, q)
        if ref is not None and total.get(k, 0) > ref.get(k, 0):
            new.append((file, line, q))
        else:
            lost.append((file, line, q))
    for file, line, q in lost:
        chk.unanalysable('coverage', '%s:%d' % (file, line), 'function pattern %s has no analysed instance (extend /verif/probes)' % q[:120])
    if new:
        print('NOTE: property=%s %d new function pattern(s) are not reached by any analysed instantiation; no claim is made about them: %s' % (
            chk.prop, len(new), ', '.join('%s:%d %s' % (f, l, q[:50]) for f, l, q in new[:6])))
    chk.extra['patterns_required'] = sum(1 for (f, l) in db.patterns if any(f.startswith(p) for p in prefixes))
    chk.extra['patterns_uncovered'] = len(lost)
    chk.extra['uncovered_new_patterns'] = ['%s:%d %s' % (f, l, q[:100]) for f, l, q in new]
    return not lost
