"""Abstract execution of member functions of the library's sum types over a finite heap
of *cells* (DESIGN §3 E7: class-invariant typestate).

  scalar cells   hold concrete small values (flags, enum states, indices, error codes, handle values)
  storage cells  (members of unions whose type is an element type) are 'dead' or 'live'
  events         construct (needs dead), destroy (needs live), assign/read (need live) on storage cells,
                 plus calls of functions the rules name (e.g. Policy::Close)

Member functions of tracked classes are interpreted by inlining on the same heap - nested
State/Storage/Union classes, constructor member-initialisers, implicit member destruction,
generic lambdas passed to Visit - so a whole public operation is one abstract transition.
Because all scalars are concrete, every branch is decided; the quantification over run-time
values is replaced by enumerating the finite abstract domain (all reachable object states x
all abstract argument choices).  Nothing of /repo is run: the interpreter walks the IR.
"""
from . import ir

SCALAR_TYPES = {'bool', 'char', 'signed char', 'unsigned char', 'short', 'unsigned short', 'int', 'unsigned int', 'long',
                'unsigned long', 'long long', 'unsigned long long'}


class Unsupported(Exception):
    pass


class Violation(Exception):
    pass


class Ret(Exception):
    def __init__(self, v):
        self.v = v


class Loc:
    """an lvalue: path of a cell / object in the abstract heap"""
    __slots__ = ('path',)

    def __init__(self, path):
        self.path = tuple(path)

    def __repr__(self):
        return 'Loc(%s)' % '.'.join(map(str, self.path))

    def __eq__(self, o):
        return isinstance(o, Loc) and o.path == self.path

    def __hash__(self):
        return hash(self.path)


class Ptr(Loc):
    def __repr__(self):
        return 'Ptr(%s)' % '.'.join(map(str, self.path))


class Elem:
    """an element value (an object of an element type); token identifies its origin"""
    __slots__ = ('token',)

    def __init__(self, token):
        self.token = token

    def __repr__(self):
        return 'Elem(%s)' % (self.token,)


class Closure:
    def __init__(self, expr, frame):
        self.expr, self.frame = expr, frame


class Visitor:
    """an external callable handed to Visit(): every invocation is recorded as a ('visit', argument) event"""


UNKNOWN = None


class World:
    def __init__(self, db):
        self.db = db
        self.cells = {}       # path -> scalar value
        self.storage = {}     # path -> 'dead' | 'live'
        self.types = {}       # path -> record qname for tracked objects
        self.events = []      # (kind, path/info, fn site)
        self.problems = []
        self.overlap = {}     # scalar member of a union -> storage members (element objects) of the same union
        self.counter = 0
        self.steps = 0

    def fresh(self, what='t'):
        self.counter += 1
        return '%s%d' % (what, self.counter)

    def problem(self, msg, site=''):
        self.problems.append((msg, site))

    # ---- object layout -------------------------------------------------
    def record(self, q):
        return self.db.records.get(q)

    def field_kind(self, rec, f):
        """'record' (tracked sub-object), 'storage' (element in a union), 'scalar'"""
        if f.get('rec') and f['rec'] in self.db.records:
            return 'record'
        if f.get('scalar') or f.get('enum'):
            return 'scalar'
        if rec.get('union'):
            return 'storage'       # a member of a union whose type is an element (class) type
        return 'scalar'

    def is_enum(self, t):
        return t in self.db.enums or any(q == t for q in self.db.enums)

    def note_union(self, path, rec):
        """members of one union share their bytes: remember, for each scalar member, the element-storage members it overlaps"""
        if not rec.get('union'):
            return
        scal, stor = [], []
        for f in rec['fields']:
            if not f['n']:
                continue
            p = tuple(path) + (f['n'],)
            k = self.field_kind(rec, f)
            if k == 'scalar':
                scal.append(p)
            elif k == 'storage':
                stor.append(p)
        for p in scal:
            self.overlap.setdefault(p, [])
            self.overlap[p] = sorted(set(self.overlap[p]) | set(stor))

    def declare(self, path, recq):
        """register an object of tracked record type at path with all storage dead and scalars unset"""
        rec = self.record(recq)
        if rec is None:
            raise Unsupported('record %s not in the fact base' % recq)
        self.types[tuple(path)] = recq
        self.note_union(path, rec)
        for f in rec['fields']:
            p = tuple(path) + ((f['n'],) if f['n'] else ())
            kind = self.field_kind(rec, f)
            if kind == 'record':
                self.declare(p if f['n'] else tuple(path) + ('',), f['rec']) if f['n'] else self.declare_anon(path, f['rec'])
            elif kind == 'storage':
                self.storage.setdefault(p, 'dead')
        for b in rec.get('bases', []):
            if b in self.db.records:
                self.declare_anon(path, b)

    def declare_anon(self, path, recq):
        """anonymous union/struct members and base classes share the enclosing object's path"""
        rec = self.record(recq)
        if rec is None:
            return
        self.note_union(path, rec)
        for f in rec['fields']:
            p = tuple(path) + ((f['n'],) if f['n'] else ())
            kind = self.field_kind(rec, f)
            if kind == 'record':
                if f['n']:
                    self.declare(p, f['rec'])
                else:
                    self.declare_anon(path, f['rec'])
            elif kind == 'storage':
                self.storage.setdefault(p, 'dead')
        for b in rec.get('bases', []):
            if b in self.db.records:
                self.declare_anon(path, b)

    def find_field(self, recq, name, depth=0):
        """(kind, field record qname, field) of member `name` of record recq, looking through anonymous members and bases"""
        rec = self.record(recq)
        if rec is None or depth > 6:
            return None
        for f in rec['fields']:
            if f['n'] == name:
                return self.field_kind(rec, f), f.get('rec'), f
            if not f['n'] and f.get('rec'):
                r = self.find_field(f['rec'], name, depth + 1)
                if r:
                    return r
        for b in rec.get('bases', []):
            r = self.find_field(b, name, depth + 1)
            if r:
                return r
        return None

    def snapshot(self, root):
        cells = tuple(sorted((p[1:], v) for p, v in self.cells.items() if p and p[0] == root and isinstance(v, (int, str, bool, type(None)))))
        live = tuple(sorted(p[1:] for p, v in self.storage.items() if p and p[0] == root and v == 'live'))
        return cells, live

    def restore(self, root, snap, recq):
        for p in [p for p in self.cells if p and p[0] == root]:
            del self.cells[p]
        for p in [p for p in self.storage if p and p[0] == root]:
            del self.storage[p]
        for p in [p for p in self.types if p and p[0] == root]:
            del self.types[p]
        self.declare((root,), recq)
        cells, live = snap
        for p, v in cells:
            self.cells[(root,) + p] = v
        for p in live:
            self.storage[(root,) + p] = 'live'


class Frame:
    def __init__(self, fn, this=None, closure=None):
        self.fn = fn
        self.this = this          # path tuple
        self.env = {}
        self.closure = closure    # enclosing frame for lambda bodies


class Interp:
    def __init__(self, world, hooks=None, ordering_check=None):
        self.w = world
        self.db = world.db
        self.hooks = hooks or {}
        self.depth = 0
        self.ordering_check = ordering_check   # callback(world, frame, path) at every construct event

    # ---------------------------------------------------------------- helpers
    def site(self, fr, e=None):
        l = (e or {}).get('loc') or {}
        return '%s:%s' % (fr.fn['file'], l.get('l') or fr.fn['pat']['l'])

    def type_of_path(self, path):
        return self.w.types.get(tuple(path))

    def kind_of_path(self, path):
        path = tuple(path)
        if path in self.w.types:
            return 'record'
        if path in self.w.storage:
            return 'storage'
        return 'scalar'

    def read(self, v, fr, e=None):
        """rvalue of an evaluated expression"""
        if isinstance(v, Ptr):
            return v
        if isinstance(v, Loc):
            k = self.kind_of_path(v.path)
            if k == 'scalar':
                for sib in self.w.overlap.get(tuple(v.path), ()):
                    if self.w.storage.get(sib) == 'live':
                        self.w.problem('read of union member `%s` while member `%s` of the same union holds the live object' % (
                            '.'.join(map(str, v.path)), '.'.join(map(str, sib))), self.site(fr, e) if fr is not None else '')
                return self.w.cells.get(v.path, UNKNOWN)
            return v
        return v

    def use_storage(self, path, fr, e, what):
        if self.w.storage.get(tuple(path)) != 'live':
            self.w.problem('%s of storage `%s` while it holds no live object' % (what, '.'.join(map(str, path))), self.site(fr, e))

    def construct(self, path, fr, e, args):
        path = tuple(path)
        for a in args:
            if isinstance(a, Loc) and not isinstance(a, Ptr) and self.kind_of_path(a.path) == 'storage':
                self.use_storage(a.path, fr, e, 'read (constructor argument)')
        if self.w.storage.get(path) == 'live':
            self.w.problem('object constructed in storage `%s` that already holds a live object (leak / double construction)' % '.'.join(map(str, path)),
                           self.site(fr, e))
        if self.ordering_check is not None:
            self.ordering_check(self.w, fr, path, self.site(fr, e))
        self.w.storage[path] = 'live'
        self.w.events.append(('construct', path, self.site(fr, e)))

    def destroy(self, path, fr, e):
        path = tuple(path)
        if self.w.storage.get(path) != 'live':
            self.w.problem('destructor run on storage `%s` that holds no live object (double destruction)' % '.'.join(map(str, path)), self.site(fr, e))
        self.w.storage[path] = 'dead'
        self.w.events.append(('destroy', path, self.site(fr, e)))

    # ---------------------------------------------------------------- expressions
    def lv(self, e, fr):
        """evaluate to a Loc when the expression denotes a tracked location, else to a value"""
        return self.ev(e, fr)

    def ev(self, e, fr):
        self.w.steps += 1
        if self.w.steps > 200000:
            raise Unsupported('step limit')
        if e is None:
            return UNKNOWN
        k = e['k']
        if k in ('int', 'bool'):
            return int(e['cv'])
        if k == 'null':
            return 0
        if k == 'ref':
            dk = e.get('dk')
            if dk in ('local', 'param'):
                f = fr
                while f is not None:
                    if e['id'] in f.env:
                        return f.env[e['id']]
                    f = f.closure
                if 'cv' in e:
                    return int(e['cv'])
                return UNKNOWN
            if 'cv' in e:
                return int(e['cv'])
            return UNKNOWN
        if k == 'this':
            f = fr
            while f is not None and f.this is None:
                f = f.closure
            return Ptr(f.this) if f is not None else UNKNOWN
        if k == 'mem':
            b = self.ev(e['b'], fr)
            if isinstance(b, Ptr) and not e.get('arrow'):
                b = Loc(b.path)
            if isinstance(b, (Loc, Ptr)):
                if not e['n']:
                    return Loc(b.path)          # anonymous union / struct
                return Loc(b.path + (e['n'],))
            if 'cv' in e:
                return int(e['cv'])
            return UNKNOWN
        if k in ('icast', 'cast'):
            v = self.ev(e['e'], fr)
            ck = e['ck']
            if v is UNKNOWN and 'cv' in e and ck in ('NoOp', 'IntegralCast'):
                return int(e['cv'])      # a constant the compiler folded (e.g. value-initialised scalar `T{}`)
            if ck == 'LValueToRValue':
                return self.read(v, fr, e)
            if ck in ('IntegralToBoolean', 'PointerToBoolean'):
                v = self.read(v, fr, e)
                if isinstance(v, Ptr):
                    return 1
                return UNKNOWN if v is UNKNOWN else int(bool(v))
            if ck == 'IntegralCast':
                v = self.read(v, fr, e)
                return v
            if ck == 'UserDefinedConversion':
                return v
            return v
        if k == 'un':
            op = e['op']
            if op == '&':
                v = self.ev(e['e'], fr)
                return Ptr(v.path) if isinstance(v, Loc) else UNKNOWN
            if op == '*':
                v = self.read(self.ev(e['e'], fr), fr, e)
                return Loc(v.path) if isinstance(v, (Ptr, Loc)) else UNKNOWN
            v = self.read(self.ev(e['e'], fr), fr, e)
            if op == '!':
                return UNKNOWN if v is UNKNOWN else int(not v)
            if op == '-':
                return UNKNOWN if v is UNKNOWN else -v
            if op in ('++', '--'):
                tgt = self.ev(e['e'], fr)
                if isinstance(tgt, Loc) and isinstance(v, int):
                    nv = v + (1 if op == '++' else -1)
                    self.w.cells[tgt.path] = nv
                    return v if e.get('post') else nv
                return UNKNOWN
            return UNKNOWN
        if k == 'bin':
            return self.binop(e, fr)
        if k == 'cond':
            c = self.read(self.ev(e['c'], fr), fr, e)
            if c is UNKNOWN:
                raise Unsupported('unknown condition in ?:')
            return self.ev(e['a'] if c else e['b'], fr)
        if k == 'call':
            return self.call(e, fr)
        if k == 'ctor':
            return self.ctor_expr(e, fr, None)
        if k == 'new':
            return self.new_expr(e, fr)
        if k == 'pdtor':
            v = self.ev(e['b'], fr)
            if isinstance(v, Loc) and self.kind_of_path(v.path) == 'storage':
                self.destroy(v.path, fr, e)
            return UNKNOWN
        if k == 'lambda':
            return Closure(e, fr)
        if k == 'ilist':
            if len(e['el']) == 1:
                return self.ev(e['el'][0], fr)
            for x in e['el']:
                self.ev(x, fr)
            return UNKNOWN
        if k in ('zero', 'sizeof', 'str', 'float'):
            return int(e['cv']) if 'cv' in e else (0 if k == 'zero' else UNKNOWN)
        if k == 'idx':
            self.ev(e['b'], fr)
            self.ev(e['i'], fr)
            return UNKNOWN
        if k in ('throw', 'delete', 'unknown', 'inhctor'):
            return UNKNOWN
        raise Unsupported('expression kind ' + k)

    def binop(self, e, fr):
        op = e['op']
        if op == '=':
            tgt = self.ev(e['l'], fr)
            val = self.ev(e['r'], fr)
            return self.assign(tgt, val, fr, e)
        if op in ('&&', '||'):
            l = self.read(self.ev(e['l'], fr), fr, e)
            if l is UNKNOWN:
                raise Unsupported('unknown operand of ' + op)
            if op == '&&' and not l:
                return 0
            if op == '||' and l:
                return 1
            r = self.read(self.ev(e['r'], fr), fr, e)
            if r is UNKNOWN:
                raise Unsupported('unknown operand of ' + op)
            return int(bool(r))
        if op == ',':
            self.ev(e['l'], fr)
            return self.ev(e['r'], fr)
        if op in ('+=', '-=', '|=', '&=', '^='):
            tgt = self.ev(e['l'], fr)
            cur = self.read(tgt, fr, e)
            r = self.read(self.ev(e['r'], fr), fr, e)
            if isinstance(tgt, Loc) and isinstance(cur, int) and isinstance(r, int):
                v = {'+=': cur + r, '-=': cur - r, '|=': cur | r, '&=': cur & r, '^=': cur ^ r}[op]
                self.w.cells[tgt.path] = v
                return v
            return UNKNOWN
        l = self.read(self.ev(e['l'], fr), fr, e)
        r = self.read(self.ev(e['r'], fr), fr, e)
        if op in ('==', '!='):
            if isinstance(l, (Ptr, Loc)) and isinstance(r, (Ptr, Loc)):
                eq = l.path == r.path
            elif isinstance(l, (Ptr, Loc)) or isinstance(r, (Ptr, Loc)):
                eq = False if (l == 0 or r == 0) else None
                if eq is None:
                    return UNKNOWN
            elif l is UNKNOWN or r is UNKNOWN:
                return UNKNOWN
            else:
                eq = l == r
            return int(eq if op == '==' else not eq)
        if l is UNKNOWN or r is UNKNOWN or not isinstance(l, int) or not isinstance(r, int):
            return UNKNOWN
        import operator
        ops = {'<': operator.lt, '<=': operator.le, '>': operator.gt, '>=': operator.ge, '+': operator.add, '-': operator.sub,
               '*': operator.mul, '&': operator.and_, '|': operator.or_, '^': operator.xor, '<<': operator.lshift, '>>': operator.rshift}
        if op in ops:
            return int(ops[op](l, r))
        return UNKNOWN

    def assign(self, tgt, val, fr, e):
        if isinstance(tgt, Loc) and not isinstance(tgt, Ptr):
            k = self.kind_of_path(tgt.path)
            if k == 'storage':
                self.use_storage(tgt.path, fr, e, 'assignment')
                if isinstance(val, Loc) and self.kind_of_path(val.path) == 'storage':
                    self.use_storage(val.path, fr, e, 'read (assigned from)')
                self.w.events.append(('assign', tgt.path, self.site(fr, e)))
                return tgt
            if k == 'scalar':
                v = self.read(val, fr, e)
                for sib in self.w.overlap.get(tuple(tgt.path), ()):
                    if self.w.storage.get(sib) == 'live':
                        self.w.problem('store to union member `%s` while member `%s` of the same union holds a live object (its bytes are overwritten)' % (
                            '.'.join(map(str, tgt.path)), '.'.join(map(str, sib))), self.site(fr, e))
                self.w.cells[tgt.path] = v
                return tgt
            # record assignment through a defaulted operator: memberwise
            if isinstance(val, Loc):
                self.memberwise(tgt.path, val.path, fr, e, construct=False)
            return tgt
        return UNKNOWN

    def memberwise(self, dst, src, fr, e, construct):
        recq = self.type_of_path(dst) or self.type_of_path(src)
        if recq is None:
            return
        pre = len(src)
        for p in list(self.w.cells):
            if p[:pre] == tuple(src) and len(p) > pre:
                self.w.cells[tuple(dst) + p[pre:]] = self.w.cells[p]
        for p, v in list(self.w.storage.items()):
            if p[:pre] == tuple(src) and len(p) > pre:
                d = tuple(dst) + p[pre:]
                if v == 'live':
                    if construct or self.w.storage.get(d) != 'live':
                        self.construct(d, fr, e, [Loc(p)])
                    else:
                        self.assign(Loc(d), Loc(p), fr, e)

    # ---------------------------------------------------------------- calls
    def callee_fn(self, fr, e):
        f = fr
        return self.db.callee(fr.fn, e)

    def call(self, e, fr):
        cal = e.get('callee') or {}
        name = cal.get('n', '')
        q = cal.get('q', '')
        if q.startswith('std::') and name in ('move', 'forward', 'addressof') and len(e['args']) == 1:
            v = self.ev(e['args'][0], fr)
            if name == 'addressof':
                return Ptr(v.path) if isinstance(v, Loc) else UNKNOWN
            return v
        hook = self.hooks.get(name)
        obj = None
        if 'obj' in e:
            obj = self.ev(e['obj'], fr)
            if isinstance(obj, Ptr) and e.get('arrow'):
                obj = Loc(obj.path)
            elif isinstance(obj, Ptr):
                obj = Loc(obj.path)
        if e.get('dtor') and isinstance(obj, Loc):
            k = self.kind_of_path(obj.path)
            if k == 'storage':
                self.destroy(obj.path, fr, e)
                return UNKNOWN
            if k == 'record':
                self.run_dtor(obj.path, fr, e)
                return UNKNOWN
            return UNKNOWN
        if e.get('ck') == 'pdtor':
            fn_ = e.get('fn') or {}
            tgt = self.ev(fn_.get('b'), fr) if fn_.get('k') == 'pdtor' else UNKNOWN
            if isinstance(tgt, Loc) and self.kind_of_path(tgt.path) == 'storage':
                self.destroy(tgt.path, fr, e)
            return UNKNOWN
        if (q.startswith('std::swap') or name == 'swap') and len(e['args']) == 2:
            return self.swap(e['args'][0], e['args'][1], fr, e)
        args = [self.ev(a, fr) for a in e['args']]
        if hook is not None:
            r = hook(self, fr, e, obj, args)
            if r is not NotImplemented:
                return r
        if e.get('ck') == 'op' and name == 'operator()' and args and isinstance(self.read(args[0], fr, e), Visitor):
            self.w.events.append(('visit', args[1] if len(args) > 1 else None, self.site(fr, e)))
            return UNKNOWN
        # closure invocation: op(value)
        if e.get('ck') == 'op' and name == 'operator()' and args and isinstance(self.read(args[0], fr, e), Closure):
            clo = self.read(args[0], fr, e)
            callee = self.callee_fn(fr, e)
            if callee is None or 'body' not in callee:
                raise Unsupported('call of a lambda without an instantiated body')
            return self.run(callee, None, args[1:], fr, e, closure=clo.frame)
        if e.get('ck') == 'op' and name == 'operator=' and len(args) == 2 and isinstance(args[0], Loc):
            k = self.kind_of_path(args[0].path)
            if k == 'storage':
                return self.assign(args[0], args[1], fr, e)
            if k == 'record':
                callee = self.callee_fn(fr, e)
                if callee is not None and 'body' in callee and not callee.get('defaulted'):
                    return self.run(callee, args[0].path, args[1:], fr, e)
                if isinstance(args[1], Loc):
                    self.memberwise(args[0].path, args[1].path, fr, e, construct=False)
                return args[0]
            if k == 'scalar':
                return self.assign(args[0], args[1], fr, e)
        if e.get('ck') == 'op' and name == 'operator=' and len(args) == 2 and isinstance(self.read(args[1], fr, e), Loc) and \
                self.kind_of_path(self.read(args[1], fr, e).path) == 'storage':
            self.use_storage(self.read(args[1], fr, e).path, fr, e, 'read (assigned from)')
            return UNKNOWN
        if q.startswith('std::swap') or name == 'swap':
            if len(args) == 2 and isinstance(args[0], Loc) and isinstance(args[1], Loc):
                a, b = self.w.cells.get(args[0].path), self.w.cells.get(args[1].path)
                self.w.cells[args[0].path], self.w.cells[args[1].path] = b, a
            return UNKNOWN
        if q.startswith('std::exchange') and len(args) == 2 and isinstance(args[0], Loc) and self.kind_of_path(args[0].path) == 'scalar':
            old = self.w.cells.get(args[0].path, UNKNOWN)          # old = a; a = b; return old
            self.w.cells[args[0].path] = self.read(args[1], fr, e)
            return old
        callee = self.callee_fn(fr, e)
        if callee is not None and 'body' in callee and callee['file'].startswith('nop/'):
            this = None
            if isinstance(obj, Loc):
                this = obj.path
            elif obj is not None and not callee.get('static', False) and callee.get('rec'):
                return UNKNOWN         # member call on an untracked object (element type)
            return self.run(callee, this, args, fr, e)
        # external / element-type call: reading live storage arguments
        for a in args:
            if isinstance(a, Loc) and not isinstance(a, Ptr) and self.kind_of_path(a.path) == 'storage':
                self.use_storage(a.path, fr, e, 'read (argument of %s)' % name)
        if isinstance(obj, Loc) and self.kind_of_path(obj.path) == 'storage':
            self.use_storage(obj.path, fr, e, 'member call %s' % name)
        self.w.events.append(('extcall', name, self.site(fr, e), tuple(self.read(a, fr, e) if not isinstance(a, Loc) else a for a in args)))
        return UNKNOWN

    def swap(self, ea, eb, fr, e):
        def access(x):
            x0 = ir.strip_all_casts(x)
            if x0.get('k') == 'ref' and x0.get('dk') in ('local', 'param'):
                f = fr
                while f is not None and x0['id'] not in f.env:
                    f = f.closure
                if f is not None and not isinstance(f.env[x0['id']], Loc):
                    return (lambda: f.env[x0['id']]), (lambda v: f.env.__setitem__(x0['id'], v))
            v = self.ev(x, fr)
            if isinstance(v, Loc):
                return (lambda: self.w.cells.get(v.path)), (lambda nv: self.w.cells.__setitem__(v.path, nv))
            return (lambda: UNKNOWN), (lambda nv: None)
        ga, sa = access(ea)
        gb, sb = access(eb)
        a, b = ga(), gb()
        sa(b)
        sb(a)
        return UNKNOWN

    def ctor_expr(self, e, fr, target):
        """constructor expression; target = path being initialised (member init / placement new) or None for a temporary"""
        t = e.get('t', '')
        args = [self.ev(a, fr) for a in e['args']]
        callee = self.db.callee(fr.fn, e)
        recq = None
        if callee is not None and callee.get('rec') in self.db.records:
            recq = callee['rec']
        if target is not None and self.kind_of_path(target) == 'storage':
            self.construct(target, fr, e, args)
            return Loc(target)
        if recq is None:
            if len(args) == 1 and e.get('copymove'):
                return args[0]
            for a in args:
                if isinstance(a, Loc) and not isinstance(a, Ptr) and self.kind_of_path(a.path) == 'storage':
                    self.use_storage(a.path, fr, e, 'read (constructor argument)')
            return Elem(self.w.fresh('tmp')) if t and t.replace('const ', '') not in SCALAR_TYPES else (args[0] if len(args) == 1 else UNKNOWN)
        if target is None:
            if len(args) == 1 and e.get('copymove') and e.get('elide') and isinstance(args[0], Loc):
                return args[0]
            target = ('tmp', self.w.fresh('obj'))
            self.w.declare(target, recq)
        elif tuple(target) not in self.w.types:
            self.w.declare(target, recq)
        if callee is not None and ('body' in callee or callee.get('inits')) and not (callee.get('defaulted') and 'body' not in callee):
            self.run(callee, tuple(target), args, fr, e)
        elif len(args) == 1 and isinstance(args[0], Loc):
            self.memberwise(tuple(target), args[0].path, fr, e, construct=True)
        return Loc(target)

    def new_expr(self, e, fr):
        if not e.get('place'):
            return UNKNOWN
        tgt = self.read(self.ev(e['place'][0], fr), fr, e)
        init = e.get('init')
        if isinstance(tgt, (Ptr, Loc)):
            path = tgt.path
            if self.kind_of_path(path) == 'storage':
                args = []
                if init is not None:
                    if init['k'] == 'ctor':
                        args = [self.ev(a, fr) for a in init['args']]
                    elif init['k'] == 'ilist':
                        args = [self.ev(a, fr) for a in init['el']]
                    else:
                        args = [self.ev(init, fr)]
                self.construct(path, fr, e, args)
                return Ptr(path)
            if init is not None and init['k'] == 'ctor':
                self.ctor_expr(init, fr, path)
                return Ptr(path)
        elif init is not None:
            self.ev(init, fr)
        return UNKNOWN

    # ---------------------------------------------------------------- function execution
    def run(self, fn, this, args, caller, e=None, closure=None):
        self.depth += 1
        if self.depth > 60:
            raise Unsupported('call depth')
        fr = Frame(fn, this, closure)
        for p, a in zip(fn['params'], args):
            if isinstance(a, Loc) or isinstance(a, Closure) or isinstance(a, Elem):
                fr.env[p['id']] = a
            else:
                fr.env[p['id']] = a
        try:
            if fn.get('ctor'):
                self.run_inits(fn, fr)
            body = fn.get('body')
            rv = UNKNOWN
            if body is not None:
                try:
                    self.stmt(body, fr)
                except Ret as r:
                    rv = r.v
            if fn.get('dtor') and this is not None:
                self.destroy_members(this, fn['rec'], fr, e)
            return rv
        finally:
            self.depth -= 1

    def run_inits(self, fn, fr):
        recq = fn['rec']
        for i in fn.get('inits', []):
            ex = i.get('e')
            if i.get('delegating'):
                if ex is not None and ex['k'] == 'ctor':
                    self.ctor_expr(ex, fr, fr.this)
                continue
            if 'base' in i:
                if ex is not None and ex['k'] in ('ctor',):
                    self.ctor_expr(ex, fr, fr.this)
                elif ex is not None and ex['k'] == 'inhctor':
                    callee = self.db.callee(fn, ex)
                    if callee is not None:
                        # inherited constructor: same parameters forwarded
                        self.run(callee, fr.this, [fr.env.get(p['id']) for p in fn['params']], fr, ex)
                continue
            name = i.get('field')
            if name is None:
                continue
            info = self.w.find_field(recq, name)
            path = tuple(fr.this) + ((name,) if name else ())
            if info is None:
                if ex is not None:
                    self.ev(ex, fr)
                continue
            kind = info[0]
            if kind == 'record':
                if tuple(path) not in self.w.types:
                    self.w.declare(path, info[1])
                x = ex
                while x is not None and x['k'] == 'ilist' and len(x['el']) == 1:
                    x = x['el'][0]
                if x is not None and x['k'] == 'ctor':
                    self.ctor_expr(x, fr, path)
                elif x is not None:
                    v = self.ev(x, fr)
                    if isinstance(v, Loc):
                        self.memberwise(path, v.path, fr, ex, construct=True)
            elif kind == 'storage':
                args = []
                x = ex
                if x is not None and x['k'] == 'ctor':
                    args = [self.ev(a, fr) for a in x['args']]
                elif x is not None and x['k'] == 'ilist':
                    args = [self.ev(a, fr) for a in x['el']]
                elif x is not None:
                    args = [self.ev(x, fr)]
                self.construct(path, fr, ex, args)
            else:
                v = self.read(self.ev(ex, fr), fr, ex) if ex is not None else UNKNOWN
                self.w.cells[path] = v

    def run_dtor(self, path, fr, e):
        recq = self.type_of_path(path)
        if recq is None:
            return
        d = [f for f in self.db.fns if f.get('rec') == recq and f.get('dtor')]
        if d and 'body' in d[0] and not d[0].get('defaulted'):
            self.run(d[0], tuple(path), [], fr, e)
        else:
            self.destroy_members(tuple(path), recq, fr, e)

    def destroy_members(self, path, recq, fr, e):
        """implicit destruction of tracked member sub-objects (reverse declaration order) and bases"""
        rec = self.w.record(recq)
        if rec is None or rec.get('union'):
            return
        for f in reversed(rec['fields']):
            kind = self.w.field_kind(rec, f)
            if kind == 'record' and f['n']:
                sub = self.w.record(f['rec'])
                if sub is not None and not sub.get('union'):
                    self.run_dtor(tuple(path) + (f['n'],), fr, e)
        for b in rec.get('bases', []):
            if b in self.db.records:
                d = [g for g in self.db.fns if g.get('rec') == b and g.get('dtor') and 'body' in g and not g.get('defaulted')]
                if d:
                    self.run(d[0], tuple(path), [], fr, e)
                else:
                    self.destroy_members(path, b, fr, e)

    # ---------------------------------------------------------------- statements
    def stmt(self, s, fr):
        if s is None:
            return
        k = s['k']
        if k == 'block':
            for c in s['body']:
                self.stmt(c, fr)
        elif k == 'decl':
            for v in s['vars']:
                if 'id' not in v:
                    continue
                init = v.get('init')
                if init is None:
                    fr.env[v['id']] = UNKNOWN
                    continue
                t = v.get('t', '')
                if init['k'] == 'ctor':
                    val = self.ctor_expr(init, fr, None)
                else:
                    val = self.ev(init, fr)
                if not t.rstrip().endswith('&') and isinstance(val, Loc) and not isinstance(val, Ptr) and \
                        self.kind_of_path(val.path) == 'scalar':
                    val = self.read(val, fr, init)
                fr.env[v['id']] = val
        elif k == 'expr':
            self.ev(s['e'], fr)
        elif k == 'ret':
            raise Ret(self.ev(s['e'], fr) if s.get('e') is not None else UNKNOWN)
        elif k == 'if':
            c = self.read(self.ev(s['cond'], fr), fr, s)
            if c is UNKNOWN:
                raise Unsupported('branch on an unknown value at %s' % self.site(fr, s))
            if isinstance(c, (Ptr, Loc)):
                c = 1
            if c:
                self.stmt(s['then'], fr)
            elif s.get('else'):
                self.stmt(s['else'], fr)
        elif k == 'null':
            pass
        elif k in ('for', 'while', 'rfor', 'do', 'switch'):
            raise Unsupported('loop/switch in a typestate-analysed function at %s' % self.site(fr, s))
        else:
            raise Unsupported('statement kind ' + k)
