"""Integer layer (IL): interval analysis of the integer encoders (DESIGN §3 E5).

Prefix(value) of an integer encoder is first checked to touch `value` only through
relational comparisons with integer constants (possibly under integral casts) and
through the cast that embeds it in the returned byte.  Such a function is piecewise
constant on the partition of the type's range cut at those constants (and at the
wrap-around points of the casts), so evaluating it - with exact C integer-conversion
semantics - on both ends of every cell decides it for ALL values of the type, not for
samples.  Match is evaluated on all 256 prefix bytes.
"""
import operator

from . import ir

RANGES = {'char': (-128, 127), 'signed char': (-128, 127), 'unsigned char': (0, 255), 'short': (-2 ** 15, 2 ** 15 - 1),
          'unsigned short': (0, 2 ** 16 - 1), 'int': (-2 ** 31, 2 ** 31 - 1), 'unsigned int': (0, 2 ** 32 - 1),
          'long': (-2 ** 63, 2 ** 63 - 1), 'unsigned long': (0, 2 ** 64 - 1), 'bool': (0, 1),
          'long long': (-2 ** 63, 2 ** 63 - 1), 'unsigned long long': (0, 2 ** 64 - 1), 'nop::EncodingByte': (0, 255)}


class Unanalysable(Exception):
    pass


def tn(t):
    return (t or '').replace('const ', '').strip()


def wrap(v, t):
    t = tn(t)
    if t == 'bool':
        return int(v != 0)
    if t not in RANGES:
        raise Unanalysable('cast to ' + t)
    lo, hi = RANGES[t]
    n = hi - lo + 1
    return (v - lo) % n + lo


class Ret(Exception):
    def __init__(self, v):
        self.v = v


class Concrete:
    """concrete evaluation of a small constexpr function instance"""

    def __init__(self, db, fn):
        self.db = db
        self.fn = fn
        self.steps = 0

    def call(self, fn, args):
        env = {p['id']: a for p, a in zip(fn['params'], args)}
        sub = Concrete(self.db, fn)
        try:
            sub.ex(fn['body'], env)
        except Ret as r:
            return r.v
        raise Unanalysable('no return in ' + fn['n'])

    def ev(self, e, env):
        k = e['k']
        if k in ('int', 'bool'):
            return int(e['cv'])
        if k == 'sizeof' and 'cv' in e:
            return int(e['cv'])
        if k == 'ref':
            if e.get('id') in env:
                return env[e['id']]
            if 'cv' in e:
                return int(e['cv'])
            raise Unanalysable('free variable ' + e['n'])
        if k in ('icast', 'cast'):
            v = self.ev(e['e'], env)
            if e['ck'] in ('IntegralCast', 'IntegralToBoolean'):
                return wrap(v, e['to'])
            if e['ck'] in ('NoOp', 'LValueToRValue'):
                return v
            raise Unanalysable('cast kind ' + e['ck'])
        if k == 'un':
            v = self.ev(e['e'], env)
            if e['op'] == '!':
                return int(not v)
            if e['op'] == '-':
                return wrap(-v, e.get('t', 'int'))
            if e['op'] == '~':
                return wrap(~v, e.get('t', 'int'))
            raise Unanalysable('unary ' + e['op'])
        if k == 'bin':
            op = e['op']
            if op == '&&':
                return int(bool(self.ev(e['l'], env)) and bool(self.ev(e['r'], env)))
            if op == '||':
                return int(bool(self.ev(e['l'], env)) or bool(self.ev(e['r'], env)))
            l, r = self.ev(e['l'], env), self.ev(e['r'], env)
            cmp_ops = {'<': operator.lt, '<=': operator.le, '>': operator.gt, '>=': operator.ge, '==': operator.eq,
                       '!=': operator.ne}
            if op in cmp_ops:
                return int(cmp_ops[op](l, r))
            ar = {'+': operator.add, '-': operator.sub, '*': operator.mul, '<<': operator.lshift, '>>': operator.rshift,
                  '&': operator.and_, '|': operator.or_, '^': operator.xor}
            if op in ar:
                return wrap(ar[op](l, r), e.get('t', 'int'))
            raise Unanalysable('operator ' + op)
        if k == 'cond':
            return self.ev(e['a'], env) if self.ev(e['c'], env) else self.ev(e['b'], env)
        if k == 'call':
            callee = self.db.callee(self.fn, e)
            if callee is None or 'body' not in callee:
                raise Unanalysable('call to ' + str((e.get('callee') or {}).get('q')))
            return self.call(callee, [self.ev(a, env) for a in e['args']])
        if k == 'ctor' and len(e['args']) == 1:
            return self.ev(e['args'][0], env)
        raise Unanalysable('expression ' + k)

    def ex(self, s, env):
        self.steps += 1
        if self.steps > 10000:
            raise Unanalysable('step limit')
        k = s['k']
        if k == 'block':
            for c in s['body']:
                self.ex(c, env)
        elif k == 'if':
            if self.ev(s['cond'], env):
                self.ex(s['then'], env)
            elif s.get('else'):
                self.ex(s['else'], env)
        elif k == 'ret':
            raise Ret(self.ev(s['e'], env))
        elif k == 'decl':
            for v in s['vars']:
                if 'id' in v and v.get('init') is not None:
                    env[v['id']] = self.ev(v['init'], env)
        elif k == 'switch':
            v = self.ev(s['cond'], env)
            items = ir.stmt_list(s['body'])
            start = None
            default = None
            for i, c in enumerate(items):
                node = c
                while node['k'] in ('case', 'default'):
                    if node['k'] == 'case' and start is None and self.ev(node['v'], env) == v:
                        start = i
                    if node['k'] == 'default' and default is None:
                        default = i
                    node = node['sub']
            if start is None:
                start = default
            if start is None:
                return
            for c in items[start:]:
                node = c
                while node['k'] in ('case', 'default'):
                    node = node['sub']
                if node['k'] == 'break':
                    return
                self.ex(node, env)
        elif k == 'null':
            pass
        else:
            raise Unanalysable('statement ' + k)


def run(db, fn, args):
    return Concrete(db, fn).call(fn, args)


# ---------------------------------------------------------------------------
# syntactic restriction + partition


def strip_casts(e):
    while e['k'] in ('icast', 'cast'):
        e = e['e']
    return e


def cast_types(e):
    ts = []
    while e['k'] in ('icast', 'cast'):
        ts.append(tn(e['to']))
        e = e['e']
    return ts


def mentions(e, pid):
    return any(y.get('k') == 'ref' and y.get('id') == pid for y in ir.walk(e))


def cut_points(db, fn, pid, ptype, seen=None):
    """constants the parameter is compared against (in the parameter's own value space),
    following calls that forward the parameter unchanged.  Raises Unanalysable when the
    parameter is used in any other way."""
    lo, hi = RANGES[tn(ptype)]
    pts = {lo, hi, 0, -1, 1} & set(range(lo, hi + 1)) if hi - lo < 1000 else {lo, hi}
    pts |= {x for x in (0, -1, 1) if lo <= x <= hi}
    seen = seen or set()

    def visit(e):
        if not isinstance(e, (dict, list)):
            return
        if isinstance(e, list):
            for x in e:
                visit(x)
            return
        k = e.get('k')
        if k == 'bin' and e['op'] in ('<', '<=', '>', '>=', '==', '!='):
            for a, b in ((e['l'], e['r']), (e['r'], e['l'])):
                if mentions(a, pid):
                    if strip_casts(a).get('id') != pid or strip_casts(a).get('k') != 'ref':
                        raise Unanalysable('parameter under an operator inside a comparison')
                    if mentions(b, pid):
                        raise Unanalysable('parameter on both sides of a comparison')
                    c = ir.const_of(b) if 'cv' in b else ir.const_of(strip_casts(b))
                    if c is None:
                        raise Unanalysable('parameter compared with a non-constant')
                    # the comparison happens in the type the parameter was converted to: every
                    # pre-image of c-1, c, c+1 under the cast chain is a cut point
                    for d in (-1, 0, 1):
                        cc = c + d
                        for span in (0, 2 ** 8, -2 ** 8, 2 ** 16, -2 ** 16, 2 ** 32, -2 ** 32, 2 ** 64, -2 ** 64):
                            x = cc + span
                            if lo <= x <= hi:
                                pts.add(x)
                    return
        if k == 'ref' and e.get('id') == pid:
            raise Unanalysable('parameter used outside comparisons / embedding')
        if k in ('icast', 'cast') and strip_casts(e).get('k') == 'ref' and strip_casts(e).get('id') == pid:
            # embedding cast (returned byte) - value flows out only through a cast chain
            return
        if k == 'call' and any(strip_casts(a).get('k') == 'ref' and strip_casts(a).get('id') == pid for a in e.get('args', [])):
            callee = db.callee(fn, e)
            if callee is None or 'body' not in callee:
                raise Unanalysable('parameter passed to an unknown function')
            key = (callee['fid'], id(callee['_tu']))
            for i, a in enumerate(e['args']):
                if strip_casts(a).get('id') == pid:
                    if key not in seen:
                        seen.add(key)
                        sub = cut_points(db, callee, callee['params'][i]['id'], callee['params'][i]['t'], seen)
                        pts.update(x for x in sub if lo <= x <= hi)
                elif mentions(a, pid):
                    raise Unanalysable('parameter inside an argument expression')
            return
        for key_, v in e.items():
            if key_.startswith('_'):
                continue
            visit(v)
    visit(fn['body'])
    # wrap-around points of the casts applied to the parameter
    for b in (7, 8, 15, 16, 31, 32, 63, 64):
        for x in (2 ** b - 1, 2 ** b, -2 ** b, -2 ** b - 1):
            if lo <= x <= hi:
                pts.add(x)
    return sorted(pts)


def cells(points):
    out = []
    for i, x in enumerate(points):
        out.append((x, x))
        if i + 1 < len(points) and points[i + 1] > x + 1:
            out.append((x + 1, points[i + 1] - 1))
    return out
