"""Symbolic path enumeration over the structured IR of one function instance.

Values are integer polynomials over symbols (parameters, fields of `this`, results of
calls), status values (ok / error enumerator / result of call #k) and opaque terms.
Every `if` forks; status tests fork on the result of the originating call; loops are
explored with zero and with one iteration (events inside are marked in_loop).  The
result is a list of paths, each with its conditions, events (calls, stores) and the
returned value - the 'effect summary' the reader/writer, table, RPC and handle rules
compare.  Nothing is executed concretely and no solver is involved: predicates are
compared after normalisation to  poly ⋈ 0.
"""
import re

from . import ir

MAX_PATHS = 4000
PURE = {'size', 'length', 'data', 'begin', 'end', 'cbegin', 'cend', 'capacity', 'remaining', 'index', 'c_str', 'get', 'error',
        'empty', 'has_value', 'has_error', 'operator bool'}



class Unsupported(Exception):
    pass


# --------------------------------------------------------------------------- polynomials
class Poly:
    __slots__ = ('t',)

    def __init__(self, t=None):
        self.t = {k: v for k, v in (t or {}).items() if v != 0}

    @staticmethod
    def const(c):
        return Poly({(): int(c)})

    @staticmethod
    def atom(a):
        return Poly({(a,): 1})

    def is_const(self):
        return all(k == () for k in self.t)

    def const_value(self):
        return self.t.get((), 0)

    def __add__(self, o):
        t = dict(self.t)
        for k, v in o.t.items():
            t[k] = t.get(k, 0) + v
        return Poly(t)

    def __neg__(self):
        return Poly({k: -v for k, v in self.t.items()})

    def __sub__(self, o):
        return self + (-o)

    def __mul__(self, o):
        t = {}
        for k1, v1 in self.t.items():
            for k2, v2 in o.t.items():
                k = tuple(sorted(k1 + k2))
                t[k] = t.get(k, 0) + v1 * v2
        return Poly(t)

    def __eq__(self, o):
        return isinstance(o, Poly) and self.t == o.t

    def __hash__(self):
        return hash(tuple(sorted(self.t.items())))

    def atoms(self):
        s = set()
        for k in self.t:
            s.update(k)
        return s

    def __repr__(self):
        if not self.t:
            return '0'
        parts = []
        for k in sorted(self.t, key=lambda m: (len(m), m)):
            v = self.t[k]
            if k == ():
                parts.append(str(v))
            else:
                m = '*'.join(k)
                parts.append(m if v == 1 else ('-' + m if v == -1 else '%d*%s' % (v, m)))
        return ' + '.join(parts).replace('+ -', '- ')


class Cmp:
    """poly (op) 0 with op in '<', '<=', '==', '!='; keeps the original two sides too"""

    def __init__(self, op, lhs, rhs):
        self.op0, self.lhs, self.rhs = op, lhs, rhs
        # normalise to  p < 0, p <= 0, p == 0, p != 0
        if op in ('>', '>='):
            lhs, rhs = rhs, lhs
            op = '<' if op == '>' else '<='
        self.p = lhs - rhs
        if op == '<':
            # integers:  p < 0  <=>  p + 1 <= 0
            op = '<='
            self.p = self.p + Poly.const(1)
        self.op = op
        if op in ('==', '!='):
            # canonical sign: first monomial positive
            ks = sorted(self.p.t)
            if ks and self.p.t[ks[0]] < 0:
                self.p = -self.p

    def negated(self):
        n = {'<': '>=', '<=': '>', '>': '<=', '>=': '<', '==': '!=', '!=': '=='}[self.op0]
        return Cmp(n, self.lhs, self.rhs)

    def key(self):
        return (self.op, self.p)

    def __repr__(self):
        return '(%r %s %r)' % (self.lhs, self.op0, self.rhs)


class BoolOp:
    def __init__(self, op, args):
        self.op, self.args = op, args   # 'and' | 'or' | 'not'

    def __repr__(self):
        if self.op == 'not':
            return '!%r' % (self.args[0],)
        return '(' + (' && ' if self.op == 'and' else ' || ').join(repr(a) for a in self.args) + ')'


class Opaque:
    def __init__(self, s):
        self.s = s

    def __repr__(self):
        return self.s


class StatusVal:
    """kind: 'ok' | 'err' (name) | 'call' (event index) | 'errof' (event index)"""

    def __init__(self, kind, arg=None):
        self.kind, self.arg = kind, arg

    def __repr__(self):
        if self.kind == 'ok':
            return 'OK'
        if self.kind == 'err':
            return 'ERR(%s)' % self.arg
        if self.kind == 'call':
            return 'status#%d' % self.arg
        return 'error_of(status#%d)' % self.arg


class Event:
    def __init__(self, kind, **kw):
        self.kind = kind        # 'call' | 'store' | 'field' | 'mem'
        self.__dict__.update(kw)
        self.in_loop = False

    def __repr__(self):
        if self.kind == 'call':
            cls = ''
            q = getattr(self, 'q', '') or ''
            if not self.obj and q.startswith('nop::Encoding'):
                cls = q[:q.rfind('::' + self.name)].replace('nop::EncodingIO', 'Enc').replace('nop::Encoding', 'Enc') + '::'
                if len(cls) > 60:
                    cls = cls[:57] + '..::'
            return '%s%s%s(%s)' % ((self.obj + '.') if self.obj else '', cls, self.name, ', '.join(repr(a) for a in self.args))
        if self.kind == 'field':
            return 'this.%s := %r' % (self.field, self.value)
        if self.kind == 'store':
            return '%s := %r' % (self.target, self.value)
        return self.kind


class Path:
    def __init__(self):
        self.conds = []      # (cond object, sense) ; cond is Cmp/Opaque/('status', k)
        self.events = []
        self.ret = None
        self.fields = {}
        self.env = {}
        self.loop_depth = 0
        self.loops_skipped = 0
        self.done = False

    def fork(self):
        p = Path()
        p.conds = list(self.conds)
        p.events = list(self.events)
        p.fields = dict(self.fields)
        p.env = dict(self.env)
        p.loop_depth = self.loop_depth
        p.loops_skipped = self.loops_skipped
        return p

    def status_facts(self):
        return {c[1]: s for c, s in self.conds if isinstance(c, tuple) and c[0] == 'status'}

    def describe(self):
        cs = []
        for c, s in self.conds:
            if isinstance(c, tuple):
                cs.append('%sok(status#%d)' % ('' if s else '!', c[1]))
            else:
                cs.append(('' if s else '!') + repr(c))
        return 'if [%s] do [%s] return %r' % (' && '.join(cs), '; '.join(repr(e) for e in self.events), self.ret)


def as_poly(v):
    if isinstance(v, Poly):
        return v
    if isinstance(v, Opaque):
        return Poly.atom(v.s)
    if isinstance(v, Cmp) or isinstance(v, BoolOp):
        return Poly.atom(repr(v))
    if isinstance(v, StatusVal):
        return Poly.atom(repr(v))
    return Poly.atom(str(v))


# positional parameter roles of the member signatures that the library fixes by contract (Encoding<T> members, the table
# encoder's helpers, the RPC sender/receiver/bindings); parameters beyond the listed positions keep their own names
ENCODING_PARAMS = {
    'WritePayload': ['prefix', 'value', 'writer'], 'ReadPayload': ['prefix', 'value', 'reader'],
    'Write': ['value', 'writer'], 'Read': ['value', 'reader'], 'Prefix': ['value'], 'Match': ['prefix'], 'Size': ['value'],
    'ReadEntries': ['value', 'count', 'reader'], 'ReadEntryForId': ['value', 'id', 'reader'],
    'WriteEntry': ['entry', 'writer'], 'ReadEntry': ['entry', 'reader'], 'SkipEntry': ['reader'],
    'WriteEntries': ['value', 'writer'], 'ClearEntries': ['value'], 'ActiveEntryCount': ['value'],
}
CLASS_PARAMS = {
    ('nop::SimpleMethodSender', 'SendMethod'): ['method_selector', 'return_value', 'args'],
    ('nop::SimpleMethodSender', 'GetReturn'): ['return_status'],
    ('nop::InterfaceBindings', 'operator()'): ['receiver'],
    ('nop::InterfaceBindings', 'DispatchTable'): ['receiver', 'method_selector'],
    ('nop::InterfaceBindings', 'MatchTable'): ['method_selector'],
}


def canonical_params(fn):
    names = None
    rect = fn.get('rect') or ''
    if rect in ('nop::Encoding', 'nop::EncodingIO'):
        names = ENCODING_PARAMS.get(fn['n'])
        if fn['n'] == 'Size' and fn['params'] and 'Entry<' in fn['params'][0].get('t', ''):
            names = ['entry']
    elif (rect, fn['n']) in CLASS_PARAMS:
        names = CLASS_PARAMS[(rect, fn['n'])]
    elif fn['n'] in ('Dispatch', 'Invoke') and 'Helper<' in (fn.get('rec') or ''):
        names = {'Dispatch': ['receiver'], 'Invoke': ['sender', 'return_value']}[fn['n']]
    if not names:
        return {}
    out = {}
    for p, n in zip(fn['params'], names):
        if 'id' in p:
            out[p['id']] = n
    return out


def canonical_fields(db, fn):
    """the RPC sender/receiver hold one serializer and one deserializer: named by their type, not their spelling"""
    if fn.get('rect') not in ('nop::SimpleMethodSender', 'nop::SimpleMethodReceiver'):
        return {}
    out = {}
    for f in db.records.get(fn.get('rec'), {}).get('fields', []):
        t = f['t'].replace('const ', '')
        if t.startswith('nop::Serializer<'):
            out[f['n']] = 'serializer_'
        elif t.startswith('nop::Deserializer<'):
            out[f['n']] = 'deserializer_'
    return out


class Exec:
    def __init__(self, db, fn, inline=None, this_name='this', depth=0, max_depth=12):
        self.db = db
        self.fn = fn
        self.inline = inline or (lambda callee, call: False)
        self.depth = depth
        self.max_depth = max_depth
        self.finished = []
        self.npaths = 0
        # parameters of the analysed (top-level) function are named by their ROLE in the library's fixed member signatures,
        # not by their spelling in the source, so a renamed parameter yields the same atoms
        self.canon = canonical_params(fn) if depth == 0 else {}
        self.fcanon = canonical_fields(db, fn)

    # ---- expressions ------------------------------------------------------
    def ev(self, e, p):
        """evaluate expression e on path p; may append events; returns a value"""
        if e is None:
            return Opaque('void')
        k = e['k']
        if k in ('int', 'bool'):
            return Poly.const(e['cv'])
        if k == 'ref' and e.get('dk') == 'enum' and 'ErrorStatus' in e.get('q', ''):
            return Opaque('enum:' + e.get('q', e['n']))
        if 'cv' in e and k in ('sizeof', 'ref', 'cast', 'icast', 'bin', 'un', 'cond', 'mem', 'call'):
            if k != 'call' or not e.get('callee', {}).get('nop'):
                try:
                    return Poly.const(int(e['cv']))
                except ValueError:
                    pass
        if k == 'ref':
            if e.get('dk') in ('local', 'param'):
                if e['id'] in p.env:
                    return p.env[e['id']]
                if e['dk'] == 'param':
                    return Poly.atom('p:' + self.canon.get(e['id'], e['n']))
                return Poly.atom('l:' + e['n'])
            if e.get('dk') == 'enum':
                return Opaque('enum:' + e.get('q', e['n']))
            return Opaque('ref:' + e.get('q', e['n']))
        if k == 'this':
            return Opaque('this')
        if k == 'mem':
            b = ir.strip(e['b'])
            if b['k'] == 'this' or (b['k'] == 'un' and b['op'] == '*' and ir.strip(b['e'])['k'] == 'this'):
                return p.fields.get(e['n'], Poly.atom('f:' + self.fcanon.get(e['n'], e['n'])))
            base = self.ev(b, p)
            return Opaque('%s.%s' % (self.txt(base), e['n']))
        if k in ('icast', 'cast'):
            v = self.ev(e['e'], p)
            if e['ck'] in ('IntegralCast', 'NoOp', 'LValueToRValue', 'ConstructorConversion', 'UserDefinedConversion',
                           'IntegralToBoolean', 'DerivedToBase', 'UncheckedDerivedToBase', 'BitCast', 'ArrayToPointerDecay',
                           'PointerToBoolean', 'FunctionToPointerDecay', 'NullToPointer', 'ToVoid'):
                return v
            return v
        if k == 'un':
            op = e['op']
            if op == '!':
                v = self.ev(e['e'], p)
                return self.negate(v)
            if op == '-':
                return -as_poly(self.ev(e['e'], p))
            if op == '+':
                return self.ev(e['e'], p)
            if op in ('++', '--'):
                tgt = e['e']
                old = self.ev(tgt, p)
                new = as_poly(old) + Poly.const(1 if op == '++' else -1)
                self.assign(tgt, new, p)
                return old if e.get('post') else new
            if op == '&':
                inner = self.ev(e['e'], p)
                txt = self.txt(inner)
                m = re.match(r'^(.*)\[(.*)\]$', txt)
                if m and isinstance(inner, Opaque):
                    # &base[i] == &base[0] + i   (element units)
                    base = m.group(1).lstrip('*')
                    sub = ir.strip_all_casts(e['e'])
                    idx_e = None
                    if sub.get('k') == 'idx':
                        idx_e = sub['i']
                    elif sub.get('k') == 'call' and sub.get('ck') == 'op' and len(sub.get('args', [])) == 2:
                        idx_e = sub['args'][1]
                    if idx_e is not None:
                        saved = len(p.events)
                        iv = self.ev(idx_e, p)
                        del p.events[saved:]
                        return Poly.atom('&%s[0]' % base) + as_poly(iv)
                return Opaque('&' + txt)
            if op == '*':
                return Opaque('*' + self.txt(self.ev(e['e'], p)))
            return Opaque(op + self.txt(self.ev(e['e'], p)))
        if k == 'bin':
            op = e['op']
            if op == '=':
                v = self.ev(e['r'], p)
                self.assign(e['l'], v, p)
                return v
            if op in ('+=', '-=', '*=', '|=', '&=', '^=', '<<=', '>>=', '/=', '%='):
                cur = self.ev(e['l'], p)
                r = self.ev(e['r'], p)
                if op == '+=':
                    v = as_poly(cur) + as_poly(r)
                elif op == '-=':
                    v = as_poly(cur) - as_poly(r)
                elif op == '*=':
                    v = as_poly(cur) * as_poly(r)
                else:
                    v = Opaque('(%s %s %s)' % (self.txt(cur), op[:-1], self.txt(r)))
                self.assign(e['l'], v, p)
                return v
            if op == ',':
                self.ev(e['l'], p)
                return self.ev(e['r'], p)
            if op in ('&&', '||'):
                l = self.ev(e['l'], p)
                r = self.ev(e['r'], p)
                return BoolOp('and' if op == '&&' else 'or', [l, r])
            l = self.ev(e['l'], p)
            r = self.ev(e['r'], p)
            if op in ('<', '<=', '>', '>=', '==', '!='):
                if isinstance(l, StatusVal) or isinstance(r, StatusVal):
                    return Opaque('(%s %s %s)' % (self.txt(l), op, self.txt(r)))
                return Cmp(op, as_poly(l), as_poly(r))
            if op == '+':
                return as_poly(l) + as_poly(r)
            if op == '-':
                return as_poly(l) - as_poly(r)
            if op == '*':
                return as_poly(l) * as_poly(r)
            return Opaque('(%s %s %s)' % (self.txt(l), op, self.txt(r)))
        if k == 'cond':
            c = self.ev(e['c'], p)
            a = self.ev(e['a'], p)
            b = self.ev(e['b'], p)
            return Opaque('(%s ? %s : %s)' % (self.txt(c), self.txt(a), self.txt(b)))
        if k == 'idx':
            return Opaque('%s[%s]' % (self.txt(self.ev(e['b'], p)), self.txt(self.ev(e['i'], p))))
        if k == 'sizeof':
            return Opaque('sizeof(%s)' % e['of'])
        if k in ('zero',):
            return Poly.const(0)
        if k == 'ilist':
            if not e['el']:
                if is_status(e.get('t')):
                    return StatusVal('ok')
                return Opaque('{}')
            if len(e['el']) == 1:
                return self.ev(e['el'][0], p)
            return Opaque('{' + ', '.join(self.txt(self.ev(x, p)) for x in e['el']) + '}')
        if k == 'ctor':
            return self.ctor(e, p)
        if k == 'call':
            return self.call(e, p)
        if k == 'null':
            return Poly.const(0)
        if k in ('str', 'float', 'lambda', 'new', 'pdtor', 'throw', 'delete', 'inhctor', 'unknown'):
            if k == 'new':
                for a in e.get('place', []):
                    self.ev(a, p)
                if e.get('init'):
                    self.ev(e['init'], p)
                p.events.append(self.mark(Event('call', obj='', name='placement-new', args=[Opaque(e['t'])], loc=e.get('loc'), expr=e), p))
            return Opaque(k)
        raise Unsupported('expression kind ' + k)

    def txt(self, v):
        return repr(v)

    def negate(self, v):
        if isinstance(v, Cmp):
            return v.negated()
        if isinstance(v, BoolOp) and v.op == 'not':
            return v.args[0]
        return BoolOp('not', [v])

    def mark(self, ev, p):
        ev.in_loop = p.loop_depth > 0
        return ev

    def assign(self, tgt, v, p):
        t = ir.strip(tgt)
        if t['k'] == 'ref' and t.get('dk') in ('local', 'param'):
            p.env[t['id']] = v
            return
        if t['k'] == 'mem':
            b = ir.strip(t['b'])
            if b['k'] == 'this':
                p.fields[t['n']] = v
                p.events.append(self.mark(Event('field', field=t['n'], value=v, loc=t.get('loc')), p))
                return
        tv = self.ev(t, p) if t['k'] not in ('ref',) else Opaque(t.get('n', '?'))
        p.events.append(self.mark(Event('store', target=self.txt(tv), value=v), p))

    def ctor(self, e, p):
        t = e.get('t', '')
        args = e['args']
        if is_status(t):
            if not args:
                return StatusVal('ok')
            if len(args) == 1:
                a = self.ev(args[0], p)
                if isinstance(a, StatusVal):
                    return a
                if isinstance(a, Opaque) and a.s.startswith('enum:') and 'ErrorStatus' in a.s:
                    return StatusVal('err', a.s.rsplit('::', 1)[-1])
                return Opaque('Status{%s}' % self.txt(a))
        if len(args) == 1 and e.get('copymove'):
            return self.ev(args[0], p)
        vals = [self.ev(a, p) for a in args]
        callee = self.db.callee(self.fn, e) if self.db else None
        p.events.append(self.mark(Event('call', obj='', name='ctor:' + t, args=vals, loc=e.get('loc'), expr=e, callee=callee), p))
        return Opaque('%s{%s}' % (t, ', '.join(self.txt(v) for v in vals)))

    def call(self, e, p):
        cal = e.get('callee')
        name = cal['n'] if cal else '?'
        obj = None
        objtxt = ''
        if 'obj' in e:
            o = ir.strip(e['obj'])
            if o['k'] == 'this':
                obj = 'this'
            else:
                obj = self.ev(o, p)
            objtxt = obj if obj == 'this' else self.txt(obj)
        # accessors on status values
        if cal and 'obj' in e and isinstance(obj, StatusVal):
            if name in ('operator bool', 'has_value'):
                return ('status-test', obj, True)
            if name == 'has_error':
                return ('status-test', obj, False)
            if name == 'error':
                if obj.kind == 'call':
                    return StatusVal('errof', obj.arg)
                return obj
            if name in ('get', 'take'):
                return Opaque('value_of(%r)' % obj)
        if cal and name == 'operator=' and e.get('ck') == 'op' and len(e['args']) == 2:
            tgt = ir.strip(e['args'][0])
            if tgt.get('k') == 'ref' and tgt.get('dk') in ('local', 'param') and not tgt.get('t', '').endswith('*'):
                v = self.ev(e['args'][1], p)
                if isinstance(v, (StatusVal, Poly)) or is_status(tgt.get('t')):
                    p.env[tgt['id']] = v
                    return v
        args = []
        for a in e['args']:
            a0 = ir.strip_all_casts(a)
            if a0.get('k') == 'un' and a0.get('op') == '&' and ir.strip(a0['e']).get('k') == 'ref' and \
                    ir.strip(a0['e']).get('dk') == 'local':
                args.append(Opaque('&l:' + ir.strip(a0['e'])['n']))     # address of a local: an out-parameter
            else:
                args.append(self.ev(a, p))
        if cal and cal['q'].startswith('std::') and name in ('move', 'forward') and len(args) == 1:
            return args[0]
        callee = self.db.callee(self.fn, e) if self.db else None
        if callee is not None and 'body' in callee and self.depth < self.max_depth and self.inline(callee, e):
            return self.inline_call(callee, e, args, obj, p)
        if cal and name == 'distance' and cal['q'].startswith('std::') and len(args) == 2:
            return as_poly(args[1]) - as_poly(args[0])
        ev = Event('call', obj=objtxt, name=name, args=args, loc=e.get('loc'), expr=e, callee=callee,
                   q=cal['q'] if cal else '', ret=(cal or {}).get('ret', e.get('t')))
        p.events.append(self.mark(ev, p))
        idx = len(p.events) - 1
        # a local whose address is passed to the callee holds a value produced by that call from here on
        ev.outs = {}
        for a in e['args']:
            a0 = ir.strip_all_casts(a)
            if a0.get('k') == 'un' and a0.get('op') == '&':
                t0 = ir.strip(a0['e'])
                if t0.get('k') == 'ref' and t0.get('dk') == 'local':
                    sym = Poly.atom('d:%s#%d' % (t0['n'], idx))
                    p.env[t0['id']] = sym
                    ev.outs[t0['n']] = sym
        ret_t = (cal or {}).get('ret') or e.get('t')
        if is_status(ret_t) and not ret_t.rstrip().endswith('&'):
            return StatusVal('call', idx)
        if name in PURE and objtxt and not args:
            # pure accessor of an object: the same symbol every time it is called
            return Opaque('%s.%s()' % (objtxt, name))
        if name == 'operator[]' and e.get('ck') == 'op' and len(args) == 2:
            return Opaque('%s[%s]' % (self.txt(args[0]).lstrip('*'), self.txt(args[1])))
        if name == 'get' and not objtxt and cal and cal['q'].startswith('std::get') and len(args) == 1:
            m = re.search(r'get<([^>]*)', cal['q'])
            return Opaque('get<%s>(%s)' % (m.group(1) if m else '?', self.txt(args[0])))
        return Opaque('%s%s(%s)#%d' % ((objtxt + '.') if objtxt else '', name, ', '.join(self.txt(a) for a in args), idx))

    def inline_call(self, callee, e, args, obj, p):
        """execute callee on the same path object (same `this` only); forks are merged back as separate paths"""
        sub = Exec(self.db, callee, self.inline, depth=self.depth + 1, max_depth=self.max_depth)
        sp = p.fork()
        saved_env = p.env
        sp.env = {}
        for prm, a in zip(callee['params'], args):
            sp.env[prm['id']] = a
        if obj != 'this' and obj is not None:
            raise Unsupported('inlining a call on another object')
        sub.run_from(sp)
        outs = sub.finished
        if not outs:
            raise Unsupported('inlined callee has no terminating path')
        # continue the *current* path with the first outcome and register forks for the others
        results = []
        for q in outs:
            q.env = dict(saved_env)
            q.done = False
            results.append((q, q.ret))
        self._pending_forks = getattr(self, '_pending_forks', [])
        first, rv = results[0]
        # mutate p in place to become `first`
        p.conds, p.events, p.fields = first.conds, first.events, first.fields
        for q, r in results[1:]:
            self._pending_forks.append((q, r))
        return rv if rv is not None else Opaque('void')

    # ---- statements -------------------------------------------------------
    def run(self):
        p = Path()
        self.run_from(p)
        return self.finished

    def run_from(self, p):
        body = self.fn.get('body')
        # constructor member initialisers
        for i in self.fn.get('inits', []):
            if i.get('field') and i.get('e') is not None:
                try:
                    v = self.ev(i['e'], p)
                except Unsupported:
                    v = Opaque('?')
                p.fields[i['field']] = v
                p.events.append(Event('field', field=i['field'], value=v, loc=None))
        outs = self.stmt(body, [p])
        for q in outs:
            q.ret = None
            q.done = True
            self.finished.append(q)

    def eval_forking(self, e, p):
        """evaluate e on p; returns list of (path, value) accounting for inlined-call forks"""
        self._pending_forks = []
        v = self.ev(e, p)
        out = [(p, v)]
        for q, r in self._pending_forks:
            # the expression value on a forked path is the inlined return value only if the
            # inlined call was the whole expression; otherwise it is opaque
            out.append((q, r if ir.strip(e).get('k') == 'call' else Opaque('?')))
        self._pending_forks = []
        return out

    def branch(self, cond_val, p):
        """returns (true_paths, false_paths)"""
        if isinstance(cond_val, Poly) and cond_val.is_const():
            return ([p], []) if cond_val.const_value() != 0 else ([], [p])
        if isinstance(cond_val, tuple) and cond_val[0] == 'status-test':
            sv, sense = cond_val[1], cond_val[2]
            if sv.kind == 'ok':
                return ([p], []) if sense else ([], [p])
            if sv.kind == 'err':
                return ([], [p]) if sense else ([p], [])
            k = sv.arg
            known = p.status_facts()
            if k in known:
                val = known[k]
                return ([p], []) if val == sense else ([], [p])
            a, b = p, p.fork()
            a.conds.append((('status', k), sense))
            b.conds.append((('status', k), not sense))
            return ([a], [b]) if True else None
        if isinstance(cond_val, BoolOp):
            if cond_val.op == 'not':
                t, f = self.branch(cond_val.args[0], p)
                return f, t
            if cond_val.op == 'and':
                t1, f1 = self.branch(cond_val.args[0], p)
                T, F = [], list(f1)
                for q in t1:
                    t2, f2 = self.branch(cond_val.args[1], q)
                    T += t2
                    F += f2
                return T, F
            if cond_val.op == 'or':
                t1, f1 = self.branch(cond_val.args[0], p)
                T, F = list(t1), []
                for q in f1:
                    t2, f2 = self.branch(cond_val.args[1], q)
                    T += t2
                    F += f2
                return T, F
        if isinstance(cond_val, StatusVal):
            return self.branch(('status-test', cond_val, True), p)
        if isinstance(cond_val, Cmp):
            if cond_val.p.is_const():
                c = cond_val.p.const_value()
                truth = {'<=': c <= 0, '==': c == 0, '!=': c != 0}[cond_val.op]
                return ([p], []) if truth else ([], [p])
            # already decided on this path?
            for c, s in p.conds:
                if isinstance(c, Cmp):
                    if c.key() == cond_val.key():
                        return ([p], []) if s else ([], [p])
                    if c.key() == cond_val.negated().key():
                        return ([], [p]) if s else ([p], [])
        a, b = p, p.fork()
        a.conds.append((cond_val, True))
        b.conds.append((cond_val, False))
        return [a], [b]

    def stmt(self, s, paths):
        """execute s on each live path; returns the list of paths that fall through"""
        if s is None or not paths:
            return paths
        self.npaths = max(self.npaths, len(paths) + len(self.finished))
        if self.npaths > MAX_PATHS:
            raise Unsupported('path explosion')
        k = s['k']
        if k == 'block':
            for c in s['body']:
                paths = self.stmt(c, paths)
            return paths
        if k == 'decl':
            out = []
            for p in paths:
                cur = [p]
                for v in s['vars']:
                    if 'id' not in v:
                        continue      # type alias / using declaration inside the body
                    init = v.get('init')
                    nxt = []
                    for q in cur:
                        if init is None:
                            q.env[v['id']] = Poly.atom('l:' + v.get('n', '?'))
                            nxt.append(q)
                        else:
                            for q2, val in self.eval_forking(init, q):
                                if isinstance(val, tuple):
                                    val = Opaque('bool')
                                q2.env[v['id']] = val
                                nxt.append(q2)
                    cur = nxt
                out += cur
            return out
        if k == 'expr':
            out = []
            for p in paths:
                for q, _ in self.eval_forking(s['e'], p):
                    out.append(q)
            return out
        if k == 'ret':
            # `return c ? a : b;` is the same program as `if (c) return a; else return b;`: fork on the condition so each
            # branch's calls belong to its own path
            e0 = s.get('e')
            e1 = e0
            while isinstance(e1, dict) and e1.get('k') in ('icast', 'cast', 'paren', 'ewc', 'mte', 'bind') and e1.get('e') is not None:
                e1 = e1['e']
            if isinstance(e1, dict) and e1.get('k') == 'cond' and 'cv' not in e1 and ir.const_of(e1['c']) is None:
                as_if = {'k': 'if', 'cond': e1['c'], 'then': {'k': 'ret', 'e': e1['a'], 'loc': s.get('loc')},
                         'else': {'k': 'ret', 'e': e1['b'], 'loc': s.get('loc')}, 'loc': s.get('loc')}
                return self.stmt(as_if, paths)
            for p in paths:
                if s.get('e') is None:
                    p.ret = None
                    p.done = True
                    self.finished.append(p)
                    continue
                for q, v in self.eval_forking(s['e'], p):
                    q.ret = v
                    q.done = True
                    self.finished.append(q)
            return []
        if k == 'if':
            out = []
            for p in paths:
                for q, cv in self.eval_forking(s['cond'], p):
                    T, F = self.branch(cv, q)
                    out += self.stmt(s['then'], T)
                    if s.get('else'):
                        out += self.stmt(s['else'], F)
                    else:
                        out += F
            return out
        if k in ('for', 'while', 'do', 'rfor'):
            if k == 'for' and s.get('init'):
                paths = self.stmt(s['init'], paths)
            out = []
            for p in paths:
                if k == 'rfor':
                    skip, enter = p.fork(), p
                    rng = self.ev(s['range'], enter)
                    skip.conds.append((Opaque('empty(%s)' % self.txt(rng)), True))
                    enter.env[s['var']['id']] = Opaque('elem(%s)' % self.txt(rng))
                    T, F = [enter], [skip]
                elif s.get('cond') is not None and k != 'do':
                    res = self.eval_forking(s['cond'], p)
                    T, F = [], []
                    for q, cv in res:
                        t, f = self.branch(cv, q)
                        T += t
                        F += f
                else:
                    T, F = [p], []
                for q in F:
                    q.loops_skipped += 1
                out += F
                for q in T:
                    q.loop_depth += 1
                frames = getattr(self, '_frames', [])
                frame = {'break': [], 'continue': []}
                frames.append(frame)
                self._frames = frames
                after = self.stmt(s['body'], T)
                frames.pop()
                after += frame['continue']
                if k == 'for' and s.get('inc') is not None:
                    for q in after:
                        self.ev(s['inc'], q)
                for q in after + frame['break']:
                    q.loop_depth -= 1
                # after one iteration the loop is assumed to exit; for a do-while the exit test is an ordinary condition of
                # the paths that leave (the paths that would iterate again are dropped, like `continue` in an endless loop)
                if k == 'do' and s.get('cond') is not None and ir.const_of(s['cond']) != 1:
                    leaving = []
                    for q in after:
                        for q2, cv in self.eval_forking(s['cond'], q):
                            t, f = self.branch(cv, q2)
                            leaving += f
                    after = leaving
                infinite = s.get('cond') is None or ir.const_of(s['cond']) == 1
                if infinite and k in ('for', 'while'):
                    out += frame['break']
                else:
                    out += after + frame['break']
            return out
        if k == 'switch':
            # explore each case label entry point (fallthrough preserved by executing the remainder); the
            # conditions are ordinary comparisons `value == label`, so a switch and an if/else chain over the
            # same value produce the same path conditions
            body = ir.stmt_list(s['body'])
            out = []
            for p in paths:
                cv = self.ev(s['cond'], p)
                labels = []      # (index in body, [label polys] or 'default')
                for i, c in enumerate(body):
                    node = c
                    labs = []
                    is_default = False
                    while node['k'] in ('case', 'default'):
                        if node['k'] == 'case':
                            labs.append(as_poly(self.ev(node['v'], p)))
                        else:
                            is_default = True
                        node = node['sub']
                    if labs or is_default:
                        labels.append((i, labs, is_default))
                all_labels = [l for _, labs, _ in labels for l in labs]
                frames = getattr(self, '_frames', [])
                cvp = as_poly(cv)

                def run_from(i, q):
                    frame = {'break': [], 'continue': None}
                    frames.append(frame)
                    self._frames = frames
                    cur = [q]
                    for c in body[i:]:
                        while c['k'] in ('case', 'default'):
                            c = c['sub']
                        cur = self.stmt(c, cur)
                    frames.pop()
                    return cur + frame['break']
                has_default = False
                for i, labs, is_default in labels:
                    for l in labs:
                        q = p.fork()
                        feasible = True
                        for other in all_labels:
                            if other is l:
                                continue
                        t, f = self.branch(Cmp('==', cvp, l), q)
                        for qq in t:
                            out += run_from(i, qq)
                    if is_default:
                        has_default = True
                        q = p.fork()
                        cur = [q]
                        for l in all_labels:
                            nxt = []
                            for qq in cur:
                                t, f = self.branch(Cmp('==', cvp, l), qq)
                                nxt += f
                            cur = nxt
                        for qq in cur:
                            out += run_from(i, qq)
                if not has_default:
                    cur = [p.fork()]
                    for l in all_labels:
                        nxt = []
                        for qq in cur:
                            t, f = self.branch(Cmp('==', cvp, l), qq)
                            nxt += f
                        cur = nxt
                    out += cur
            return out
        if k in ('break', 'continue'):
            frames = getattr(self, '_frames', [])
            for fr in reversed(frames):
                if fr[k] is not None:
                    fr[k].extend(paths)
                    return []
            return []
        if k == 'null':
            return paths
        if k in ('case', 'default'):
            return self.stmt(s['sub'], paths)
        raise Unsupported('statement kind ' + k)


def is_status(t):
    if not t:
        return False
    t = t.replace('const ', '').strip()
    return t.startswith('nop::Status<') or t.startswith('nop::Result<nop::ErrorStatus')


def paths_of(db, fn, inline=None):
    ex = Exec(db, fn, inline)
    return ex.run()
