"""Rules shared by C02/C05/C06/C17 on the library readers and writers.

buffer family (BufferReader, PedanticBufferReader, BufferWriter, PedanticBufferWriter,
ConstexprBufferWriter): each primitive is compared with one specification -

  Ensure/Prepare(n)      fails with Read/WriteLimitReached exactly when n > limit - pos
                         (overflow-safe form), otherwise succeeds; no effects
  Read/Write/Skip        BG guard  need <= limit - pos dominates the transfer
                         BE refusal returns the limit error and has no effects
                         BC the transfer moves exactly `need` bytes between the caller's
                            range and buffer[pos...] and then pos += need, once

stream family: every primitive performs exactly one stream operation whose short
count is observable (read/get/write/put/ignore+gcount) and returns the stream-state
test; seekg/seekp are not observable.   fd family: success only under ret == 1.
"""
import re
from . import facts, ir, rw, symx
from .symx import Poly, StatusVal, Cmp

BUFFER_CLASSES = {
    'nop::BufferReader': ('reader', 'ReadLimitReached'),
    'nop::PedanticBufferReader': ('reader', 'ReadLimitReached'),
    'nop::BufferWriter': ('writer', 'WriteLimitReached'),
    'nop::PedanticBufferWriter': ('writer', 'WriteLimitReached'),
    'nop::ConstexprBufferWriter': ('writer', 'WriteLimitReached'),
}


def methods_of(db, rec_q):
    return [f for f in db.fns if f.get('rec') == rec_q and 'body' in f]


def one_per_pattern(methods, names):
    seen = set()
    out = []
    for m in methods:
        if m['n'] not in names or m.get('ctor'):
            continue
        key = (m['file'], m['pat']['l'], tuple(p['t'] for p in m['params']))
        if key in seen:
            continue
        seen.add(key)
        out.append(m)
    return out


def _eval_poly(poly, env):
    total = 0
    for mono, coef in poly.t.items():
        v = coef
        for a in mono:
            x = env(a)
            if x is None:
                return None
            v *= x
        total += v
    return total


def path_model(p, need, roles, want, domain=(0, 1, 2, 3)):
    """a witness assignment of the integer atoms under which every condition of path p holds, pos <= limit, need >= 0 and
    want(need, remaining) holds; None if there is none in the finite model, 'unknown' if a condition is not a comparison of
    terms over the parameters and the two fields"""
    import itertools
    atoms = set(need.atoms()) if hasattr(need, 'atoms') else set()
    for c, _ in p.conds:
        if not isinstance(c, Cmp):
            return 'unknown'
        atoms |= set(c.p.atoms())
    fpos, flim = 'f:' + roles.pos, 'f:' + roles.limit
    atoms |= {fpos, flim}
    atoms = sorted(atoms)
    if len(atoms) > 6 or any(not (a.startswith('p:') or a in (fpos, flim)) for a in atoms):
        return 'unknown'
    for vals in itertools.product(domain, repeat=len(atoms)):
        asg = dict(zip(atoms, vals))
        if asg[fpos] > asg[flim]:
            continue
        env = asg.get
        n = _eval_poly(need, env)
        if n is None or n < 0 or not want(n, asg[flim] - asg[fpos]):
            continue
        if all(_eval_cond(c, env) == sense for c, sense in p.conds):
            asg['need'] = n
            return asg
    return None


def spurious_refusal(p, need, roles, domain=(0, 1, 2, 3)):
    """a path that refuses (returns an error without moving anything) although the request fits: returns a witness
    assignment {atom: value} with every path condition true, pos <= limit and 0 <= need <= limit - pos, or None.
    Decided over a small finite model of the integer atoms (the conditions are comparisons of linear terms); paths with a
    condition that is not such a comparison are left to the other rules."""
    import itertools
    atoms = set(need.atoms()) if hasattr(need, 'atoms') else set()
    for c, _ in p.conds:
        if not isinstance(c, Cmp):
            return None
        atoms |= set(c.p.atoms())
    fpos, flim = 'f:' + roles.pos, 'f:' + roles.limit
    atoms |= {fpos, flim}
    atoms = sorted(atoms)
    if len(atoms) > 6 or any(not (a.startswith('p:') or a in (fpos, flim)) for a in atoms):
        return None
    for vals in itertools.product(domain, repeat=len(atoms)):
        asg = dict(zip(atoms, vals))
        if asg[fpos] > asg[flim]:
            continue
        env = asg.get
        n = _eval_poly(need, env)
        if n is None or n < 0 or n > asg[flim] - asg[fpos]:
            continue
        if all(_eval_cond(c, env) == sense for c, sense in p.conds):
            asg['need'] = n
            return asg
    return None


def check_limit_test(chk, db, fn, roles, limit_err, rule, label):
    """Ensure/Prepare of a buffer class: error iff need > remaining"""
    where = facts.site(fn)
    need = rw.need_of(fn, None)
    try:
        paths = rw.run_paths(db, fn)
    except symx.Unsupported as e:
        chk.unanalysable(rule, where, 'cannot summarise %s: %s' % (label, e))
        return
    ok = True
    why = []
    saw = {'refuse': 0, 'accept': 0}
    for p in paths:
        if any(e.kind in ('field', 'store') or (e.kind == 'call') for e in p.events):
            ok = False
            why.append('has effects: %s' % p.describe()[:120])
        if rw.failing_guard(p, need, roles):
            form = [rw.classify_guard(c, not s, need, roles) for c, s in p.conds]
            if 'unsafe' in form:
                ok = False
                why.append('uses the wrapping form pos + n > limit')
            saw['refuse'] += 1
            if not (isinstance(p.ret, StatusVal) and p.ret.kind == 'err' and p.ret.arg == limit_err):
                ok = False
                why.append('refusal returns %r' % (p.ret,))
        elif rw.guard_on_path(p, need, roles) in ('safe', 'unsafe'):
            if rw.guard_on_path(p, need, roles) == 'unsafe':
                ok = False
                why.append('uses the wrapping form pos + n > limit')
            saw['accept'] += 1
            if not (isinstance(p.ret, StatusVal) and p.ret.kind == 'ok'):
                ok = False
                why.append('acceptance returns %r' % (p.ret,))
        else:
            ok = False
            why.append('path not decided by n <= limit - pos: %s' % p.describe()[:140])
    if saw['refuse'] != 1 or saw['accept'] != 1:
        ok = False
        why.append('expected one refusing and one accepting path, found %s' % saw)
    chk.decide(ok, rule, where, '%s::%s(n) succeeds exactly when n <= %s - %s%s' % (
        fn['rec'].replace('nop::', ''), fn['n'], roles.limit, roles.pos, (': ' + '; '.join(sorted(set(why)))) if why else ''), function=label)


def check_buffer_primitive(chk, db, fn, roles, kind, limit_err, rules, label):
    """rules: dict with keys G, E, C -> rule ids (None to skip)"""
    where = facts.site(fn)
    need = rw.need_of(fn, kind)
    if need is None:
        chk.unanalysable(rules['G'] or rules['C'], where, 'cannot derive byte count of ' + label)
        return
    try:
        paths = rw.run_paths(db, fn)
    except symx.Unsupported as e:
        chk.unanalysable(rules['G'] or rules['C'], where, 'cannot summarise %s: %s' % (label, e))
        return
    pos = Poly.atom('f:' + roles.pos)
    g_ok, e_ok, c_ok = True, True, True
    g_why, e_why, c_why = [], [], []
    np_why, np_seen, np_unknown = [], [], []
    refusals = 0
    bufref = 'f:%s[' % roles.buffer
    for p in paths:
        mems = [e for e in p.events if e.kind == 'call' and e.name in ('memcpy', 'memset', 'memmove', 'copy', 'copy_n', 'fill_n')]
        stores = [e for e in p.events if e.kind == 'store' and bufref in e.target]
        fe = [e for e in p.events if e.kind == 'field']
        touches = bool(mems or stores or fe)
        if rw.failing_guard(p, need, roles):
            refusals += 1
            if not (isinstance(p.ret, StatusVal) and p.ret.kind == 'err' and p.ret.arg == limit_err):
                e_ok = False
                e_why.append('refusal returns %r instead of %s' % (p.ret, limit_err))
            if touches:
                e_ok = False
                e_why.append('refusal path has effects')
            continue
        if not touches and isinstance(p.ret, StatusVal) and p.ret.kind == 'err':
            w = spurious_refusal(p, need, roles)
            if w:
                e_ok = False
                e_why.append('path [%s] refuses a request that fits (%s)' % (p.describe()[:100], ', '.join('%s=%s' % kv for kv in sorted(w.items()))))
        if not touches:
            # a zero-length request (transfer loop not entered) legitimately moves nothing
            if not (isinstance(p.ret, StatusVal) and p.ret.kind == 'err') and not p.loops_skipped:
                c_ok = False
                c_why.append('path [%s] moves nothing yet reports success' % p.describe()[:120])
            continue
        g = rw.guard_on_path(p, need, roles)
        if g != 'safe':
            g_ok = False
            g_why.append('unsafe wrapping guard' if g == 'unsafe' else 'transfer not dominated by need <= %s - %s: [%s]' % (
                roles.limit, roles.pos, p.describe()[:140]))
        # C: transfer
        name = fn['n']
        final_pos = p.fields.get(roles.pos)
        loop_pos = [e for e in fe if e.field == roles.pos and e.in_loop]
        if any(e.field != roles.pos for e in fe):
            c_ok = False
            c_why.append('assigns field %s' % [e.field for e in fe if e.field != roles.pos][0])
        if not loop_pos:
            if final_pos is None or symx.as_poly(final_pos) != pos + need:
                c_ok = False
                c_why.append('position becomes %r, expected %r' % (final_pos, pos + need))
        if mems:
            if len(mems) != 1:
                c_ok = False
                c_why.append('%d block operations' % len(mems))
            else:
                m = mems[0]
                a = [repr(x) for x in m.args]
                here = Poly.atom('&f:%s[0]' % roles.buffer) + pos       # &buffer[pos]
                at = [symx.as_poly(x) for x in m.args]
                n_ok = len(m.args) == 3 and at[2] == need
                if kind == 'reader':
                    good = m.name == 'memcpy' and len(a) == 3 and at[1] == here and a[0] in ('p:begin', 'p:byte') and n_ok
                elif name == 'Skip':
                    good = m.name == 'memset' and len(a) == 3 and at[0] == here and a[1].startswith('p:') and n_ok
                else:
                    good = m.name == 'memcpy' and len(a) == 3 and at[0] == here and a[1] in ('p:begin', '&p:byte') and n_ok
                if not good:
                    c_ok = False
                    c_why.append('block operation %s(%s) does not move `need` bytes between the caller\'s range and buffer[pos]' % (m.name, ', '.join(a)))
        elif stores:
            for s_ in stores:
                if not s_.target.startswith(bufref):
                    c_ok = False
                    c_why.append('store to %s' % s_.target)
        elif (kind == 'writer' or name != 'Skip') and not p.loops_skipped:
            # a branch taken only for an empty request legitimately moves nothing
            if path_model(p, need, roles, lambda n, rem: n > 0) is not None:
                c_ok = False
                c_why.append('no data moved on path [%s]' % p.describe()[:100])
        # NP: a block operation on the caller's range runs only for a non-empty request: an empty range may be denoted by null
        # pointers (data() of an empty vector), and memcpy / memmove require valid pointers even for a length of zero
        if rules.get('NP') and mems and any(repr(x) in ('p:begin', '&p:byte') or repr(x).startswith('p:') for x in mems[0].args[:2]):
            w = path_model(p, need, roles, lambda n, rem: n == 0)
            np_seen.append(1)
            if w == 'unknown':
                np_unknown.append(p.describe()[:120])
            elif w is not None and not (need.is_const() and need.const_value() > 0):
                np_why.append('%s on the caller\'s range is reached with an empty request (%s): a null range is undefined behaviour' % (
                    mems[0].name, 'condition not interpretable' if w == 'unknown' else ', '.join('%s=%s' % kv for kv in sorted(w.items()))))
    if rules.get('G'):
        chk.decide(g_ok, rules['G'], where, '%s: %s' % (label, '; '.join(sorted(set(g_why))) if g_why else 'every transfer guarded by need=%r <= remaining' % need), function=label)
        if g_ok:
            chk.decide(e_ok and refusals >= 1, rules['E'], where, '%s: %s' % (label, '; '.join(sorted(set(e_why))) if e_why else 'refusal returns ' + limit_err), function=label)
    if rules.get('NP') and np_unknown and not np_why:
        chk.unanalysable(rules['NP'], where, '%s: a condition on the path to the block copy is not a comparison over the parameters and the position / limit fields: [%s]' % (label, np_unknown[0]))
    elif rules.get('NP') and np_seen:
        chk.decide(not np_why, rules['NP'], where + ' null', '%s: %s' % (label, '; '.join(sorted(set(np_why))) if np_why else
                   'the block copy on the caller\'s range runs only for a non-empty request'), function=label)
    if rules.get('C'):
        chk.decide(c_ok, rules['C'], where, '%s: %s' % (label, '; '.join(sorted(set(c_why))) if c_why else 'moves exactly need=%r bytes at buffer[pos], pos += need' % need), function=label)


def check_buffer_class(chk, db, rec_q, rule_ids, guard_required=True):
    """rule_ids: {'T': limit test rule, 'G','E','C'}"""
    kind, limit_err = BUFFER_CLASSES[rec_q]
    methods = methods_of(db, rec_q)
    if not methods:
        chk.unanalysable(rule_ids.get('C') or rule_ids.get('G'), rec_q, 'no analysed member of %s' % rec_q)
        return None
    roles = rw.resolve_roles(db, rec_q, methods)
    if roles is None or roles.buffer is None:
        chk.unanalysable(rule_ids.get('C') or rule_ids.get('G'), rec_q, 'cannot resolve position/limit/buffer fields of %s' % rec_q)
        return None
    test_name = 'Ensure' if kind == 'reader' else 'Prepare'
    for m in one_per_pattern(methods, {test_name}):
        if rule_ids.get('T'):
            check_limit_test(chk, db, m, roles, limit_err, rule_ids['T'], '%s::%s' % (rec_q.replace('nop::', ''), m['n']))
    if rule_ids.get('T'):
        # the budget arithmetic is unsigned: converting the position / limit (or their difference, or a requested length) to a SIGNED
        # type makes a request of 2^63 bytes or more compare as negative - it "fits" - and a large remaining budget as exhausted
        bad = []
        seen_pat = set()
        for m in methods:
            if 'body' not in m or (m['file'], m['pat']['l']) in seen_pat:
                continue
            seen_pat.add((m['file'], m['pat']['l']))
            pids = {p['id'] for p in m['params'] if p.get('integral')}
            for y in ir.walk(m['body']):
                if y.get('k') in ('icast', 'cast') and y.get('ck') == 'IntegralCast' and (y.get('from') or '').replace('const ', '') in ('unsigned long', 'unsigned long long', 'std::size_t', 'size_t') and \
                        (y.get('to') or '').replace('const ', '') in ('long', 'long long', 'int', 'std::ptrdiff_t', 'ptrdiff_t'):
                    inner = [z for z in ir.walk(y.get('e')) if (z.get('k') == 'mem' and z.get('n') in (roles.pos, roles.limit)) or
                             (z.get('k') == 'ref' and z.get('id') in pids and m['n'] in (test_name, 'Read', 'Write', 'Skip'))]
                    if inner and ir.const_of(ir.strip_all_casts(y)) is None:
                        bad.append((m['n'], y.get('loc', {}).get('l') or m['pat']['l'], y.get('to')))
        r0 = db.records[rec_q]
        chk.decide(not bad, rule_ids['T'], '%s:%d unsigned' % (r0['file'], r0['loc']['l']),
                   '%s: %s' % (rec_q.replace('nop::', ''), ('position / limit / length arithmetic is converted to the signed type %s in %s (line %s)' % (
                       bad[0][2], bad[0][0], bad[0][1])) if bad else 'position / limit / length arithmetic stays unsigned'), function=rec_q)
    prim_names = {'Read', 'Skip'} if kind == 'reader' else {'Write', 'Skip'}
    for m in one_per_pattern(methods, prim_names):
        label = '%s::%s(%s)' % (rec_q.replace('nop::', ''), m['n'], ', '.join(p['t'] for p in m['params']))
        rules = {'G': rule_ids.get('G') if guard_required else None, 'E': rule_ids.get('E'), 'C': rule_ids.get('C'), 'NP': rule_ids.get('NP')}
        check_buffer_primitive(chk, db, m, roles, kind, limit_err, rules, label)
    return roles


# ---------------------------------------------------------------------------
# stream family

OBSERVABLE_IN = {'read': 1, 'get': None, 'ignore': 0}     # op -> index of the byte-count argument (None: 1 byte)
OBSERVABLE_OUT = {'write': 1, 'put': None}
UNOBSERVABLE = {'seekg', 'seekp', 'sync', 'peek', 'readsome', 'rdbuf', 'unget', 'putback'}


STATE_OPS = {'bad', 'eof', 'fail', 'good', 'rdstate'}


def is_status_helper(m):
    """the class's status helper, by role not by name: a parameterless member returning a Status that only inspects the stream
    state (bad()/eof()/fail()/good()) and moves nothing"""
    if m.get('params') or 'body' not in m or not (m.get('ret') or '').startswith('nop::Status'):
        return False
    names = {ir.callee_name(c) for c in ir.calls(m['body'])}
    return bool(names & STATE_OPS) and not (names & (set(OBSERVABLE_IN) | set(OBSERVABLE_OUT) | UNOBSERVABLE))


def stream_state_fn(db, fn):
    return [m for m in methods_of(db, fn['rec']) if is_status_helper(m)]


def check_return_status(chk, db, fn, rule, label, need_eof):
    where = facts.site(fn)
    paths = rw.run_paths(db, fn)
    ok = True
    why = []
    for p in paths:
        tests = {}
        for c, s in p.conds:
            txt = repr(c)
            for t in ('bad', 'eof', 'fail', 'good'):
                if '.%s()' % t in txt:
                    tests[t] = s
        is_ok = isinstance(p.ret, StatusVal) and p.ret.kind == 'ok'
        is_err = isinstance(p.ret, StatusVal) and p.ret.kind == 'err' and p.ret.arg == 'StreamError'
        if is_ok:
            required = {'bad': False}
            if need_eof:
                required['eof'] = False
            for t, v in required.items():
                if tests.get(t) is not v and tests.get('fail') is not False and tests.get('good') is not True:
                    ok = False
                    why.append('success returned without %s() known false' % t)
        elif not is_err:
            ok = False
            why.append('returns %r' % (p.ret,))
    chk.decide(ok, rule, where, '%s: %s' % (label, '; '.join(sorted(set(why))) if why else
                                              'success only when the stream is neither bad() nor eof()'), function=label)


def check_stream_class(chk, db, rect, kind, rule, rule_status):
    classes = sorted({f['rec'] for f in db.fns if f.get('rect') == rect})
    if not classes:
        chk.unanalysable(rule, rect, 'no instance of %s' % rect)
        return
    # the instantiation with the most analysed members (examples instantiate only what they use)
    rec_q = max(classes, key=lambda c: len({m['n'] + str(len(m['params'])) for m in methods_of(db, c)}))
    methods = methods_of(db, rec_q)
    helper_names = {m['n'] for m in methods if is_status_helper(m)}
    helpers = one_per_pattern(methods, helper_names)
    if not helpers:
        chk.unanalysable(rule_status, rect, 'stream-state helper of %s not found' % rect)
    for m in helpers:
        check_return_status(chk, db, m, rule_status, rect.replace('nop::', '') + '::' + m['n'], need_eof=(kind == 'reader'))
    prims = {'Read', 'Skip'} if kind == 'reader' else {'Write', 'Skip'}
    table = OBSERVABLE_IN if kind == 'reader' else OBSERVABLE_OUT
    state_ops = {'bad', 'eof', 'fail', 'good', 'gcount', 'rdstate'}
    # the advisory primitive of an unbounded transport (Ensure / Prepare) cannot know how much will arrive: it must not touch the
    # stream (peek() sets eofbit, which is sticky) and must succeed - in particular for a demand of 0 bytes at the end of the data
    for m in one_per_pattern(methods, {'Ensure' if kind == 'reader' else 'Prepare'}):
        where = facts.site(m)
        label = '%s::%s' % (rect.replace('nop::', ''), m['n'])
        try:
            paths = symx.paths_of(db, m, lambda callee, call: False)
        except symx.Unsupported as e:
            chk.unanalysable(rule, where, 'cannot summarise %s: %s' % (label, e))
            continue
        why = []
        for p in paths:
            touched = [e.name for e in p.events if e.kind == 'call' and e.obj.startswith('f:')]
            if touched:
                why.append('touches the stream (%s)' % ', '.join(sorted(set(touched))))
            if not (isinstance(p.ret, StatusVal) and p.ret.kind == 'ok'):
                why.append('can fail (%r)' % (p.ret,))
        chk.decide(not why, rule, where, '%s: %s' % (label, '; '.join(sorted(set(why))) if why else 'no effect on the stream, always succeeds'),
                   function=ir.fn_label(m))
    # Skip of a writer emits `padding_bytes` copies of the padding VALUE: every byte handed to the stream is that parameter
    if kind == 'writer':
        for m in one_per_pattern(methods, {'Skip'}):
            if len(m['params']) < 2:
                continue
            where = facts.site(m)
            label = '%s::Skip' % rect.replace('nop::', '')
            pv = m['params'][1]
            why = []
            unknown = []
            locals_ = {}
            for y in ir.walk(m['body']):
                if y.get('k') == 'decl':
                    for v in y['vars']:
                        if 'id' in v:
                            locals_[v['id']] = v

            def is_pv(x):
                x = ir.strip_all_casts(x)
                return x.get('k') == 'ref' and x.get('id') == pv.get('id')
            for c in ir.calls(m['body']):
                n = ir.callee_name(c)
                if n == 'put' and c.get('args'):
                    if not is_pv(c['args'][0]):
                        why.append('put() writes %s, not the padding value' % ir.show(c['args'][0])[:40])
                elif n == 'write' and len(c.get('args', [])) == 2:
                    b = ir.strip_all_casts(c['args'][0])
                    while b.get('k') in ('un',) and b.get('op') == '&':
                        b = ir.strip_all_casts(b['e'])
                    while b.get('k') == 'idx':
                        b = ir.strip_all_casts(b['b'])
                    if b.get('k') == 'call' and ir.callee_name(b) in ('data', 'c_str') and 'obj' in b:
                        b = ir.strip_all_casts(b['obj'])
                    v = locals_.get(b.get('id')) if b.get('k') == 'ref' else None
                    init = ir.strip_all_casts(v['init']) if v and v.get('init') is not None else None
                    m_ext = re.search(r'\[(\d+)\]$', (v or {}).get('t', '').strip())
                    if v is None or init is None:
                        unknown.append('write() from %s' % ir.show(c['args'][0])[:40])
                    elif init.get('k') == 'ilist' and m_ext:
                        els = init.get('el', [])
                        if len(els) < int(m_ext.group(1)) or not all(is_pv(x) for x in els):
                            why.append('write() from an array of %s elements of which %d are initialised with the padding value (the rest are zero)' % (
                                m_ext.group(1), len([x for x in els if is_pv(x)])))
                    elif init.get('k') == 'ctor' and len(init.get('args', [])) >= 2 and is_pv(init['args'][1]):
                        pass        # container(count, padding_value)
                    else:
                        unknown.append('write() from %s' % (v.get('n') or '?'))
            if unknown and not why:
                chk.unanalysable(rule, where, '%s: cannot tell what bytes %s emits' % (label, '; '.join(unknown)))
            else:
                chk.decide(not why, rule, where + ' value', '%s: %s' % (label, '; '.join(sorted(set(why))) if why else 'every byte written is the padding value'),
                           function=ir.fn_label(m))
    # end of data is a property of the stream state or of get()'s int_type result - never of a delivered character: once the
    # result of get() has been narrowed to the character type, the data byte 0xff is indistinguishable from Traits::eof()
    if kind == 'reader':
        for m in one_per_pattern(methods, prims):
            narrowed = set()

            def is_narrowed_get(x):
                return x.get('k') == 'icast' and 'char' in (x.get('to') or '') and 'int' in (x.get('from') or '') and \
                    ir.strip_all_casts(x.get('e', {})).get('k') == 'call' and ir.callee_name(ir.strip_all_casts(x['e'])) == 'get' and \
                    not ir.strip_all_casts(x['e']).get('args')
            for y in ir.walk(m['body']):
                if y.get('k') == 'decl':
                    for v in y['vars']:
                        if 'id' in v and v.get('init') is not None and any(is_narrowed_get(z) for z in ir.walk(v['init'])):
                            narrowed.add(v['id'])
            bad = []
            for y in ir.walk(m['body']):
                cmp_like = (y.get('k') == 'call' and ir.callee_name(y) in ('eq_int_type', 'not_eof')) or (y.get('k') == 'bin' and y.get('op') in ('==', '!='))
                if not cmp_like:
                    continue
                sub = list(ir.walk(y))
                has_eof = any(z.get('k') == 'call' and ir.callee_name(z) == 'eof' and 'obj' not in z for z in sub) or ir.callee_name(y) == 'not_eof'
                has_char = any((z.get('k') == 'ref' and z.get('id') in narrowed) or is_narrowed_get(z) for z in sub)
                if has_eof and has_char:
                    bad.append(y.get('loc', {}).get('l'))
            if narrowed or bad or any(ir.callee_name(c) == 'get' for c in ir.calls(m['body'])):
                chk.decide(not bad, rule, facts.site(m) + ' eof', '%s::%s: %s' % (rect.replace('nop::', ''), m['n'],
                           'end of stream is tested on the character AFTER get() was narrowed to the character type (line %s): the byte 0xff reads as end of data' % bad[0]
                           if bad else 'get() result not narrowed before an eof test'), function=ir.fn_label(m))
    for m in one_per_pattern(methods, prims):
        where = facts.site(m)
        label = '%s::%s(%s)' % (rect.replace('nop::', ''), m['n'], ', '.join(p['t'] for p in m['params']))
        need = rw.need_of(m, kind)
        if len(m['params']) == 2 and m['n'] in ('Read', 'Write'):
            need = Poly.atom('p:' + m['params'][1]['n']) - Poly.atom('p:' + m['params'][0]['n'])   # void* range: bytes
        try:
            # keep the status helper's call visible; any other private helper of the class is part of the primitive (inlined)
            def inline(callee, call):
                return 'obj' in call and ir.strip(call['obj']).get('k') == 'this' and callee.get('n') not in helper_names
            paths = symx.paths_of(db, m, inline)
        except symx.Unsupported as e:
            chk.unanalysable(rule, where, 'cannot summarise %s: %s' % (label, e))
            continue
        why = []
        for p in paths:
            # operations on the stream member: member calls on it, and operator calls (formatted << / >>) that take it as operand
            ops = [(i, e) for i, e in enumerate(p.events) if e.kind == 'call' and (
                e.obj.startswith('f:') or (e.name.startswith('operator') and e.args and repr(e.args[0]).startswith('f:')))]
            moving = [(i, e) for i, e in ops if e.name in table]
            for i, e in ops:
                if e.name not in table and e.name not in state_ops:
                    why.append('uses %s(): a shortfall is not observable through the stream state' % e.name)
            helper_calls = [i for i, e in enumerate(p.events) if e.kind == 'call' and e.obj == 'this' and e.name in helper_names]
            ret = p.ret
            success = isinstance(ret, StatusVal) and ret.kind == 'ok'
            via_helper = isinstance(ret, StatusVal) and ret.kind == 'call' and ret.arg in helper_calls
            if not (success or via_helper or (isinstance(ret, StatusVal) and ret.kind in ('err', 'errof'))):
                why.append('returns %r' % (ret,))
                continue
            if (success or via_helper) and moving:
                last = moving[-1][0]
                after = [i for i in helper_calls if i > last]
                if not after:
                    why.append('success possible without reading the stream state after %s()' % moving[-1][1].name)
                elif success and not any(p.status_facts().get(i) is True for i in after):
                    why.append('literal success returned although the stream state after %s() was not tested ok' % moving[-1][1].name)
                elif via_helper and ret.arg < last:
                    why.append('returned status predates the last transfer')
            for i, e in moving:
                idx = table[e.name]
                n = Poly.const(1) if idx is None else symx.as_poly(e.args[idx])
                if e.name == 'ignore':
                    if (success or via_helper) and not any('gcount' in repr(c) and repr(n) in repr(c) for c, s_ in p.conds):
                        why.append('ignore(n) not followed by a comparison of gcount() with n on the success path')
                elif not e.in_loop and need is not None and n != need:
                    why.append('%s() moves %r bytes, the caller asked for %r' % (e.name, n, need))
            if (success or via_helper) and not moving and need is not None and not (need.is_const() and need.const_value() == 0):
                # nothing moved through the stream's own observable operations: only acceptable when the request was empty (loop not
                # entered).  Bytes pushed some other way (a stream-buffer iterator, the rdbuf) do not set the stream state on failure
                if not any(isinstance(c, Cmp) for c, s_ in p.conds):
                    why.append('reports %s without any observable transfer on the stream (no put / write / read / get / ignore on this path)' % (
                        'success' if success else 'the stream state'))
        chk.decide(not why, rule, where, '%s: %s' % (label, '; '.join(sorted(set(why))) if why else
                                                       'observable stream operations only; status taken from the stream state after the transfer'),
                   function=label)


# ---------------------------------------------------------------------------
# fd family

def _eval_cond(c, env):
    """truth of a symbolic condition under an assignment of its atoms (None if an atom is not assigned)"""
    from .symx import BoolOp
    if isinstance(c, Cmp):
        total = 0
        for mono, coef in c.p.t.items():
            v = coef
            for a in mono:
                x = env(a)
                if x is None:
                    return None
                v *= x
            total += v
        return {'<=': total <= 0, '==': total == 0, '!=': total != 0, '<': total < 0}[c.op]
    if isinstance(c, BoolOp):
        vals = [_eval_cond(a, env) for a in c.args]
        if c.op == 'not':
            return None if vals[0] is None else (not vals[0])
        if c.op == 'and':
            return False if any(v is False for v in vals) else (None if any(v is None for v in vals) else True)
        if c.op == 'or':
            return True if any(v is True for v in vals) else (None if any(v is None for v in vals) else False)
    return None


def _path_satisfied(p, sys_name, rv, en):
    """can this path be taken when the (last) system call returns rv with errno en?  Unknown conditions count as satisfiable."""
    def env(atom):
        if atom.startswith(sys_name + '('):
            return rv
        if 'errno' in atom:
            return en
        return None
    for c, sense in p.conds:
        v = _eval_cond(c, env)
        if v is not None and v != sense:
            return False
    return True


def check_fd_class(chk, db, rec_q, kind, rule):
    methods = methods_of(db, rec_q)
    if not methods:
        chk.unanalysable(rule, rec_q, 'no analysed member of ' + rec_q)
        return
    sys_name = 'read' if kind == 'reader' else 'write'
    eof_err = 'ReadLimitReached' if kind == 'reader' else 'WriteLimitReached'
    for m in one_per_pattern(methods, {'Read', 'Write'}):
        where = facts.site(m)
        label = '%s::%s(%s)' % (rec_q.replace('nop::', ''), m['n'], ', '.join(p['t'] for p in m['params']))
        try:
            paths = rw.run_paths(db, m)
        except symx.Unsupported as e:
            chk.unanalysable(rule, where, 'cannot summarise %s: %s' % (label, e))
            continue
        ok = True
        why = []
        n_ok = 0
        for p in paths:
            sys_calls = [(i, e) for i, e in enumerate(p.events) if e.kind == 'call' and e.name == sys_name and not e.obj]
            is_ok = isinstance(p.ret, StatusVal) and p.ret.kind == 'ok'
            if is_ok:
                n_ok += 1
                if not sys_calls:
                    # zero-length range: loop not entered
                    if not any(isinstance(c, Cmp) and not s for c, s in p.conds):
                        ok = False
                        why.append('success without any %s()' % sys_name)
                    continue
                i, e = sys_calls[-1]
                want_n = symx.as_poly(e.args[2]) if len(e.args) == 3 else None
                good = False
                for c, s in p.conds:
                    if isinstance(c, Cmp) and s and c.op == '==' and ('%s(' % sys_name) in repr(c):
                        # ret == requested count
                        other = c.rhs if sys_name in repr(c.lhs) else c.lhs
                        if want_n is not None and other == want_n:
                            good = True
                if not good:
                    ok = False
                    why.append('success not conditioned on %s() returning the requested count' % sys_name)
            elif isinstance(p.ret, StatusVal) and p.ret.kind == 'err':
                if p.ret.arg == eof_err:
                    if not any(isinstance(c, Cmp) and s and c.op == '==' and sys_name in repr(c) and
                               (c.rhs == Poly.const(0) or c.lhs == Poly.const(0)) for c, s in p.conds):
                        ok = False
                        why.append('%s returned without %s() == 0' % (eof_err, sys_name))
            else:
                ok = False
                why.append('returns %r' % (p.ret,))
        if n_ok == 0:
            ok = False
            why.append('no success path')
        reached = {}
        # outcome table of one system call, decided by evaluating every returning path's conditions on the four cases
        # (ret = requested, 0, -1 with errno == EINTR, -1 with another errno): EINTR must not return at all (it is retried)
        for p in paths:
            calls = [e for e in p.events if e.kind == 'call' and e.name == sys_name and not e.obj]
            if not calls:
                continue
            want_n = symx.as_poly(calls[-1].args[2]) if len(calls[-1].args) == 3 else None
            req = want_n.const_value() if want_n is not None and want_n.is_const() else 1
            kind_ret = 'OK' if (isinstance(p.ret, StatusVal) and p.ret.kind == 'ok') else (p.ret.arg if isinstance(p.ret, StatusVal) and p.ret.kind == 'err' else repr(p.ret))
            for case, (rv, en, allowed) in {'transferred': (req, 0, {'OK'}), 'end of data': (0, 0, {eof_err}),
                                            'EINTR': (-1, 4, set()), 'error': (-1, 5, {'IOError'}),
                                            # errno is only meaningful after a failure: a value left over from an earlier call
                                            # (EINTR from an interrupted read) must not change the outcome of a call that did not fail
                                            'end of data, stale errno': (0, 4, {eof_err}), 'transferred, stale errno': (req, 4, {'OK'})}.items():
                sat = _path_satisfied(p, sys_name, rv, en)
                if sat:
                    reached.setdefault(case, set()).add(kind_ret)
                if sat and kind_ret not in allowed and not (case.startswith('transferred') and calls[-1].in_loop):
                    ok = False
                    why.append('%s() %s (ret=%d%s) returns %s' % (sys_name, case, rv, ', errno=EINTR' if en == 4 else (', errno=EIO' if en == 5 else ''), kind_ret))
        for case in ('end of data', 'end of data, stale errno', 'error'):
            if any(e.kind == 'call' and e.name == sys_name for p in paths for e in p.events) and not reached.get(case):
                ok = False
                why.append('no returning path for %s() %s: the call is retried forever' % (sys_name, case))
        chk.decide(ok, rule, where, '%s: %s' % (label, '; '.join(sorted(set(why))) if why else
                                                  'success only when %s() transferred the requested byte; 0 => %s; other => IOError unless EINTR' % (sys_name, eof_err)),
                   function=label)
