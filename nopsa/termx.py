"""Term domain: straight-line integer code evaluated over canonical bit-vector terms
instead of numbers (DESIGN §3 E9).  Statement order, temporaries and helper
extraction do not change a canonical term; a changed constant, a dropped step, a
swapped operand or a sign extension does.
"""
from . import ir

BITS = {'bool': 1, 'char': 8, 'signed char': 8, 'unsigned char': 8, 'short': 16, 'unsigned short': 16, 'int': 32,
        'unsigned int': 32, 'long': 64, 'unsigned long': 64, 'long long': 64, 'unsigned long long': 64}
SIGNED = {'char', 'signed char', 'short', 'int', 'long', 'long long'}
COMM = {'add', 'xor', 'or', 'and', 'mul'}
MASK64 = (1 << 64) - 1


class Unsupported(Exception):
    pass


def tname(t):
    return (t or '').replace('const ', '').replace('volatile ', '').strip()


class N:
    """hash-consed term node: structural equality is identity, so terms are DAGs and
    comparing / sorting them costs O(1) per node instead of O(tree size)"""
    __slots__ = ('op', 'a', 'h')

    def __init__(self, op, a, h):
        self.op, self.a, self.h = op, a, h

    def __getitem__(self, i):      # tuple-like access: t[0] is the operator, t[1:] the arguments
        if i == 0:
            return self.op
        if isinstance(i, slice):
            return ((self.op,) + self.a)[i]
        return self.a[i - 1]

    def __repr__(self):
        return show(self)


_INTERN = {}


def node(op, *a):
    key = (op,) + tuple(id(x) if isinstance(x, N) else ('r', x) for x in a)
    n = _INTERN.get(key)
    if n is None:
        h = hash((op,) + tuple(x.h if isinstance(x, N) else hash(('r', x)) for x in a))
        n = N(op, tuple(a), h)
        _INTERN[key] = n
    return n


def C(n):
    return node('const', n & MASK64)


def SYM(name):
    return node('sym', name)


def mk(op, *args):
    """smart constructor with canonicalisation"""
    if op in COMM:
        flat = []
        for a in args:
            if a.op == op:
                flat.extend(a.a)
            else:
                flat.append(a)
        consts = [a for a in flat if a.op == 'const']
        rest = [a for a in flat if a.op != 'const']
        if consts:
            acc = consts[0].a[0]
            for c in consts[1:]:
                acc = {'add': lambda x, y: (x + y) & MASK64, 'xor': lambda x, y: x ^ y, 'or': lambda x, y: x | y,
                       'and': lambda x, y: x & y, 'mul': lambda x, y: (x * y) & MASK64}[op](acc, c.a[0])
            ident = {'add': 0, 'xor': 0, 'or': 0, 'and': MASK64, 'mul': 1}[op]
            if acc != ident or not rest:
                rest.append(C(acc))
        rest.sort(key=lambda t: t.h)
        if len(rest) == 1:
            return rest[0]
        if op == 'or' and len(rest) == 2:
            r = rotl_of(rest[0], rest[1])
            if r is not None:
                return r
        return node(op, *rest)
    if op in ('shl', 'shr'):
        x, n = args
        if n.op == 'const':
            if n.a[0] == 0:
                return x
            if x.op == 'const':
                return C(x.a[0] << n.a[0]) if op == 'shl' else C(x.a[0] >> n.a[0])
        return node(op, x, n)
    if op == 'sub':
        a, b = args
        if a.op == 'const' and b.op == 'const':
            return C(a.a[0] - b.a[0])
        if b is C(0):
            return a
        return node(op, a, b)
    if op == 'mod':
        a, b = args
        if a.op == 'const' and b.op == 'const' and b.a[0]:
            return C(a.a[0] % b.a[0])
        return node(op, a, b)
    return node(op, *args)


def rotl_of(a, b):
    """or(shl(x, n), shr(x, 64 - n)) -> rotl(x, n)"""
    for p, q in ((a, b), (b, a)):
        if p.op == 'shl' and q.op == 'shr' and p.a[0] is q.a[0] and p.a[1].op == 'const' and q.a[1].op == 'const' and \
                p.a[1].a[0] + q.a[1].a[0] == 64:
            return node('rotl', p.a[0], p.a[1])
    return None


def cast(term, frm, to):
    frm, to = tname(frm), tname(to)
    if frm == to or frm not in BITS or to not in BITS:
        return term
    bf, bt = BITS[frm], BITS[to]
    if bt > bf:
        if term.op == 'const':
            v = term.a[0] & ((1 << bf) - 1)
            if frm in SIGNED and v >> (bf - 1):
                v -= 1 << bf
            return C(v)
        return node('sext' if frm in SIGNED else 'zext', bf, term)
    if bt < bf:
        if term.op == 'const':
            return C(term.a[0] & ((1 << bt) - 1))
        if term.op in ('zext', 'sext') and term.a[0] == bt:
            return term.a[1]
        return node('trunc', bt, term)
    return term


def contains_op(t, op, seen=None):
    seen = seen if seen is not None else set()
    if isinstance(t, list):
        return any(contains_op(x, op, seen) for x in t)
    if not isinstance(t, N) or id(t) in seen:
        return False
    seen.add(id(t))
    if t.op == op:
        return True
    return any(contains_op(x, op, seen) for x in t.a if isinstance(x, N))


class Ret(Exception):
    def __init__(self, v):
        self.v = v


class Break(Exception):
    pass


class Continue(Exception):
    pass


def subst(t, m, memo=None):
    """rebuild term t with the sub-terms in m replaced (through the canonicalising constructors)"""
    memo = memo if memo is not None else {}
    if isinstance(t, list):
        return [subst(x, m, memo) for x in t]
    if not isinstance(t, N):
        return t
    if t in m:
        return m[t]
    r = memo.get(id(t))
    if r is None:
        if t.op in ('const', 'sym'):
            r = t
        else:
            args = [subst(x, m, memo) for x in t.a]
            r = mk(t.op, *args) if t.op in COMM or t.op in ('shl', 'shr', 'sub', 'mod') else node(t.op, *args)
            r = m.get(r, r)
        memo[id(t)] = r
    return r


class TermExec:
    """evaluates straight-line code; loops and switches are driven by the caller"""

    def __init__(self, db, fn, hooks=None):
        self.db = db
        self.fn = fn
        self.env = {}
        self.hooks = hooks or {}
        self.depth = 0
        self.assume = {}       # term -> constant it is assumed equal to (case split by the caller)
        self.fuel = 100000     # loop iterations

    def bind(self, vid, val):
        self.env[vid] = val

    def ev(self, e):
        v = self._ev(e)
        if self.assume and isinstance(v, N):
            v = self.assume.get(v, v)
        return v

    def _ev(self, e):
        k = e['k']
        if k in ('int', 'bool'):
            return C(int(e['cv']))
        if k == 'ref':
            if e.get('id') in self.env:
                return self.env[e['id']]
            if 'cv' in e:
                return C(int(e['cv']))
            return SYM(e['n'])
        if k == 'sizeof' and 'cv' in e:
            return C(int(e['cv']))
        if k in ('icast', 'cast'):
            v = self.ev(e['e'])
            if isinstance(v, list):
                return v
            if e['ck'] == 'IntegralCast':
                return cast(v, e['from'], e['to'])
            return v
        if k == 'idx':
            base = self.ev(e['b'])
            i = self.ev(e['i'])
            if isinstance(base, list):
                if i.op != 'const':
                    raise Unsupported('array index not constant')
                return base[i.a[0]]
            return node('load', base, i)
        if k == 'un':
            if e['op'] == '~':
                return mk('xor', self.ev(e['e']), C(MASK64))
            if e['op'] == '-':
                return mk('sub', C(0), self.ev(e['e']))
            if e['op'] in ('++', '--'):
                cur = self.ev(e['e'])
                nxt = mk('add', cur, C(1)) if e['op'] == '++' else mk('sub', cur, C(1))
                self.store(e['e'], nxt)
                return cur if e.get('post') else nxt
            if e['op'] == '!':
                v = self.ev(e['e'])
                if v.op == 'const':
                    return C(int(v.a[0] == 0))
            raise Unsupported('unary ' + e['op'])
        if k == 'bin':
            op = e['op']
            if op == '=':
                v = self.ev(e['r'])
                self.store(e['l'], v)
                return v
            if op in ('+=', '-=', '^=', '|=', '&=', '<<=', '>>=', '*='):
                cur = self.ev(e['l'])
                r = self.ev(e['r'])
                v = self.arith(op[:-1], cur, r)
                self.store(e['l'], v)
                return v
            if op == ',':
                self.ev(e['l'])
                return self.ev(e['r'])
            return self.arith(op, self.ev(e['l']), self.ev(e['r']))
        if k == 'cond':
            c = self.ev(e['c'])
            if not (isinstance(c, N) and c.op == 'const'):
                raise Unsupported('?: on a non-constant condition')
            return self.ev(e['a'] if c.a[0] else e['b'])
        if k == 'ctor':
            if len(e['args']) == 1:
                return self.ev(e['args'][0])
            raise Unsupported('constructor')
        if k == 'ilist':
            return [self.ev(x) for x in e['el']]
        if k == 'call':
            return self.call(e)
        if k == 'mem':
            b = self.ev(e['b'])
            return node('field', b, e['n'])
        raise Unsupported('expression ' + k)

    def arith(self, op, a, b):
        m = {'+': 'add', '^': 'xor', '|': 'or', '&': 'and', '*': 'mul'}
        if op in m:
            return mk(m[op], a, b)
        if op == '<<':
            return mk('shl', a, b)
        if op == '>>':
            return mk('shr', a, b)
        if op == '-':
            return mk('sub', a, b)
        if op == '%':
            return mk('mod', a, b)
        if op in ('<', '<=', '>', '>=', '==', '!='):
            if a.op == 'const' and b.op == 'const':
                x, y = a.a[0], b.a[0]
                return C(int({'<': x < y, '<=': x <= y, '>': x > y, '>=': x >= y, '==': x == y, '!=': x != y}[op]))
            return node('cmp', op, a, b)
        raise Unsupported('operator ' + op)

    def store(self, tgt, v):
        t = ir.strip(tgt)
        if t['k'] == 'ref':
            self.env[t['id']] = v
            return
        if t['k'] == 'idx':
            base = self.ev(t['b'])
            i = self.ev(t['i'])
            if isinstance(base, list) and i.op == 'const':
                base[i.a[0]] = v
                return
        raise Unsupported('store target ' + t['k'])

    def call(self, e):
        cal = e.get('callee')
        name = cal['n'] if cal else '?'
        hook = self.hooks.get(name)
        if hook is not None:
            r = hook(self, e)
            if r is not None:
                return r
        callee = self.db.callee(self.fn, e)
        if callee is None or 'body' not in callee:
            raise Unsupported('call to ' + (cal['q'] if cal else '?'))
        if self.depth > 8:
            raise Unsupported('inlining depth')
        args = [self.ev(a) for a in e['args']]
        sub = TermExec(self.db, callee, self.hooks)
        sub.depth = self.depth + 1
        sub.assume = self.assume
        obj = self.ev(e['obj']) if 'obj' in e else None
        sub.this = obj
        for p, a in zip(callee['params'], args):
            sub.env[p['id']] = a
        return sub.run_body(callee['body'])

    def run_body(self, body):
        try:
            self.stmts(ir.stmt_list(body))
        except Ret as r:
            return r.v
        return None

    def stmts(self, lst):
        for s in lst:
            self.stmt(s)

    def stmt(self, s):
        k = s['k']
        if k == 'block':
            self.stmts(s['body'])
        elif k == 'decl':
            for v in s['vars']:
                if 'id' not in v:
                    continue
                if v.get('init') is not None:
                    val = self.ev(v['init'])
                    if isinstance(val, list):
                        val = list(val)
                    self.env[v['id']] = val
        elif k == 'expr':
            self.ev(s['e'])
        elif k == 'ret':
            raise Ret(self.ev(s['e']) if s.get('e') is not None else None)
        elif k == 'null':
            pass
        elif k == 'if':
            if self.truth(s['cond']):
                self.stmt(s['then'])
            elif s.get('else') is not None:
                self.stmt(s['else'])
        elif k in ('for', 'while'):
            if k == 'for' and s.get('init') is not None:
                self.stmt(s['init'])
            while s.get('cond') is None or self.truth(s['cond']):
                self.fuel -= 1
                if self.fuel < 0:
                    raise Unsupported('loop does not terminate within the evaluation budget')
                try:
                    self.stmt(s['body'])
                except Break:
                    break
                except Continue:
                    pass
                if k == 'for' and s.get('inc') is not None:
                    self.ev(s['inc'])
        elif k == 'switch':
            v = self.ev(s['cond'])
            if not (isinstance(v, N) and v.op == 'const'):
                raise Unsupported('switch on a non-constant value ' + show(v)[:60])
            started = False
            labels = ir.stmt_list(s['body'])
            has_match = any(self._label_matches(cs, v.a[0]) for cs in labels)
            try:
                for cs in labels:
                    nd = cs
                    while nd['k'] in ('case', 'default'):
                        if not started and ((nd['k'] == 'case' and ir.const_of(nd['v']) == v.a[0]) or (nd['k'] == 'default' and not has_match)):
                            started = True
                        nd = nd['sub']
                    if started:
                        self.stmt(nd)
            except Break:
                pass
        elif k == 'break':
            raise Break()
        elif k == 'continue':
            raise Continue()
        else:
            raise Unsupported('statement ' + k)

    @staticmethod
    def _label_matches(cs, val):
        while cs['k'] in ('case', 'default'):
            if cs['k'] == 'case' and ir.const_of(cs['v']) == val:
                return True
            cs = cs['sub']
        return False

    def truth(self, cond):
        v = self.ev(cond)
        if not (isinstance(v, N) and v.op == 'const'):
            raise Unsupported('branch on a non-constant condition ' + show(v)[:80])
        return v.a[0] != 0


def show(t, depth=0):
    if isinstance(t, list):
        return '[' + ', '.join(show(x) for x in t) + ']'
    if not isinstance(t, N):
        return str(t)
    if t.op == 'const':
        return hex(t.a[0]) if t.a[0] > 9 else str(t.a[0])
    if t.op == 'sym':
        return t.a[0]
    if depth > 5:
        return '…'
    return '%s(%s)' % (t.op, ', '.join(show(x, depth + 1) for x in t.a))
