"""Catalogue of types for C09 and the generator of its compile-time witness TU.

Each catalogue entry couples a C++ type expression with its *documented wire layout* (docs/format.md and
getting-started.md "Fungibility"), written as a small tree.  The compiler evaluates IsFungible<A,B> for every
ordered pair (static_asserts; failures are parsed back); `compat` decides whether the two documented layouts
are interchangeable on the wire.  That the encoders emit the documented layouts is decided by C03/C04 on the
same tree; C09 adds trait => layout compatibility, reflexivity, symmetry and the documented pairs.
"""

PRELUDE = r'''
#include <array>
#include <cstdint>
#include <map>
#include <string>
#include <tuple>
#include <unordered_map>
#include <utility>
#include <vector>

#include <nop/serializer.h>
#include <nop/structure.h>
#include <nop/table.h>
#include <nop/value.h>
#include <nop/protocol.h>
#include <nop/traits/is_fungible.h>
#include <nop/types/optional.h>
#include <nop/types/result.h>
#include <nop/types/variant.h>
#include <nop/utility/buffer_reader.h>
#include <nop/utility/buffer_writer.h>

namespace cat {
enum class E8 : std::uint8_t { A, B };
enum class E32 : std::int32_t { A, B };
enum class Err { None, Bad };
enum class Err2 { None, Worse };
template <typename T> struct W { T value; NOP_VALUE(W, value); };
template <typename T, std::size_t N> struct WB { std::array<T, N> data; std::size_t size; NOP_VALUE(WB, (data, size)); };
template <typename T, std::size_t N> struct WA { T lanes[N]; NOP_VALUE(WA, lanes); };   // value wrapper around a plain C array
struct S1 { std::int32_t a; std::string b; NOP_STRUCTURE(S1, a, b); };
struct S2 { std::int32_t x; std::string y; NOP_STRUCTURE(S2, x, y); };
struct S3 { std::string a; std::int32_t b; NOP_STRUCTURE(S3, a, b); };
struct S4 { W<std::int32_t> a; std::string b; NOP_STRUCTURE(S4, a, b); };
struct S5 { std::vector<std::int32_t> v; NOP_STRUCTURE(S5, v); };
template <typename T, std::size_t N, typename S> struct LBc { T data[N]; S size; NOP_STRUCTURE(LBc, (data, size)); };
template <typename T, std::size_t N, typename S> struct LBa { std::array<T, N> data; S size; NOP_STRUCTURE(LBa, (data, size)); };
struct TA { nop::Entry<std::int32_t, 1> a; nop::Entry<std::string, 2> b; NOP_TABLE_NS("cat.T", TA, a, b); };
struct TB { nop::Entry<W<std::int32_t>, 1> a; nop::Entry<std::string, 2> b; NOP_TABLE_NS("cat.T", TB, a, b); };
struct TC { nop::Entry<std::int32_t, 1> a; nop::Entry<std::string, 2> b; NOP_TABLE_NS("cat.Other", TC, a, b); };
struct TD { nop::Entry<std::string, 1> a; nop::Entry<std::string, 2> b; NOP_TABLE_NS("cat.T", TD, a, b); };
struct TE { nop::Entry<std::int32_t, 1, nop::DeletedEntry> a; nop::Entry<std::string, 2> b; NOP_TABLE_NS("cat.T", TE, a, b); };
struct TF { nop::Entry<W<std::int32_t>, 1, nop::DeletedEntry> a; nop::Entry<std::string, 2> b; NOP_TABLE_NS("cat.T", TF, a, b); };
}  // namespace cat
using namespace cat;
'''

I32, I64, U8, U32 = 'std::int32_t', 'std::int64_t', 'std::uint8_t', 'std::uint32_t'
STR = 'std::string'
SIZES = {I32: 4, I64: 8, U8: 1, U32: 4, 'std::uint64_t': 8, 'std::uint16_t': 2, 'char': 1, 'std::int8_t': 1, 'bool': 1}


def scalar(cpp):
    return {'cpp': cpp, 'sig': ('SCALAR', cpp), 'integral': cpp in SIZES, 'size': SIZES.get(cpp), 'ty': ('scalar', cpp)}


def string():
    return {'cpp': STR, 'sig': ('STR', 1), 'integral': False, 'ty': ('scalar', STR)}


def seq_sig(elem, count, cap=None):
    """documented container layout for a sequence of `elem`: BIN for integral elements, ARY otherwise"""
    if elem['integral']:
        return ('BIN', elem['cpp'], elem['size'], count, cap)
    return ('ARY', ('homog', elem['sig'], count, cap))


def vector(e):
    return {'cpp': 'std::vector<%s>' % e['cpp'], 'sig': seq_sig(e, None), 'integral': False, 'ty': ('seq', 'vector', e, None)}


def array(e, n):
    return {'cpp': 'std::array<%s, %d>' % (e['cpp'], n), 'sig': seq_sig(e, n), 'integral': False, 'ty': ('seq', 'array', e, n)}


def carray(e, n):
    # an array of C arrays is spelled with the new (outer) extent first: int[2][3] is 2 arrays of int[3]
    base, _, ext = e['cpp'].partition('[')
    cpp = '%s[%d]%s' % (base, n, '[' + ext if ext else '')
    return {'cpp': cpp, 'sig': seq_sig(e, n), 'integral': False, 'ty': ('seq', 'carray', e, n)}


def tup(*es):
    return {'cpp': 'std::tuple<%s>' % ', '.join(e['cpp'] for e in es), 'sig': ('ARY', ('hetero', tuple(e['sig'] for e in es))), 'integral': False, 'ty': ('tuple', es)}


def pair(a, b):
    return {'cpp': 'std::pair<%s, %s>' % (a['cpp'], b['cpp']), 'sig': ('ARY', ('hetero', (a['sig'], b['sig']))), 'integral': False, 'ty': ('pair', (a, b))}


def mapof(kind, k, v):
    return {'cpp': 'std::%s<%s, %s>' % (kind, k['cpp'], v['cpp']), 'sig': ('MAP', k['sig'], v['sig']), 'integral': False, 'ty': ('map', k, v)}


def wrap(e):
    return {'cpp': 'W<%s>' % e['cpp'], 'sig': e['sig'], 'integral': False, 'ty': ('wrap', e)}     # a value wrapper shares the wrapped encoding


def lbuf(arr):
    """the logical buffer a (data, size) member pair denotes; not a C++ type of its own"""
    return {'cpp': 'LogicalBuffer<%s>' % arr['cpp'], 'sig': None, 'integral': False, 'ty': ('lbuf', arr)}


def cref(e):
    """`const T&` as it appears in a function signature: the same type after decay"""
    d = dict(e)
    d['cpp'] = 'const %s&' % e['cpp']
    return d


def lb(form, e, n, s):
    return {'cpp': '%s<%s, %d, %s>' % (form, e['cpp'], n, s), 'sig': ('STU', (seq_sig(e, None, n),)), 'integral': False,
            'ty': ('struct', (lbuf(carray(e, n) if form == 'LBc' else array(e, n)),))}


def wb(e, n):
    return {'cpp': 'WB<%s, %d>' % (e['cpp'], n), 'sig': seq_sig(e, None, n), 'integral': False, 'ty': ('wrap', lbuf(array(e, n)))}


def wa(e, n):
    return {'cpp': 'WA<%s, %d>' % (e['cpp'], n), 'sig': seq_sig(e, n), 'integral': False, 'ty': ('wrap', carray(e, n))}


def struct(name, *members):
    return {'cpp': name, 'sig': ('STU', tuple(m['sig'] for m in members)), 'integral': False, 'ty': ('struct', members)}


def opt(e):
    return {'cpp': 'nop::Optional<%s>' % e['cpp'], 'sig': ('OPT', e['sig']), 'integral': False, 'ty': ('opt', e)}


def res(err, e):
    return {'cpp': 'nop::Result<%s, %s>' % (err, e['cpp']), 'sig': ('RES', err, e['sig']), 'integral': False, 'ty': ('res', err, e)}


def var(*es):
    return {'cpp': 'nop::Variant<%s>' % ', '.join(e['cpp'] for e in es), 'sig': ('VAR', tuple(e['sig'] for e in es)), 'integral': False, 'ty': ('var', es)}


def table(name, hashname, entries, deleted=()):
    return {'cpp': name, 'sig': ('TAB', hashname, tuple(sorted((i, e['sig'], i not in deleted) for i, e in entries))), 'integral': False,
            'ty': ('table', hashname, tuple(ent(e, i, i not in deleted) for i, e in entries))}


def ent(e, i, active=True):
    return {'cpp': 'nop::Entry<%s, %d%s>' % (e['cpp'], i, '' if active else ', nop::DeletedEntry'), 'sig': ('ENT', i, active, e['sig']), 'integral': False, 'ty': ('ent', i, active, e)}


def fn(ret, *args):
    return {'cpp': '%s(%s)' % (ret['cpp'] if ret else 'void', ', '.join(a['cpp'] for a in args)),
            'sig': ('SIG', ret['sig'] if ret else ('VOID',), tuple(a['sig'] for a in args)), 'integral': False, 'function': True, 'ty': ('fn', ret, args)}


def catalogue():
    i32, i64, u8, u32 = scalar(I32), scalar(I64), scalar(U8), scalar(U32)
    s = string()
    f32 = {'cpp': 'float', 'sig': ('SCALAR', 'float'), 'integral': False, 'ty': ('scalar', 'float')}
    e8 = {'cpp': 'E8', 'sig': ('SCALAR', 'E8'), 'integral': False, 'ty': ('scalar', 'E8')}
    b = scalar('bool')
    wi, ws = wrap(i32), wrap(s)
    c = [b, u8, i32, u32, i64, f32, e8, s,
         vector(u8), vector(i32), vector(i64), vector(s), vector(wi), vector(f32), vector(ws),
         array(u8, 4), array(i32, 3), array(i64, 3), array(s, 2), array(wi, 3), array(s, 3),
         carray(i32, 3), carray(s, 2), carray(wi, 3),
         tup(i32, i32, i32), tup(s, s), tup(i32, s), tup(wi, wi, wi), tup(s, s, s),
         pair(i32, s), pair(s, s), pair(i32, i32), pair(s, i32), pair(wi, s),
         mapof('map', i32, s), mapof('unordered_map', i32, s), mapof('map', s, i32), mapof('map', wi, s),
         lb('LBc', u8, 8, 'std::uint8_t'), lb('LBc', i32, 8, 'std::uint16_t'), lb('LBa', i32, 8, 'std::size_t'), lb('LBc', s, 4, 'std::uint32_t'),
         lb('LBc', i32, 3, 'int'), lb('LBc', wi, 3, 'int'), lb('LBa', wi, 8, 'std::size_t'), lb('LBa', i32, 4, 'std::uint8_t'),
         wi, ws, wrap(vector(i32)), wb(i32, 4), wb(s, 2), wa(i32, 4), wa(f32, 2), carray(i32, 8), carray(f32, 3), array(i32, 4), tup(f32, f32),
         lb('LBc', f32, 4, 'std::size_t'), array(f32, 4),
         struct('S1', i32, s), struct('S2', i32, s), struct('S3', s, i32), struct('S4', wi, s), struct('S5', vector(i32)),
         opt(i32), opt(wi), opt(s), res('Err', i32), res('Err', wi), res('Err2', i32), res('Err', s),
         var(i32, s), var(s, i32), var(wi, s),
         table('TA', 'cat.T', [(1, i32), (2, s)]), table('TB', 'cat.T', [(1, wi), (2, s)]), table('TC', 'cat.Other', [(1, i32), (2, s)]),
         table('TD', 'cat.T', [(1, s), (2, s)]), table('TE', 'cat.T', [(1, i32), (2, s)], deleted=(1,)),
         table('TF', 'cat.T', [(1, wi), (2, s)], deleted=(1,)),
         ent(i32, 1), ent(wi, 1), ent(i32, 1, False), ent(wi, 1, False), ent(i32, 2), ent(s, 1),
         fn(i32, i32, s), fn(i32, wi, s), fn(None, vector(i32)), fn(None, array(i32, 3)), fn(i32, s, i32),
         fn(i32, cref(s), i32), fn(None, cref(vector(i32))), fn(i32, cref(i32), cref(s)),
         carray(carray(i32, 3), 2), carray(carray(i32, 4), 2), array(carray(i32, 3), 2), array(carray(i32, 4), 2), array(array(i32, 3), 2),
         vector(array(i32, 3)), vector(vector(i32)), tup(cref(array(i32, 3)), cref(array(i32, 3))), tup(cref(vector(i32)), cref(vector(i32))),
         carray(array(f32, 2), 2), carray(vector(f32), 2), carray(array(f32, 2), 3), carray(vector(f32), 1),
         tup(carray(i32, 3)), tup(carray(i32, 4)), tup(array(i32, 3)), pair(carray(i32, 3), i32), pair(carray(i32, 4), i32), pair(array(i32, 3), i32),
         tup(vector(i32), f32), tup(array(i32, 3), f32), pair(vector(i32), f32), tup(wi, s), array(tup(i32, s), 2), vector(pair(wi, s))]
    return c


# documented fungible pairs (getting-started.md "Fungible Types" and the comments of is_fungible.h): indices into names
def documented(c):
    idx = {e['cpp']: i for i, e in enumerate(c)}
    pairs = [
        ('std::vector<std::int32_t>', 'std::array<std::int32_t, 3>'), ('std::vector<std::int32_t>', 'std::int32_t[3]'),
        ('std::array<std::int32_t, 3>', 'std::int32_t[3]'), ('std::vector<std::string>', 'std::array<std::string, 2>'),
        ('std::vector<std::string>', 'std::tuple<std::string, std::string>'), ('std::array<std::string, 2>', 'std::tuple<std::string, std::string>'),
        ('std::string[2]', 'std::tuple<std::string, std::string>'), ('std::pair<std::int32_t, std::string>', 'std::tuple<std::int32_t, std::string>'),
        ('std::pair<std::string, std::string>', 'std::tuple<std::string, std::string>'),
        ('std::map<std::int32_t, std::string>', 'std::unordered_map<std::int32_t, std::string>'),
        ('W<std::int32_t>', 'std::int32_t'), ('W<std::string>', 'std::string'), ('W<std::vector<std::int32_t>>', 'std::vector<std::int32_t>'),
        ('WB<std::int32_t, 4>', 'std::vector<std::int32_t>'), ('WB<std::string, 2>', 'std::vector<std::string>'),
        ('WA<std::int32_t, 4>', 'std::array<std::int32_t, 4>'), ('WA<std::int32_t, 4>', 'std::vector<std::int32_t>'), ('WA<float, 2>', 'std::tuple<float, float>'),
        ('S1', 'S2'), ('S1', 'S4'), ('TA', 'TB'),
        ('nop::Optional<std::int32_t>', 'nop::Optional<W<std::int32_t>>'), ('nop::Result<Err, std::int32_t>', 'nop::Result<Err, W<std::int32_t>>'),
        ('nop::Variant<std::int32_t, std::string>', 'nop::Variant<W<std::int32_t>, std::string>'),
        ('std::int32_t(std::int32_t, std::string)', 'std::int32_t(W<std::int32_t>, std::string)'),
        ('void(std::vector<std::int32_t>)', 'void(std::array<std::int32_t, 3>)'),
    ]
    return [(idx[a], idx[b]) for a, b in pairs]


def doc(a, b):
    """does the documentation (getting-started.md "Fungible Types", the comments of is_fungible.h) declare the two types fungible?
    a, b: catalogue entries.  This is the documented relation written down once, by type constructor; it is deliberately not the
    wire relation (`compat`), which is larger."""
    x, y = a['ty'], b['ty']
    decay = lambda e: e['cpp'][6:-1] if e['cpp'].startswith('const ') and e['cpp'].endswith('&') else e['cpp']
    if decay(a) == decay(b):
        return True
    if x[0] == 'wrap' or y[0] == 'wrap':
        return doc(x[1] if x[0] == 'wrap' else a, y[1] if y[0] == 'wrap' else b)
    same_format = lambda p, q: p['integral'] == q['integral']
    all2 = lambda ps, qs: len(ps) == len(qs) and all(doc(p, q) for p, q in zip(ps, qs))
    if x[0] == 'seq' and y[0] == 'seq':
        fixed = x[3] is not None and y[3] is not None
        return doc(x[2], y[2]) and same_format(x[2], y[2]) and (not fixed or x[3] == y[3])
    if x[0] == 'map' and y[0] == 'map':
        return doc(x[1], y[1]) and doc(x[2], y[2])
    if x[0] in ('tuple', 'pair') and y[0] in ('tuple', 'pair'):
        return all2(x[1], y[1])
    if {x[0], y[0]} == {'seq', 'tuple'}:
        s_, t_ = (x, y) if x[0] == 'seq' else (y, x)
        if any(q['cpp'].startswith('const ') and q['cpp'].endswith('&') for q in t_[1]):
            return False        # tuples of references (std::tie / forward_as_tuple) against sequences: not documented either way
        if s_[2]['integral'] or (s_[3] is not None and s_[3] != len(t_[1])):
            return False
        return all(doc(s_[2], q) for q in t_[1])
    if x[0] == 'lbuf' and y[0] == 'lbuf':
        return doc(x[1], y[1])
    if {x[0], y[0]} == {'lbuf', 'seq'}:
        l_, s_ = (x, b) if x[0] == 'lbuf' else (y, a)
        return s_['ty'][1] == 'vector' and doc(l_[1], s_)
    if x[0] == 'struct' and y[0] == 'struct':
        return all2(x[1], y[1])
    if x[0] == 'opt' and y[0] == 'opt':
        return doc(x[1], y[1])
    if x[0] == 'res' and y[0] == 'res':
        return x[1] == y[1] and doc(x[2], y[2])
    if x[0] == 'var' and y[0] == 'var':
        return all2(x[1], y[1])
    if x[0] == 'ent' and y[0] == 'ent':
        return x[1] == y[1] and x[2] == y[2] and doc(x[3], y[3])
    if x[0] == 'table' and y[0] == 'table':
        return x[1] == y[1] and all2(x[2], y[2])
    if x[0] == 'fn' and y[0] == 'fn':
        rx, ry = x[1], y[1]
        return ((rx is None) == (ry is None)) and (rx is None or doc(rx, ry)) and all2(x[2], y[2])
    return False


def compat(a, b):
    """are two documented layouts interchangeable on the wire (counts assumed to fit)?"""
    if a[0] != b[0]:
        return False
    k = a[0]
    if k in ('SCALAR', 'STR', 'VOID'):
        return a == b
    if k == 'BIN':
        if a[1] != b[1]:
            return False
        ca, cb = a[3], b[3]
        return ca is None or cb is None or ca == cb
    if k == 'ARY':
        x, y = a[1], b[1]
        if x[0] == 'homog' and y[0] == 'homog':
            if not compat(x[1], y[1]):
                return False
            return x[2] is None or y[2] is None or x[2] == y[2]
        if x[0] == 'hetero' and y[0] == 'hetero':
            return len(x[1]) == len(y[1]) and all(compat(p, q) for p, q in zip(x[1], y[1]))
        h, t = (x, y) if x[0] == 'homog' else (y, x)
        if h[2] is not None and h[2] != len(t[1]):
            return False
        return all(compat(h[1], q) for q in t[1])
    if k == 'MAP':
        return compat(a[1], b[1]) and compat(a[2], b[2])
    if k == 'STU':
        return len(a[1]) == len(b[1]) and all(compat(p, q) for p, q in zip(a[1], b[1]))
    if k == 'OPT':
        return compat(a[1], b[1])
    if k == 'RES':
        return a[1] == b[1] and compat(a[2], b[2])
    if k == 'VAR':
        return len(a[1]) == len(b[1]) and all(compat(p, q) for p, q in zip(a[1], b[1]))
    if k == 'TAB':
        if a[1] != b[1]:
            return False
        da, db_ = {x[0]: x for x in a[2]}, {x[0]: x for x in b[2]}
        # an entry that is active on one side and deleted on the other is written by one definition and dropped by the other
        return all(da[i][2] == db_[i][2] and (not da[i][2] or compat(da[i][1], db_[i][1])) for i in set(da) & set(db_))
    if k == 'ENT':
        return a[1] == b[1] and a[2] == b[2] and (not a[2] or compat(a[3], b[3]))
    if k == 'SIG':
        return compat(a[1], b[1]) and len(a[2]) == len(b[2]) and all(compat(p, q) for p, q in zip(a[2], b[2]))
    return False


def generate(path):
    c = catalogue()
    lines = [PRELUDE]
    for i, e in enumerate(c):
        lines.append('using T%d = %s;' % (i, e['cpp']))
    for i in range(len(c)):
        for j in range(len(c)):
            lines.append('static_assert(nop::IsFungible<T%d, T%d>::value, "W:pair.%d.%d");' % (i, j, i, j))
    # Protocol gating: a non-fungible argument must not compile, a fungible one must
    lines.append(r'''
inline void ProtocolTwin() {
  std::uint8_t buffer[32];
  nop::Serializer<nop::BufferWriter> s{buffer, sizeof(buffer)};
  nop::Deserializer<nop::BufferReader> d{buffer, sizeof(buffer)};
  (void)nop::Protocol<std::vector<std::int32_t>>::Write(&s, std::array<std::int32_t, 3>{{1, 2, 3}});
  std::array<std::int32_t, 3> out;
  (void)nop::Protocol<std::vector<std::int32_t>>::Read(&d, &out);
}
// MUSTCOMPILE protocol_admits_c_arrays
inline void ProtocolCArray() {
  std::uint8_t buffer[32];
  nop::Serializer<nop::BufferWriter> s{buffer, sizeof(buffer)};
  nop::Deserializer<nop::BufferReader> d{buffer, sizeof(buffer)};
  std::int32_t in[3] = {1, 2, 3};
  (void)nop::Protocol<std::vector<std::int32_t>>::Write(&s, in);
  (void)nop::Protocol<std::array<std::int32_t, 3>>::Write(&s, in);
  std::int32_t out[3];
  (void)nop::Protocol<std::vector<std::int32_t>>::Read(&d, &out);
  (void)nop::Protocol<std::int32_t[3]>::Read(&d, &out);
}
// END protocol_admits_c_arrays
// MUSTFAIL protocol_write_rejects_c_array_of_other_extent
inline void ProtocolBadExtentWrite() {
  std::uint8_t buffer[32];
  nop::Serializer<nop::BufferWriter> s{buffer, sizeof(buffer)};
  std::int32_t in[4] = {1, 2, 3, 4};
  (void)nop::Protocol<std::int32_t[3]>::Write(&s, in);
}
// END protocol_write_rejects_c_array_of_other_extent
// MUSTFAIL protocol_read_rejects_c_array_of_other_extent
inline void ProtocolBadExtentRead() {
  std::uint8_t buffer[32];
  nop::Deserializer<nop::BufferReader> d{buffer, sizeof(buffer)};
  std::int32_t out[4];
  (void)nop::Protocol<std::int32_t[3]>::Read(&d, &out);
}
// END protocol_read_rejects_c_array_of_other_extent
// MUSTFAIL protocol_write_rejects_non_fungible
inline void ProtocolBadWrite() {
  std::uint8_t buffer[32];
  nop::Serializer<nop::BufferWriter> s{buffer, sizeof(buffer)};
  (void)nop::Protocol<std::vector<std::int32_t>>::Write(&s, std::string{"x"});
}
// END protocol_write_rejects_non_fungible
// MUSTFAIL protocol_read_rejects_non_fungible
inline void ProtocolBadRead() {
  std::uint8_t buffer[32];
  nop::Deserializer<nop::BufferReader> d{buffer, sizeof(buffer)};
  std::vector<std::string> out;
  (void)nop::Protocol<std::vector<std::int32_t>>::Read(&d, &out);
}
// END protocol_read_rejects_non_fungible
''')
    with open(path, 'w') as f:
        f.write('\n'.join(lines) + '\n')
    return c
