"""Obligation bookkeeping, known-findings filter, evidence writer, exit codes."""
import json
import os
import sys
import time

VERIF = os.path.dirname(os.path.dirname(os.path.abspath(__file__)))
OUT = os.environ.get('NOPSA_OUT') or VERIF


class Check:
    def __init__(self, prop, tier, seed=0):
        self.prop = prop
        self.tier = tier
        self.seed = seed
        self.t0 = time.time()
        self.obs = []            # (rule, site, status, detail)
        self.rules = {}          # rule -> description
        self.counts = {}         # rule -> minimum instance count required
        self.notes = []
        self.assumptions = []
        self.explanation = ''
        self.extra = {}
        self.broken = []
        with open(os.path.join(VERIF, 'known_findings.json')) as f:
            self.known = [k for k in json.load(f)['findings'] if k['property'] == prop]

    # -- recording ---------------------------------------------------------
    def rule(self, rid, text, minimum=1):
        self.rules[rid] = text
        self.counts[rid] = minimum

    def ok(self, rule, site, detail=''):
        self.obs.append((rule, site, 'ok', detail))

    def bad(self, rule, site, detail, function=''):
        self.obs.append((rule, site, 'violated', detail, function))

    def decide(self, cond, rule, site, detail='', function=''):
        if cond:
            self.ok(rule, site, detail)
        else:
            self.bad(rule, site, detail, function)
        return cond

    def unanalysable(self, rule, site, detail):
        self.broken.append((rule, site, detail))

    # -- finishing ---------------------------------------------------------
    def _match_known(self, ob):
        rule, site, _, detail = ob[:4]
        function = ob[4] if len(ob) > 4 else ''
        for k in self.known:
            if k.get('status') != 'known':
                continue
            if k['rule'] != rule:
                continue
            s = k['site']
            if s.get('file') and not site.startswith(s['file']):
                continue
            if s.get('function') and s['function'] not in (function or detail):
                continue
            return k
        return None

    def finish(self):
        wall = time.time() - self.t0
        # vacuity: every declared rule must have been instantiated often enough
        per_rule = {}
        for ob in self.obs:
            per_rule[ob[0]] = per_rule.get(ob[0], 0) + 1
        if os.environ.get('NOPSA_MARGINS'):
            for rid, minimum in sorted(self.counts.items()):
                print('MARGIN %s %s sites=%d minimum=%d' % (self.pid if hasattr(self, 'pid') else '', rid, per_rule.get(rid, 0), minimum))
        for rid, minimum in self.counts.items():
            if per_rule.get(rid, 0) < minimum:
                self.broken.append((rid, '-', 'rule matched %d sites, fewer than the %d confirmed on the reference tree'
                                    % (per_rule.get(rid, 0), minimum)))
        violations = []
        known_hit = []
        for ob in self.obs:
            if ob[2] != 'violated':
                continue
            k = self._match_known(ob)
            if k:
                known_hit.append((k, ob))
            else:
                violations.append(ob)
        outdir = os.path.join(OUT, 'out', self.prop)
        os.makedirs(outdir, exist_ok=True)
        lines = []
        seen_known = set()
        for k, ob in known_hit:
            key = (k['rule'], k['site'].get('file'), k['site'].get('function'))
            if key in seen_known:
                continue
            seen_known.add(key)
            lines.append('KNOWN-FINDING: property=%s %s %s: %s' % (self.prop, k['id'], ob[1], k['what']))
        grouped = {}
        for ob in violations:
            grouped.setdefault((ob[0], ob[1]), []).append(ob)
        violations_distinct = [v[0] + (len(v),) for v in grouped.values()]
        for i, ob in enumerate(violations_distinct):
            path = os.path.join(outdir, 'violation-%d.json' % i)
            with open(path, 'w') as f:
                json.dump({'property': self.prop, 'rule': ob[0], 'rule_text': self.rules.get(ob[0], ''), 'site': ob[1],
                           'detail': ob[3], 'function': ob[4] if len(ob) > 5 else '', 'instances': ob[-1],
                           'recheck': 'python3 checks/run.py %s --tier %s' % (self.prop, self.tier)}, f, indent=1)
            lines.append('VIOLATION property=%s replay=%s' % (self.prop, path))
            lines.append('  rule %s at %s (%d instance(s)): %s' % (ob[0], ob[1], ob[-1], ob[3]))
        for b in self.broken:
            lines.append('ANALYSIS-BROKEN property=%s reason=%s site=%s rule=%s' % (self.prop, b[2], b[1], b[0]))
        n_ob = len(self.obs)
        n_ok = sum(1 for ob in self.obs if ob[2] == 'ok')
        distinct = len({(ob[0], ob[1]) for ob in self.obs})
        samples = []
        seen_rules = {}
        for ob in self.obs:
            if seen_rules.get(ob[0], 0) < 3:
                seen_rules[ob[0]] = seen_rules.get(ob[0], 0) + 1
                samples.append({'rule': ob[0], 'site': ob[1], 'verdict': ob[2], 'detail': ob[3][:300]})
        ev = {
            'property_id': self.prop,
            'tier': self.tier,
            'seed': self.seed,
            'level': 'other',
            'coverage': {
                'explanation': self.explanation,
                'obligations': n_ob,
                'discharged': n_ok,
                'evaluations': n_ob,
                'distinct_nontrivial': distinct,
                'rule': 'one obligation per (rule, site) where the rule precondition matched in an analysed function '
                        'instance; distinct = distinct (rule, file:line) pairs; rules: ' +
                        '; '.join('%s = %s' % kv for kv in sorted(self.rules.items())),
                'per_rule': per_rule,
                'samples': samples,
                'known_findings_hit': sorted({k['id'] for k, _ in known_hit}),
                'analysis_broken': [list(b) for b in self.broken],
                'exhaustive': False,
            },
            'assumptions': self.assumptions,
            'wall_s': round(wall, 2),
            'violations': len(violations),
        }
        ev['coverage'].update(self.extra)
        os.makedirs(os.path.join(OUT, 'evidence'), exist_ok=True)
        with open(os.path.join(OUT, 'evidence', self.prop + '.json'), 'w') as f:
            json.dump(ev, f, indent=1)
        try:
            self._print(lines, n_ob, n_ok, violations, seen_known, per_rule, wall)
        except BrokenPipeError:
            pass
        if violations:
            return 1
        if self.broken:
            return 2
        return 0

    def _print(self, lines, n_ob, n_ok, violations, seen_known, per_rule, wall):
        print('%s tier=%s obligations=%d discharged=%d violations=%d known=%d broken=%d wall=%.1fs' %
              (self.prop, self.tier, n_ob, n_ok, len(violations), len(seen_known), len(self.broken), wall))
        for rid in sorted(self.rules):
            print('  %-6s %4d sites  %s' % (rid, per_rule.get(rid, 0), self.rules[rid][:110]))
        for l in lines:
            print(l)
        if violations:
            return 1
        if self.broken:
            return 2
        return 0


class Scratch(Check):
    """Recorder used for rule self-tests on fixtures (no known findings, no output)."""

    def __init__(self):
        self.prop = 'fixture'
        self.tier = 'quick'
        self.seed = 0
        self.t0 = time.time()
        self.obs = []
        self.rules = {}
        self.counts = {}
        self.notes = []
        self.assumptions = []
        self.explanation = ''
        self.extra = {}
        self.broken = []
        self.known = []

    def violated(self, rule):
        return [ob for ob in self.obs if ob[0] == rule and ob[2] == 'violated']


def selftest(chk, rules_fn, fixture, expect):
    """Run the property's rules on a fixture translation unit that contains one
    deliberately broken instance per zero-expected rule.  A rule that stays silent
    on its fixture is reported as analysis-broken: a rule that cannot fire proves
    nothing by staying quiet on the real tree."""
    from . import facts
    path = os.path.join(VERIF, 'fixtures', fixture)
    db = facts.load('quick', want_tus=[path])
    sc = Scratch()
    rules_fn(sc, db)
    fired = {}
    for rule, minimum in expect.items():
        n = len(sc.violated(rule))
        fired[rule] = n
        if n < minimum:
            chk.broken.append((rule, 'fixtures/' + fixture,
                               'self-test: rule fired %d times on its positive fixture, expected >= %d' % (n, minimum)))
    chk.extra.setdefault('selftest', {})[fixture] = fired
    return sc
