"""Copy / move special members of the library's small value-like classes (readers, writers, bounded wrappers, BlockReader).

A class whose position, limit and target live in plain fields must hand ALL of them over when it is copied, moved or assigned:
`Deserializer<BoundedReader<R>>` copies its reader when it is moved, SipHash takes readers by value, tests re-seat readers by
assignment.  Members that are defaulted are memberwise by definition; every user-provided one is executed abstractly
(nopsa/absx.py) from distinguishable field values and must leave the destination equal to the source's previous state.
"""
from . import absx, facts, ir


def fn_sig(fn):
    return '%s(%s)' % (fn['n'], ', '.join(p['t'].replace('nop::', '')[:40] for p in fn['params']))


def special_members(db, recq):
    return [f for f in db.fns if f.get('rec') == recq and (f.get('copyctor') or f.get('movector') or f.get('copyassign') or f.get('moveassign'))]


def check(chk, db, rule, rects, minimum=4, text=None):
    chk.rule(rule, text or 'copy/move construction and assignment hand over every field (position, limit, target)', minimum=minimum)
    seen = set()
    for recq, r in sorted(db.records.items()):
        if r.get('rect') not in rects and recq not in rects:
            continue
        fields = [x for x in r.get('fields', []) if x.get('scalar') or x['t'].rstrip().endswith('*') or x['t'] in ('int', 'unsigned long', 'bool')]
        if not fields or len(fields) != len(r.get('fields', [])):
            continue        # holds a non-scalar member (a stream by value, ...): not decided here
        for f in special_members(db, recq):
            key = (r.get('rect') or recq, f['file'], f['pat']['l'] if f.get('pat') else 0, f['n'], bool(f.get('ctor')))
            if key in seen:
                continue
            seen.add(key)
            where = '%s:%d %s' % (f['file'], (f.get('pat') or {}).get('l', 0), fn_sig(f))
            label = '%s::%s' % ((r.get('rect') or recq).replace('nop::', ''), fn_sig(f))
            if f.get('deleted'):
                continue
            if 'body' not in f and not f.get('inits'):
                chk.ok(rule, where, '%s is defaulted: memberwise' % label)
                continue
            w = absx.World(db)
            w.declare(('A',), recq)
            w.declare(('B',), recq)
            src = {}
            for i, x in enumerate(fields):
                w.cells[('A', x['n'])] = 100 + i
                w.cells[('B', x['n'])] = 200 + i
                src[x['n']] = 200 + i
            it = absx.Interp(w)
            try:
                it.run(f, ('A',), [absx.Loc(('B',))], None)
            except absx.Unsupported as e:
                chk.unanalysable(rule, where, 'cannot execute %s abstractly: %s' % (label, e))
                continue
            got = {x['n']: w.cells.get(('A', x['n'])) for x in fields}
            lost = sorted(n for n in src if got.get(n) != src[n])
            chk.decide(not lost, rule, where, '%s: %s' % (label, 'every field taken from the source' if not lost else
                                                          'field(s) %s are NOT taken from the source (the destination keeps stale state)' % lost), function=label)
