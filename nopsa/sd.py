"""Status discipline (SD): abstract interpretation of every function instance over the
domain  {status local -> Untested(origin) | Ok | Failed}.

Obligations per status-producing call site (a call whose static type is nop::Status<X>
or nop::Result<nop::ErrorStatus, X> by value):

  SD1 consumed   the call initialises / is assigned to a status local, or is returned
                 directly.  A discarded status is a violation.
  SD2 tested     while a status local is Untested no other status-producing call
                 executes, the local is not overwritten, its value is not accessed and
                 the function does not return anything but that local.
  SD3 stop       on a path where a local is Failed no status-producing call executes.
  SD4 verbatim   a return reached with a Failed local returns that local or
                 local.error() (the repo's conversion idiom between Status<A> and
                 Status<B>); a void function stores local.error() through its status
                 out-parameter first.

Anything outside the enumerated idioms is reported as *unanalysable*, never passed.
"""
from . import ir


def is_status_type(t):
    if not t:
        return False
    t = t.replace('const ', '').strip()
    return t.startswith('nop::Status<') or t.startswith('nop::Result<nop::ErrorStatus')


def byvalue_status(t):
    return is_status_type(t) and not t.rstrip().endswith('&') and not t.rstrip().endswith('*')


def status_call(x):
    x = ir.strip(x)
    while isinstance(x, dict) and x['k'] == 'ctor' and len(x['args']) == 1 and is_status_type(x['t']) and \
            is_status_type(ir.strip(x['args'][0]).get('t', '')):
        x = ir.strip(x['args'][0])   # Status<void>{Status<void>} conversions
    if is_status_producing(x):
        return x
    return None


def is_status_producing(x):
    """call expression whose callee returns nop::Status/Result<ErrorStatus,..> BY VALUE"""
    if not (isinstance(x, dict) and x['k'] == 'call'):
        return False
    cal = x.get('callee')
    ret = cal.get('ret') if cal else None
    if ret is not None:
        return byvalue_status(ret)
    return byvalue_status(x.get('t'))


def status_var(x):
    x = ir.strip(x)
    if isinstance(x, dict) and x['k'] == 'ref' and x.get('dk') in ('local', 'param') and byvalue_status(x.get('t', '')):
        return x['id']
    return None


def status_test(c):
    """atomic condition -> (varid, sense) where sense True means 'c is true <=> status ok'"""
    c = ir.strip(c)
    while c['k'] in ('icast', 'cast') and c.get('ck') in ('UserDefinedConversion', 'IntegralToBoolean', 'NoOp'):
        c = ir.strip(c['e'])
    if c['k'] == 'call' and c.get('callee') and 'obj' in c:
        n = c['callee']['n']
        v = status_var(c['obj'])
        if v is not None:
            if n in ('operator bool', 'has_value'):
                return v, True
            if n == 'has_error':
                return v, False
    return None


class Finding:
    def __init__(self, rule, origin, loc, msg):
        self.rule = rule
        self.origin = origin   # the status-producing call (site) the finding is attributed to
        self.loc = loc
        self.msg = msg


class Result:
    def __init__(self):
        self.sites = []        # status-producing call exprs, in order
        self.findings = []
        self.unknown = []


class Interp:
    def __init__(self, fn):
        self.fn = fn
        self.res = Result()
        self.site_ids = set()
        self.names = {}
        self.void = fn['ret'] == 'void'
        self.loops = []
        self.out_params = [p['id'] for p in fn['params'] if is_status_type(p['t']) and p['t'].rstrip().endswith('*')]

    # state: dict var -> ('U'|'O'|'F', origin_call); plus key '#stored' -> set of vars whose error was stored to out-param
    def site(self, call):
        if id(call) not in self.site_ids:
            self.site_ids.add(id(call))
            self.res.sites.append(call)

    def add(self, rule, origin, loc, msg):
        self.res.findings.append(Finding(rule, origin, loc, msg))

    def pending(self, st, kinds=('U', 'F')):
        return [(v, s) for v, s in st.items() if isinstance(v, int) and s[0] in kinds]

    def io_call(self, st, call, what):
        """a status-producing call executes in state st"""
        self.site(call)
        for v, s in self.pending(st):
            rule = 'SD2' if s[0] == 'U' else 'SD3'
            self.add(rule, s[1], call.get('loc'),
                     '%s executes while `%s` (from %s) is %s' % (
                         what, self.names.get(v, '?'), ir.show(s[1])[:60], 'untested' if s[0] == 'U' else 'known to have failed'))

    def scan_expr(self, st, e, allowed=()):
        """check every sub-expression of e: status calls not in `allowed` are discarded
        or nested (SD1); value accesses of status locals need state Ok"""
        for y in ir.walk(e):
            if y.get('k') == 'call':
                if is_status_producing(y) and not any(y is a for a in allowed):
                    cal = y.get('callee') or {}
                    # members of Result/Status themselves (get/take/error on a local) are not I/O
                    if cal.get('rect') in ('nop::Result', 'nop::Status'):
                        continue
                    self.io_call(st, y, ir.show(y)[:60])
                    self.add('SD1', y, y.get('loc'), 'status-producing call %s is neither bound to a status local nor returned'
                             % ir.show(y)[:80])
                cal = y.get('callee')
                if cal and 'obj' in y and cal['n'] in ('get', 'take'):
                    v = status_var(y['obj'])
                    if v is not None and v in st and st[v][0] != 'O':
                        self.add('SD2', st[v][1], y.get('loc'), 'value of `%s` accessed (%s) before the status is known to be ok'
                                 % (self.names.get(v, '?'), cal['n']))

    def assign_from_call(self, st, var, call):
        self.io_call(st, call, ir.show(call)[:60])
        self.scan_expr(st, call.get('args', []))
        if 'obj' in call:
            self.scan_expr(st, call['obj'])
        st = dict(st)
        st[var] = ('U', call)
        return st

    def run(self):
        body = self.fn.get('body')
        if body is None:
            return self.res
        for p in self.fn['params']:
            self.names[p['id']] = p['n']
        outs = self.stmt(body, {})
        for st in outs:
            self.at_exit(st, None, self.fn.get('pat'))
        return self.res

    def at_exit(self, st, ret_expr, loc):
        fails = self.pending(st, ('F',))
        unt = self.pending(st, ('U',))
        e = ir.strip(ret_expr) if ret_expr is not None else None
        # unwrap conversion constructors Status<void>{x}
        while e is not None and e['k'] == 'ctor' and len(e['args']) == 1:
            e = ir.strip(e['args'][0])
        while e is not None and e['k'] == 'ilist' and len(e['el']) == 1:
            e = ir.strip(e['el'][0])
        rv = status_var(e) if e is not None else None

        def is_error_of(x, v):
            return x is not None and x['k'] == 'call' and x.get('callee') and x['callee']['n'] == 'error' and \
                'obj' in x and status_var(x['obj']) == v
        stored = st.get('#stored', frozenset())
        for v, s in fails:
            if rv == v or is_error_of(e, v):
                continue
            if self.void and v in stored:
                continue
            self.add('SD4', s[1], loc, 'failure of `%s` (from %s) is not returned verbatim: function %s' % (
                self.names.get(v, '?'), ir.show(s[1])[:60],
                'returns ' + ir.show(ret_expr)[:60] if ret_expr is not None else 'ends / returns void without storing the error'))
        for v, s in unt:
            if rv == v:
                continue
            self.add('SD2', s[1], loc, 'function exits while `%s` (from %s) was never tested' % (
                self.names.get(v, '?'), ir.show(s[1])[:60]))

    def refine(self, st, cond, sense):
        st2 = st
        for fact, fs in ir.flatten_cond(cond, sense):
            t = status_test(fact)
            if t is None:
                continue
            v, oksense = t
            if v in st2:
                st2 = dict(st2)
                st2[v] = ('O' if fs == oksense else 'F', st2[v][1])
        return st2

    def stmt(self, s, st):
        """returns list of fall-through states"""
        if s is None:
            return [st]
        k = s['k']
        if k == 'block':
            cur = [st]
            for c in s['body']:
                nxt = []
                for x in cur:
                    nxt.extend(self.stmt(c, x))
                cur = dedup(nxt)
            return cur
        if k == 'decl':
            for v in s['vars']:
                if 'id' not in v:
                    continue
                if 'n' in v:
                    self.names[v['id']] = v['n']
                init = v.get('init')
                if init is None:
                    continue
                sc = status_call(init)
                if sc is not None and byvalue_status(v.get('t', '')):
                    st = self.assign_from_call(st, v['id'], sc)
                else:
                    self.scan_expr(st, init)
            return [st]
        if k == 'expr':
            e = ir.strip(s['e'])
            if e['k'] == 'call' and e.get('callee') and e['callee']['n'] == 'operator=' and len(e['args']) == 2:
                lhs = status_var(e['args'][0])
                sc = status_call(e['args'][1])
                if lhs is not None and sc is not None:
                    if lhs in st and st[lhs][0] == 'U':
                        self.add('SD2', st[lhs][1], e.get('loc'), '`%s` overwritten before it was tested' % self.names.get(lhs, '?'))
                    # a Failed status stays pending for the SD3 check of the new call
                    st2 = {k2: v2 for k2, v2 in st.items() if k2 != lhs or v2[0] == 'F'}
                    return [self.assign_from_call(st2, lhs, sc)]
                # *out = var.error()  /  *out = var  (out-parameter idiom)
                tgt = ir.strip(e['args'][0])
                if tgt['k'] == 'un' and tgt['op'] == '*' and ir.strip(tgt['e']).get('id') in self.out_params:
                    src = ir.strip(e['args'][1])
                    while src['k'] == 'ctor' and len(src['args']) == 1:
                        src = ir.strip(src['args'][0])
                    v = None
                    if src['k'] == 'call' and src.get('callee') and src['callee']['n'] == 'error' and 'obj' in src:
                        v = status_var(src['obj'])
                    elif status_var(src) is not None:
                        v = status_var(src)
                    if v is not None:
                        st = dict(st)
                        st['#stored'] = frozenset(st.get('#stored', frozenset()) | {v})
                        return [st]
            self.scan_expr(st, e)
            return [st]
        if k == 'if':
            self.scan_expr(st, s['cond'])
            a = self.stmt(s['then'], self.refine(st, s['cond'], True))
            st_else = self.refine(st, s['cond'], False)
            b = self.stmt(s['else'], st_else) if s.get('else') else [st_else]
            return dedup(a + b)
        if k in ('for', 'while', 'rfor', 'do'):
            cur = [st]
            if k == 'for' and s.get('init'):
                cur = self.stmt(s['init'], st)
            if s.get('cond') is not None:
                for x in cur:
                    self.scan_expr(x, s['cond'])
            if k == 'rfor':
                for x in cur:
                    self.scan_expr(x, s['range'])
            seen = list(cur)
            exits = list(cur) if k != 'do' else []
            infinite = (k in ('while', 'for') and (s.get('cond') is None or ir.const_of(s['cond']) == 1))
            if infinite:
                exits = []
            for _ in range(4):
                nxt = []
                frame = {'break': [], 'continue': []}
                self.loops.append(frame)
                for x in cur:
                    nxt.extend(self.stmt(s['body'], x))
                self.loops.pop()
                nxt.extend(frame['continue'])
                exits.extend(frame['break'])
                if k == 'for' and s.get('inc') is not None:
                    for x in nxt:
                        self.scan_expr(x, s['inc'])
                nxt = dedup(nxt)
                if not infinite:
                    exits.extend(nxt)
                new = [x for x in nxt if x not in seen]
                if not new:
                    break
                seen.extend(new)
                cur = new
            return dedup(exits)
        if k == 'ret':
            e = s.get('e')
            if e is not None:
                sc = status_call(e)
                if sc is not None:
                    self.io_call(st, sc, 'return ' + ir.show(sc)[:50])
                    self.scan_expr(st, sc.get('args', []))
                    if 'obj' in sc:
                        self.scan_expr(st, sc['obj'])
                    # all pending must have been resolved before delegating
                    return []
                self.scan_expr(st, e)
            self.at_exit(st, e, s.get('loc'))
            return []
        if k == 'switch':
            self.scan_expr(st, s['cond'])
            frame = {'break': [], 'continue': None}
            self.loops.append(frame)
            out = self.stmt(s['body'], st)
            self.loops.pop()
            return dedup(out + frame['break'] + [st])
        if k in ('case', 'default'):
            return self.stmt(s['sub'], st)
        if k in ('break', 'continue'):
            for frame in reversed(self.loops):
                if frame[k] is not None:
                    frame[k].append(st)
                    return []
            return []
        if k == 'null':
            return [st]
        self.res.unknown.append('statement kind ' + k)
        return [st]


def dedup(l):
    out = []
    for x in l:
        if x not in out:
            out.append(x)
    return out


def analyse(fn):
    return Interp(fn).run()
