"""Typestate rules for the library's sum types, decided by exhaustive exploration of the
abstract state space that nopsa/absx.py derives from the code (DESIGN §3 E7).

For a class instance (e.g. Result<E, std::string>) the reachable abstract object states are
computed by a fixpoint: start from every constructor with every abstract argument choice,
apply every public operation with every abstract argument choice (including a second object
in every reachable state, and self-aliasing) until no new state appears.  On every explored
transition the rules below are checked; a violated rule is reported with the operation, the
pre-state and the argument choice - i.e. the history that exposes it.

  L   lifetime legality: construct only in dead storage, destroy/assign/read only live storage
  I   class invariant after every operation: the accessor-visible state names exactly the live storage
  O   ordering (exception safety): outside constructors an element is constructed only while the
      object reports empty, so a throwing element constructor leaves a consistent (empty) object
  K   copy leaves the source unchanged and makes the destination observably equal to it; move
      additionally leaves the source empty; const members change nothing
  D   the destructor leaves no live storage
  P   per-operation postconditions (clear -> empty, assignment of a value -> holds a value, ...)
"""
from . import absx, facts, ir


class Adapter:
    """class-specific glue: how to observe the state and what it should imply"""
    observers = ()            # names of const accessors evaluated to form the observation
    derived = {}              # further const accessors -> function of the observation giving the value they must yield
    empty_obs = None

    def expected_live(self, obs, alts):
        raise NotImplementedError

    def arg_domain(self, param, fn):
        return None

    def post(self, fn, args, before, after, obs_b_before):
        """returns list of problems"""
        return []


def members_of(db, recq):
    return [f for f in db.fns if f.get('rec') == recq]


def storage_paths(world, root):
    return sorted([p[1:] for p in world.storage if p and p[0] == root], key=lambda p: (len(p), p))


def strip_cvref(t):
    t = t.replace('const ', '').strip()
    while t.endswith('&') or t.endswith(' '):
        t = t[:-1]
    return t.strip()


class Explorer:
    def __init__(self, db, recq, adapter, label, max_states=400):
        self.db = db
        self.recq = recq
        self.ad = adapter
        self.label = label
        self.fns = members_of(db, recq)
        self.problems = {}     # (rule, fn site) -> message
        self.ok = {}           # (rule, fn site) -> count
        self.transitions = 0
        self.states = {}
        self.max_states = max_states
        self.unsupported = []

    # ---- helpers -----------------------------------------------------------
    def world(self):
        return absx.World(self.db)

    def observe(self, w, root, names=None):
        obs = []
        for name in (self.ad.observers if names is None else names):
            cands = [f for f in self.fns if f['n'] == name and f.get('const') and 'body' in f and not f['params']] or \
                    [f for f in members_of_bases(self.db, self.recq) if f['n'] == name and f.get('const') and 'body' in f and not f['params']]
            if not cands:
                raise absx.Unsupported('observer %s not found' % name)
            it = absx.Interp(w)
            saved = (len(w.events), len(w.problems))
            v = it.run(cands[0], (root,), [], None)
            v = it.read(v, absx.Frame(cands[0], (root,)), None) if isinstance(v, absx.Loc) else v
            del w.events[saved[0]:]
            obs.append(v if not isinstance(v, absx.Loc) else 'loc')
        return tuple(obs)

    def record(self, rule, fn, ok, msg):
        site = '%s:%d %s' % (fn['file'], fn['pat']['l'], fn_sig(fn))
        key = (rule, site)
        if ok:
            self.ok[key] = self.ok.get(key, 0) + 1
        elif key not in self.problems:
            self.problems[key] = msg

    def arg_choices(self, fn):
        """list of argument tuples; each argument is ('B', state) / ('A',) / ('elem',) / ('val', v) / ('unk',)"""
        doms = []
        for p in fn['params']:
            t = strip_cvref(p['t'])
            d = self.ad.arg_domain(p, fn)
            if d is not None:
                doms.append(d)
            elif t == self.recq:
                doms.append([('B', s) for s in list(self.states)] + ([('A',)] if not fn.get('ctor') else []))
            elif p.get('rec') and p['rec'] in self.db.records and self.db.records[p['rec']].get('rect') and \
                    self.db.records[p['rec']].get('rect') == self.db.records.get(self.recq, {}).get('rect'):
                # another instantiation of the same class template (converting copy/move): empty and non-empty
                doms.append([('Bx', p['rec'], 'empty')] + [('Bx', p['rec'], 'value', i, c['params'][0]['t'])
                                                           for i, c in enumerate(self.value_ctors(p['rec']))][:getattr(self.ad, 'max_other_ctors', 1)])
            elif p.get('enum'):
                doms.append([('val', 0), ('val', 1), ('val', 2)])
            elif p.get('integral'):
                doms.append([('val', 0), ('val', 1)])
            elif t.startswith('nop::') and t in self.db.records and not self.db.records[t]['fields']:
                doms.append([('unk',)])     # tag types
            else:
                # an element value from outside - or, for assignments, the object's OWN live element (`r = r.get()`): the operation
                # must not destroy the element before it has read from it
                own = [('own',)] if (not fn.get('ctor') and getattr(self.ad, 'alias_own_element', False) and
                                     strip_cvref(p['t']) in getattr(self.ad, 'element_types', lambda: ())()) else []
                doms.append([('elem',)] + own)
        out = [()]
        for d in doms:
            out = [o + (x,) for o in out for x in d]
        return out

    def setup(self, w, a_state, choice):
        if a_state is not None:
            w.restore('A', a_state, self.recq)
        args = []
        b_used = None
        for c in choice:
            if c[0] == 'B':
                w.restore('B', c[1], self.recq)
                args.append(absx.Loc(('B',)))
                b_used = c[1]
            elif c[0] == 'Bx':
                self.make_other(w, c[1], c[2], c[3] if len(c) > 3 else 0)
                args.append(absx.Loc(('B',)))
            elif c[0] == 'A':
                args.append(absx.Loc(('A',)))
            elif c[0] == 'elem':
                args.append(absx.Elem(w.fresh('ext')))
            elif c[0] == 'own':
                live = sorted(p for p, v in w.storage.items() if p and p[0] == 'A' and v == 'live')
                args.append(absx.Loc(live[0]) if live else absx.Elem(w.fresh('ext')))
            elif c[0] == 'val':
                args.append(c[1])
            elif c[0] == 'visitor':
                args.append(absx.Visitor())
            else:
                args.append(absx.UNKNOWN)
        return args, b_used

    def value_ctors(self, recq):
        ctors = [f for f in members_of(self.db, recq) if f.get('ctor') and ('body' in f or f.get('inits'))]
        return [f for f in ctors if len(f['params']) == 1 and not f.get('copyctor') and not f.get('movector') and
                not f['params'][0].get('rec', '').startswith('nop::')]

    def make_other(self, w, recq, how, which=0):
        for p in [p for p in list(w.cells) if p and p[0] == 'B']:
            del w.cells[p]
        for p in [p for p in list(w.storage) if p and p[0] == 'B']:
            del w.storage[p]
        for p in [p for p in list(w.types) if p and p[0] == 'B']:
            del w.types[p]
        w.declare(('B',), recq)
        ctors = [f for f in members_of(self.db, recq) if f.get('ctor') and ('body' in f or f.get('inits'))]
        if how == 'empty':
            c = [f for f in ctors if f.get('defaultctor') and not f['params']]
            args = []
        else:
            c = self.value_ctors(recq)[which:]
            args = [absx.Elem(w.fresh('ext'))]
        if not c:
            raise absx.Unsupported('cannot build a %s %s' % (how, recq))
        absx.Interp(w).run(c[0], ('B',), args, None)
        del w.events[:]

    def check_invariant(self, w, root, fn, what):
        obs = self.observe(w, root)
        alts = storage_paths(w, root)
        want = set(self.ad.expected_live(obs, alts))
        live = {p[1:] for p, v in w.storage.items() if p and p[0] == root and v == 'live'}
        ok = live == want
        self.record('I', fn, ok, '%s: after %s the object reports %s but live storage is %s (expected %s)' % (
            self.label, what, dict(zip(self.ad.observers, obs)), sorted('.'.join(p) for p in live), sorted('.'.join(p) for p in want)))
        # derived accessors (conversion to bool, ...) must agree with the primary observation in every state
        for name, expect in sorted(getattr(self.ad, 'derived', {}).items()):
            got = self.observe(w, root, (name,))[0]
            want_v = expect(obs)
            good = isinstance(got, int) and bool(got) == bool(want_v)
            self.record('I', fn, good, '%s: after %s the object reports %s but `%s` yields %s (expected %s)' % (
                self.label, what, dict(zip(self.ad.observers, obs)), name, got, want_v))
        return obs

    def ordering(self, top_fn, w_holder):
        def cb(world, frame, path, site):
            if top_fn.get('ctor') or path[0] not in ('A', 'B'):
                return
            root = path[0]
            # the object whose storage is being constructed must currently report "empty"
            try:
                obs = self.observe(world, root)
            except absx.Unsupported:
                return
            alts = storage_paths(world, root)
            want = set(self.ad.expected_live(obs, alts))
            ok = not want
            self.record('O', top_fn, ok, '%s: %s constructs an element at %s while the object still reports %s - if that '
                        'constructor throws, the object names a destroyed element' % (self.label, fn_sig(top_fn), site, dict(zip(self.ad.observers, obs))))
        return cb

    def apply(self, fn, a_state, choice):
        w = self.world()
        w.declare(('A',), self.recq)
        w.declare(('B',), self.recq)
        try:
            args, b_before = self.setup(w, a_state, choice)
            obs_a_before = self.observe(w, 'A') if a_state is not None else None
            obs_b_before = self.observe(w, 'B') if b_before is not None else None
            b_snap_before = w.snapshot('B')
            a_snap_before = w.snapshot('A') if a_state is not None else None
            it = absx.Interp(w, hooks=getattr(self.ad, 'hooks', {}), ordering_check=self.ordering(fn, w))
            rv = it.run(fn, ('A',), args, None)
        except absx.Unsupported as e:
            self.unsupported.append((fn_sig(fn), str(e)))
            return None
        self.transitions += 1
        what = '%s(%s) from %s' % (fn_sig(fn), ', '.join(describe_choice(c, self) for c in choice),
                                   'a fresh object' if a_state is None else 'state ' + self.describe_state(a_state))
        self.record('L', fn, not w.problems, '%s: %s: %s' % (self.label, what, '; '.join('%s [%s]' % p for p in w.problems[:3])))
        if fn.get('dtor'):
            live = sorted('.'.join(p[1:]) for p, v in w.storage.items() if p and p[0] == 'A' and v == 'live')
            self.record('D', fn, not live, '%s: destructor from state %s leaves %s alive' % (self.label, self.describe_state(a_state), live))
            return None
        try:
            obs_a = self.check_invariant(w, 'A', fn, what)
            uses_b = any(c[0] == 'B' for c in choice)
            uses_bx = any(c[0] == 'Bx' for c in choice)
            obs_b = self.check_invariant(w, 'B', fn, what) if uses_b else None
            if uses_bx:
                # converting assignment from another instantiation: source observation by the same-named observers
                try:
                    other = Explorer.__new__(Explorer)
                    other.db, other.recq, other.ad, other.fns = self.db, [c[1] for c in choice if c[0] == 'Bx'][0], self.ad, None
                    other.fns = members_of(self.db, other.recq)
                    obs_bx = other.observe(w, 'B')
                    want_after_move = self.ad.empty_obs
                    how = [c[2] for c in choice if c[0] == 'Bx'][0]
                    moved = fn['params'][0]['t'].rstrip().endswith('&&')
                    src_before = self.ad.empty_obs if how == 'empty' else None
                    if how == 'empty':
                        self.record('K', fn, obs_a == self.ad.empty_obs, '%s: %s: assigning an empty %s leaves %s' % (self.label, what, other.recq[:40], obs_a))
                    else:
                        self.record('K', fn, obs_a != self.ad.empty_obs, '%s: %s: assigning a non-empty %s leaves the destination empty' % (self.label, what, other.recq[:40]))
                        if moved and fn['n'] == 'operator=' and getattr(self.ad, 'move_assign_empties_source', True):
                            self.record('K', fn, obs_bx == self.ad.empty_obs, '%s: %s: moved-from source still reports %s' % (self.label, what, obs_bx))
                except absx.Unsupported:
                    pass
        except absx.Unsupported as e:
            self.unsupported.append((fn_sig(fn), str(e)))
            return None
        aliased = any(c[0] == 'A' for c in choice)
        # K: copy / move / const
        if fn.get('const') and a_state is not None:
            self.record('K', fn, w.snapshot('A') == a_snap_before, '%s: const member %s changes the object' % (self.label, fn_sig(fn)))
        if (fn.get('copyctor') or fn.get('copyassign')) and uses_b:
            self.record('K', fn, obs_a == obs_b_before and w.snapshot('B') == b_snap_before,
                        '%s: %s: destination reports %s, source reported %s; source %s' % (
                            self.label, what, obs_a, obs_b_before, 'unchanged' if w.snapshot('B') == b_snap_before else 'MODIFIED'))
        if fn.get('movector') and uses_b:
            self.record('K', fn, obs_a == obs_b_before and obs_b in (self.ad.empty_obs, obs_b_before),
                        '%s: %s: destination reports %s, source reported %s and now reports %s' % (self.label, what, obs_a, obs_b_before, obs_b))
        if fn.get('moveassign') and uses_b and not getattr(self.ad, 'move_assign_empties_source', True):
            self.record('K', fn, obs_a == obs_b_before and obs_b in (self.ad.empty_obs, obs_b_before),
                        '%s: %s: destination reports %s, source reported %s and now reports %s' % (self.label, what, obs_a, obs_b_before, obs_b))
        elif fn.get('moveassign') and uses_b:
            self.record('K', fn, obs_a == obs_b_before and obs_b == self.ad.empty_obs,
                        '%s: %s: destination reports %s (source reported %s); moved-from source reports %s, expected empty %s' % (
                            self.label, what, obs_a, obs_b_before, obs_b, self.ad.empty_obs))
        if (fn.get('copyassign') or fn.get('moveassign')) and aliased:
            self.record('K', fn, obs_a == obs_a_before, '%s: self-assignment changes the observable state from %s to %s' % (self.label, obs_a_before, obs_a))
        self.ad.last_world = w
        for msg in self.ad.post(fn, choice, obs_a_before, obs_a, obs_b_before, rv):
            self.record('P', fn, False, '%s: %s: %s' % (self.label, what, msg))
        else:
            self.record('P', fn, True, '')
        new = [w.snapshot('A')]
        if uses_b:
            new.append(w.snapshot('B'))
        return new

    def describe_state(self, snap):
        if snap is None:
            return '-'
        cells, live = snap
        return '{%s | live: %s}' % (', '.join('%s=%s' % ('.'.join(p), v) for p, v in cells), ', '.join('.'.join(p) for p in live) or 'none')

    def run(self):
        ctors = [f for f in self.fns if f.get('ctor') and ('body' in f or f.get('inits')) and not is_helper_ctor(f)]
        ops = [f for f in self.fns if not f.get('ctor') and not f.get('dtor') and 'body' in f and f.get('access') == 'public' and
               not f.get('static')]
        dtors = [f for f in self.fns if f.get('dtor') and 'body' in f]
        if not ctors:
            raise absx.Unsupported('no constructor instance of %s' % self.recq)
        work = []
        changed = True
        rounds = 0
        while changed and rounds < 8:
            changed = False
            rounds += 1
            for fn in ctors:
                for choice in self.arg_choices(fn):
                    new = self.apply(fn, None, choice)
                    for s in new or []:
                        if s not in self.states:
                            self.states[s] = True
                            changed = True
            for st in list(self.states):
                for fn in ops:
                    for choice in self.arg_choices(fn):
                        new = self.apply(fn, st, choice)
                        for s in new or []:
                            if s not in self.states:
                                self.states[s] = True
                                changed = True
                if len(self.states) > self.max_states:
                    raise absx.Unsupported('state space of %s exceeds %d' % (self.recq, self.max_states))
        for st in list(self.states):
            for fn in dtors:
                self.apply(fn, st, ())
        if not dtors:
            # implicit / defaulted destructor: destroy members
            for st in list(self.states):
                w = self.world()
                w.declare(('A',), self.recq)
                w.restore('A', st, self.recq)
                it = absx.Interp(w)
                fake = {'file': self.fns[0]['file'], 'pat': self.fns[0]['pat'], 'n': '~(implicit)', 'params': [], 'q': self.recq + '::~(implicit)', 'dtor': True}
                it.destroy_members(('A',), self.recq, absx.Frame(fake, ('A',)), None)
                live = sorted('.'.join(p[1:]) for p, v in w.storage.items() if p and p[0] == 'A' and v == 'live')
                self.record('D', fake, not live and not w.problems, '%s: implicit destructor from %s leaves %s alive %s' % (
                    self.label, self.describe_state(st), live, w.problems[:1]))
        return self


def members_of_bases(db, recq, depth=0):
    out = []
    r = db.records.get(recq)
    if r is None or depth > 4:
        return out
    for b in r.get('bases', []):
        out += members_of(db, b) + members_of_bases(db, b, depth + 1)
    return out


def is_helper_ctor(f):
    return False


def fn_sig(fn):
    return '%s(%s)' % (fn['n'], ', '.join(short(p['t']) for p in fn['params']))


def short(t):
    t = t.replace('std::basic_string<char, std::char_traits<char>, std::allocator<char>>', 'std::string')
    return t if len(t) < 48 else t[:45] + '...'


def describe_choice(c, ex):
    if c[0] == 'Bx':
        return '%s other of another instantiation' % c[2]
    if c[0] == 'B':
        return 'other' + ex.describe_state(c[1])
    if c[0] == 'A':
        return '*this'
    if c[0] == 'val':
        return str(c[1])
    return c[0]


def report(chk, ex, rule_prefix=''):
    for (rule, site), n in sorted(ex.ok.items()):
        if (rule, site) not in ex.problems:
            chk.ok(rule_prefix + rule, site + ' <%s>' % ex.label, '%d explored transition(s) satisfy the rule' % n)
    for (rule, site), msg in sorted(ex.problems.items()):
        chk.bad(rule_prefix + rule, site + ' <%s>' % ex.label, msg, function=site)
    seen = set()
    for sig, why in ex.unsupported:
        if (sig, why) in seen:
            continue
        seen.add((sig, why))
        chk.unanalysable(rule_prefix + 'L', ex.label + ' ' + sig, 'abstract execution not possible: ' + why)


def _may_throw(db, owner, node, memo, depth=0):
    """can the operation denoted by a call / ctor node throw?  External callees: their exception specification.  Library callees
    with a body: transitively (a member that is not declared noexcept but only calls non-throwing operations does not throw)."""
    from . import ir
    cal = node.get('callee')
    if not cal or cal.get('builtin'):
        return None
    if cal.get('nx') == 'yes':
        return None
    target = db.callee(owner, node)
    if target is None or ('body' not in target and not target.get('inits')):
        return (cal.get('q') or cal.get('n')) if cal.get('nx') == 'no' else None
    key = id(target)
    if key in memo:
        return memo[key]
    memo[key] = None          # recursion: assume quiet while exploring
    if depth > 12:
        return None
    roots = ([target['body']] if 'body' in target else []) + [i.get('e') for i in target.get('inits', []) if i.get('e')]
    for r in roots:
        for y in ir.walk(r):
            if y.get('k') in ('call', 'ctor'):
                w = _may_throw(db, target, y, memo, depth + 1)
                if w:
                    memo[key] = w
                    return w
    return None


def noexcept_rule(chk, db, rule, rects, minimum=1, text=None):
    """NX: a member written `noexcept` may only call operations that cannot throw.  Decided on the resolved callees of every
    instantiation: the probes instantiate the value types with element types whose copy / move operations may throw, so a
    `noexcept` on a member that constructs, assigns or visits an element shows up as a call of a potentially-throwing function
    (an exception there is std::terminate instead of the documented behaviour).  Destructors are noexcept by the language rule
    and are not covered; a callee whose exception specification the compiler has not evaluated counts as unknown (no alarm)."""
    from . import facts, ir
    chk.rule(rule, text or 'members declared noexcept call nothing that may throw', minimum=minimum)
    seen = {}
    memo = {}
    for f in db.fns:
        if not f.get('noexcept') or not any((f.get('rect') or '') == r or (f.get('rect') or '').startswith(r + '<') for r in rects):
            continue
        roots = ([f['body']] if 'body' in f else []) + [i.get('e') for i in f.get('inits', []) if i.get('e')]
        throwing = []
        for r in roots:
            for y in ir.walk(r):
                if y.get('k') in ('call', 'ctor'):
                    w = _may_throw(db, f, y, memo)
                    if w:
                        throwing.append((w, y.get('loc', {}).get('l')))
        key = (f['file'], f['pat']['l'], f['n'])
        prev = seen.get(key)
        if prev is None or (throwing and not prev[1]):
            seen[key] = (f, throwing)
    for (file, line, n), (f, throwing) in sorted(seen.items()):
        chk.decide(not throwing, rule, facts.site(f), '%s is declared noexcept %s' % (
            ir.fn_label(f), 'and calls only non-throwing operations' if not throwing else
            'but calls %s (line %s), which may throw: the exception would terminate the program' % (throwing[0][0][:80], throwing[0][1])),
            function=ir.fn_label(f))


def copy_not_hijacked(chk, db, rule, rects, minimum=4, text=None):
    """CH: constructing an object from ONE argument of its own class type (any cv, lvalue or rvalue, or a type derived from it)
    resolves to the copy / move constructor, never to a converting or forwarding template.  Read off the resolved callee of
    every such construction in the analysed units (the probes copy each value type from non-const lvalues, which is where a
    forwarding `T(U&&)` wins overload resolution)."""
    from . import facts, ir
    chk.rule(rule, text or 'a construction from an object of the same class resolves to the copy / move constructor', minimum=minimum)
    seen = {}

    def strip(t):
        t = (t or '').replace('const ', '').strip()
        while t.endswith('&'):
            t = t[:-1].strip()
        return t

    def bases_of(q, depth=0):
        out = {q}
        r = db.records.get(q)
        if r and depth < 4:
            for b in r.get('bases', []):
                bq = b.get('q') if isinstance(b, dict) else b
                if bq:
                    out |= bases_of(bq, depth + 1)
        return out
    for f in list(db.fns) + list(getattr(db, 'drivers', [])):
        roots = ([f['body']] if 'body' in f else []) + [i.get('e') for i in f.get('inits', []) if i.get('e')]
        for r in roots:
            for y in ir.walk(r):
                is_assign = y.get('k') == 'call' and (y.get('callee') or {}).get('n') == 'operator=' and len(y.get('args', [])) == 2
                if not is_assign and (y.get('k') != 'ctor' or len(y.get('args', [])) != 1):
                    continue
                cal = y.get('callee') or {}
                rec = cal.get('rec')
                if not rec or not any(cal.get('rect') == x for x in rects):
                    continue
                a = y['args'][-1]
                if is_assign:
                    # `x = y` with y of x's own class (or derived from it): the copy / move assignment operator, not a template
                    at = strip(ir.strip_all_casts(a).get('t') or a.get('t'))
                    if rec not in bases_of(at):
                        continue
                    key = (f['file'], y.get('loc', {}).get('l'), y.get('loc', {}).get('c'), rec + ' =')
                    ok = bool(cal.get('copyassign') or cal.get('moveassign'))
                    if key not in seen or (not ok and seen[key][0]):
                        seen[key] = (ok, f, at)
                    continue
                at = strip(ir.strip_all_casts(a).get('t') or a.get('t'))
                if rec not in bases_of(at):
                    continue
                key = (f['file'], y.get('loc', {}).get('l'), y.get('loc', {}).get('c'), rec)
                ok = bool(y.get('copymove'))
                if key not in seen or (not ok and seen[key][0]):
                    seen[key] = (ok, f, at)
    for (file, line, col, rec), (ok, f, at) in sorted(seen.items()):
        assign = rec.endswith(' =')
        chk.decide(ok, rule, '%s:%s:%s' % (file, line, col), '%s %s a %s: %s' % (
            rec.replace('nop::', '')[:70].rstrip(' ='), 'assigned from' if assign else 'constructed from', at.replace('nop::', '')[:60],
            ('copy / move %s selected' % ('assignment' if assign else 'constructor')) if ok else
            'a converting / forwarding %s is selected instead of the copy %s' % (('assignment', 'assignment') if assign else ('constructor', 'constructor'))),
            function=ir.fn_label(f))
