"""AMB - marker ambiguity of the sum-type encodings (property C01).

The documented format gives Optional<T> a single marker for "empty" (NIL) and Result<E,T> a single marker for "error" (ERR); a
non-empty Optional / a value-holding Result is written as the bare encoding of T.  That is unambiguous exactly when T's own
encoding can never START with that marker.  Decided per instantiation by evaluating Encoding<T>::Match on the marker byte (the
library's own predicate, interpreted over the extracted IR): if T accepts the marker, two different values of the wrapper have
the same encoding and the round trip cannot hold for both."""
from . import facts, il, ir, encrules

NIL, ERR = 0xbe, 0xb6


def check(chk, db, rule):
    chk.rule(rule, 'the empty / error marker of Optional / Result is not a prefix the contained type accepts (otherwise two values share one encoding)', minimum=6)
    match_of = {}
    for f in db.fns:
        if f.get('rect') == 'nop::Encoding' and f['n'] == 'Match' and 'body' in f and f.get('recargs'):
            match_of.setdefault(encrules.short_t(f['recargs'][0]), f)
    seen = set()
    for f in db.fns:
        if f.get('rect') != 'nop::Encoding' or f['n'] != 'Match' or 'body' not in f or not f.get('recargs'):
            continue
        t = f['recargs'][0]
        m = None
        if t.startswith('nop::Optional<'):
            inner, marker, name = encrules.split_args(t[len('nop::Optional<'):-1])[0], NIL, 'NIL'
        elif t.startswith('nop::Result<'):
            parts = encrules.split_args(t[len('nop::Result<'):-1])
            if len(parts) != 2 or parts[1] == 'void':
                continue
            inner, marker, name = parts[1], ERR, 'ERR'
        else:
            continue
        if t in seen:
            continue
        seen.add(t)
        g = match_of.get(encrules.short_t(inner))
        where = facts.site(f) + ' <%s>' % encrules.short_t(t)
        if g is None:
            continue            # the contained type's encoder is not instantiated on its own in the analysed units
        try:
            accepts = bool(il.run(db, g, [marker]))
        except il.Unanalysable as e:
            chk.unanalysable(rule, where, 'cannot evaluate Encoding<%s>::Match(%s): %s' % (encrules.short_t(inner), name, e))
            continue
        chk.decide(not accepts, rule, where, 'Encoding<%s>: the contained type %s %s the %s marker%s' % (
            encrules.short_t(t), encrules.short_t(inner), 'ACCEPTS' if accepts else 'never starts with', name,
            ' - an engaged wrapper holding such a value is indistinguishable from the empty / error wrapper' if accepts else ''),
            function='Encoding<%s>' % encrules.short_t(t))
