"""Container-layer rules over the symbolic paths of Encoding<T>::{WritePayload, ReadPayload, Size}.

Each encoder instance is classified into a *kind* from its type constructor and the
header that defines it (vector / array / string / map / pair / tuple / structure /
logical buffer / optional / result / variant / handle / value wrapper / enum /
reference_wrapper).  Per kind, the documented layout (docs/format.md, cited per rule)
fixes what every path of the reader and writer must look like:

  LEN  the length/count field is encoded and decoded as nop::SizeType (unsigned long),
       and carries bytes for BIN/STR, elements for ARY/MAP/STU        (format.md: containers)
  GRD  validation guards and their error categories; a guard dominates every element read
  ENS  a decoded length sizes an allocation only after reader->Ensure(that many bytes)
  RST  the destination is reset or completely overwritten on every successful path
  ELT  element coverage and order: all elements, once, in declaration/iteration order
  NR   no run-time narrowing integral conversion inside an encoder (lengths stay 64-bit)
  SZ   Size() = prefix + Size(len) + payload, with the same length expression as the writer

Rules are evaluated on symbolic paths (nopsa/symx.py), so they are insensitive to
statement order, temporaries and helper extraction, and sensitive to a changed
predicate, constant, type or missing step.
"""
import re

from . import facts, ir, symx, termx
from .symx import Poly, Cmp, StatusVal, Opaque, BoolOp

INTEGRAL = {'bool', 'char', 'signed char', 'unsigned char', 'char16_t', 'char32_t', 'wchar_t', 'short', 'unsigned short',
            'int', 'unsigned int', 'long', 'unsigned long', 'long long', 'unsigned long long'}
SIZEOF = {'bool': 1, 'char': 1, 'signed char': 1, 'unsigned char': 1, 'char16_t': 2, 'char32_t': 4, 'wchar_t': 4, 'short': 2,
          'unsigned short': 2, 'int': 4, 'unsigned int': 4, 'long': 8, 'unsigned long': 8, 'long long': 8,
          'unsigned long long': 8, 'float': 4, 'double': 8}
SIZETYPE = 'unsigned long'


# --------------------------------------------------------------------------- types
class T:
    def __init__(self, name, args=None, extent=None):
        self.name, self.args, self.extent = name, args or [], extent

    def __repr__(self):
        s = self.name + ('<' + ', '.join(map(repr, self.args)) + '>' if self.args else '')
        return s + ('[%d]' % self.extent if self.extent is not None else '')


def split_args(s):
    out, depth, cur = [], 0, ''
    for ch in s:
        if ch in '<([':
            depth += 1
        elif ch in '>)]':
            depth -= 1
        if ch == ',' and depth == 0:
            out.append(cur.strip())
            cur = ''
        else:
            cur += ch
    if cur.strip():
        out.append(cur.strip())
    return out


def parse_type(s):
    s = s.strip()
    s = re.sub(r'^const\s+', '', s)
    m = re.match(r'^(.*?)((?:\[\d+\])+)$', s)
    if m and not s.endswith('>'):
        # `T[a][b]` is an array of a elements of type `T[b]`: the OUTER extent is the first one written
        exts = re.findall(r'\[(\d+)\]', m.group(2))
        inner = parse_type(m.group(1) + ''.join('[%s]' % x for x in exts[1:]))
        return T('[]', [inner], int(exts[0]))
    i = s.find('<')
    if i < 0 or not s.endswith('>'):
        return T(s)
    name = s[:i]
    args = [parse_type(a) for a in split_args(s[i + 1:-1])]
    return T(name, args)


def is_integral(t):
    return t.name in INTEGRAL and not t.args


class Kind:
    def __init__(self, kind, **kw):
        self.kind = kind
        self.__dict__.update(kw)


def classify(fn):
    """kind of the encoder an Encoding<T> member instance belongs to"""
    f = fn['file']
    t = parse_type(fn['recargs'][0])
    if f == 'nop/base/vector.h' and t.name == 'std::vector':
        e = t.args[0]
        return Kind('VEC', elem=e, bin=is_integral(e), dynamic=True, err='InvalidContainerLength')
    if f == 'nop/base/array.h':
        if t.name == 'std::array':
            e, n = t.args[0], int(re.sub(r'[^0-9]', '', t.args[1].name))
        elif t.name == '[]':
            e, n = t.args[0], t.extent
        else:
            return None
        return Kind('ARR', elem=e, bin=is_integral(e), n=n, dynamic=False, err='InvalidContainerLength')
    if f == 'nop/base/string.h' and t.name == 'std::basic_string':
        return Kind('STR', elem=t.args[0], bin=True, dynamic=True, err='InvalidStringLength')
    if f == 'nop/base/map.h' and t.name in ('std::map', 'std::unordered_map'):
        return Kind('MAP', key=t.args[0], mapped=t.args[1], bin=False, dynamic=True)
    if f == 'nop/base/pair.h':
        return Kind('PAIR', n=2, bin=False, dynamic=False, err='InvalidContainerLength')
    if f == 'nop/base/tuple.h':
        return Kind('TUPLE', n=len(t.args), bin=False, dynamic=False, err='InvalidContainerLength')
    if f == 'nop/base/members.h':
        return Kind('STRUCT', bin=False, dynamic=False, err='InvalidMemberCount')
    if f == 'nop/base/logical_buffer.h' and t.name == 'nop::LogicalBuffer':
        a = t.args[0]
        if a.name == '[]':
            e, n = a.args[0], a.extent
        elif a.name == 'std::array':
            e, n = a.args[0], int(re.sub(r'[^0-9]', '', a.args[1].name))
        else:
            return None
        unbounded = t.args[2].name == 'true'
        return Kind('LB', elem=e, bin=is_integral(e), n=n, dynamic=True, unbounded=unbounded, err='InvalidContainerLength',
                    size_member=t.args[1])
    if f == 'nop/base/optional.h':
        return Kind('OPTIONAL')
    if f == 'nop/base/result.h':
        return Kind('RESULT')
    if f == 'nop/base/variant.h':
        if t.name == 'nop::EmptyVariant':
            return Kind('EMPTYVARIANT')
        return Kind('VARIANT', n=len(t.args))
    if f == 'nop/base/handle.h':
        return Kind('HANDLE')
    if f == 'nop/base/value.h':
        return Kind('VALUE')
    if f == 'nop/base/enum.h':
        return Kind('ENUM')
    if f == 'nop/base/reference_wrapper.h':
        return Kind('REFWRAP')
    if f == 'nop/base/table.h':
        return Kind('TABLE')
    return None


# --------------------------------------------------------------------------- path views
def inline_helpers(callee, call):
    """helpers of the same encoder (WriteElements<N>, ReadMembers<N>, ...) are part of the encoder"""
    if callee.get('rect') != 'nop::Encoding':
        return False
    if callee['n'] == 'Size' and len(callee['params']) == 2:
        return True      # Size(value, Index<N>) recursion of structures/tuples
    return callee['n'] not in ('Read', 'Write', 'ReadPayload', 'WritePayload', 'Size', 'Prefix', 'Match')


def paths_of(db, fn):
    return symx.paths_of(db, fn, inline_helpers)


def enc_type(ev):
    c = ev.callee
    if c is not None and c.get('rect') in ('nop::EncodingIO', 'nop::Encoding') and c.get('recargs'):
        return c['recargs'][0]
    return None


def io_view(path):
    """ordered abstract view of the I/O and destination events of one path"""
    out = []
    for i, e in enumerate(path.events):
        if e.kind == 'call':
            t = enc_type(e)
            q = getattr(e, 'q', '') or ''
            if t is not None and e.name in ('Read', 'Write') and not e.obj:
                out.append(('ENC', t, e.name, e.args, i, e))
            elif t is not None and e.name in ('ReadPayload', 'WritePayload') and not e.obj:
                out.append(('PAYLOAD', t, e.name, e.args, i, e))
            elif t is not None and e.name == 'Size' and not e.obj:
                out.append(('SIZE', t, e.name, e.args, i, e))
            elif q.startswith('nop::MemberPointer<') and e.name in ('Read', 'Write', 'Size', 'ReadPayload', 'WritePayload'):
                out.append(('MEMBER', member_id(q), e.name, e.args, i, e))
            elif e.obj in ('p:reader', 'p:writer') or e.obj.startswith('l:bounded') or 'bounded_' in e.obj:
                if e.name in ('Read', 'Write') and len(e.args) == 2:
                    out.append(('RAW', symx.as_poly(e.args[0]), symx.as_poly(e.args[1]), e.args, i, e))
                elif e.name in ('Read', 'Write'):
                    out.append(('BYTE', None, e.name, e.args, i, e))
                else:
                    out.append(('RW', e.name, e.obj, e.args, i, e))
            elif e.obj == 'p:value' or e.obj == '*p:value':
                out.append(('DEST', e.name, None, e.args, i, e))
            elif e.name == 'operator=' and e.args and repr(e.args[0]) in ('*p:value', 'p:value'):
                out.append(('ASSIGN', None, None, e.args, i, e))
        elif e.kind == 'store':
            if 'p:value' in e.target:
                out.append(('STORE', e.target, e.value, None, i, e))
    return out


def member_id(q):
    """`&Class::member` arguments of a MemberPointer<...> instantiation"""
    i = q.find('nop::MemberPointer<')
    if i < 0:
        return q[:60]
    depth = 0
    start = i + len('nop::MemberPointer<')
    end = start
    for j in range(start, len(q)):
        ch = q[j]
        if ch in '<(':
            depth += 1
        elif ch in '>)':
            if depth == 0:
                end = j
                break
            depth -= 1
    names = [a.rsplit('::', 1)[-1] for a in split_args(q[start:end]) if a.startswith('&')]
    return '+'.join(names) or q[start:end][:60]


def is_success(path):
    r = path.ret
    if isinstance(r, StatusVal):
        if r.kind == 'ok':
            ok_ret = True
        elif r.kind == 'call':
            ok_ret = path.status_facts().get(r.arg, True) is not False   # delegated status
        else:
            ok_ret = False
    else:
        ok_ret = False
    return ok_ret and all(v for v in path.status_facts().values())


def err_of(path):
    r = path.ret
    if isinstance(r, StatusVal) and r.kind == 'err':
        return r.arg
    return None


def cond_keys(path):
    out = []
    for c, s in path.conds:
        if isinstance(c, Cmp):
            cc = c if s else c.negated()
            out.append(cc.key())
    return out


def has_cond(path, cmp_):
    k = cmp_.key()
    return k in cond_keys(path)


def site(fn, extra=''):
    return facts.site(fn) + (' ' + extra if extra else '')


def short_t(t):
    t = t.replace('std::basic_string<char, std::char_traits<char>, std::allocator<char>>', 'std::string')
    t = re.sub(r', std::allocator<[^<>]*(<[^<>]*>)?[^<>]*>', '', t)
    return t if len(t) < 70 else t[:67] + '...'


# --------------------------------------------------------------------------- enumeration of encoder instances
def encoder_instances(db, names, prefer=('nop::BufferReader', 'nop::BufferWriter')):
    """one instance per (pattern, encoded type) of the requested member functions"""
    out = {}
    for f in db.fns:
        if f.get('rect') != 'nop::Encoding' or f['n'] not in names or 'body' not in f:
            continue
        if not f['file'].startswith('nop/base/'):
            continue
        key = (f['file'], f['pat']['l'], f['recargs'][0], f['n'])
        cur = out.get(key)
        rank = 0 if (f.get('targs') and any(p in f['targs'][0] for p in prefer)) else 1
        if cur is None or rank < cur[0]:
            out[key] = (rank, f)
    return [v[1] for k, v in sorted(out.items())]


# --------------------------------------------------------------------------- NR: narrowing
def narrowing(chk, db, rule, names):
    """no non-constant narrowing integral conversion in encoder members, except the class-directed payload
    write (EncodingIO::WriteAs, justified by Prefix, see PM/WA) and the store of a decoded, capacity-checked
    count into a logical buffer's own size member"""
    seen = {}
    for f in db.fns:
        if not f['file'].startswith('nop/base/') or 'body' not in f:
            continue
        if f['n'] not in names and not (f.get('rect') == 'nop::Encoding' and f['n'] not in
                                        ('Prefix', 'Match', 'Size', 'Read', 'Write', 'ReadPayload', 'WritePayload') and
                                        any(n in names for n in ('ReadPayload', 'WritePayload'))):
            continue
        if f.get('rect') == 'nop::EncodingIO' and f['n'] in ('WriteAs', 'ReadAs'):
            continue
        if f['file'] == 'nop/base/encoding.h':
            continue     # arithmetic encoders: decided by the integer layer
        allowed_store = set()
        # refusal guards of the function: `x > K` with a constant K (after constant folding), by the variable they test
        guards = {}

        def live(node):
            """sub-expressions that can be evaluated: the right operand of `false && x` / `true || x` cannot"""
            if isinstance(node, list):
                for x in node:
                    for z in live(x):
                        yield z
                return
            if not isinstance(node, dict):
                return
            yield node
            if node.get('k') == 'bin' and node.get('op') in ('&&', '||'):
                lc = ir.const_of(ir.strip_all_casts(node['l']))
                for z in live(node['l']):
                    yield z
                dead = lc is not None and ((node['op'] == '&&' and not lc) or (node['op'] == '||' and lc))
                if not dead:
                    for z in live(node['r']):
                        yield z
                return
            for kk2, v in node.items():
                if kk2 not in ('callee', 'loc'):
                    for z in live(v):
                        yield z
        for y in live(f['body']):
            if y.get('k') == 'bin' and y.get('op') in ('>', '>='):
                lv, kk = ir.strip_all_casts(y['l']), ir.const_of(ir.strip_all_casts(y['r']))
                if lv.get('k') == 'ref' and kk is not None:
                    guards.setdefault(lv.get('id'), []).append(kk if y['op'] == '>' else kk - 1)
        for y in ir.walk(f['body']):
            if y.get('k') == 'bin' and y['op'] == '=':
                l = ir.strip(y['l'])
                if l.get('k') == 'call' and ir.callee_name(l) == 'size':
                    # the store of the decoded count into the buffer's own size member is exempt only when the count was
                    # refused above a bound the member's type can represent (capacity or numeric_limits<member>::max())
                    r = y['r']
                    chain = [r]
                    while isinstance(r, dict) and r.get('k') in ('icast', 'cast'):
                        r = r['e']
                        chain.append(r)
                    src = ir.strip_all_casts(r)
                    to = termx.tname(chain[0].get('to') or '') if isinstance(chain[0], dict) else ''
                    bits = termx.BITS.get(to)
                    unsigned = to.startswith('unsigned') or to in ('bool', 'char16_t', 'char32_t')
                    tmax = None if bits is None else ((1 << bits) - 1 if unsigned else (1 << (bits - 1)) - 1)
                    bounds = list(guards.get(src.get('id'), [])) if src.get('k') == 'ref' else []
                    if src.get('k') == 'ref':
                        # a local defined as `other / c`: a bound on `other` bounds it as well
                        for y2 in ir.walk(f['body']):
                            if y2.get('k') == 'decl':
                                for v2 in y2['vars']:
                                    if v2.get('id') == src.get('id') and v2.get('init') is not None:
                                        d = ir.strip_all_casts(v2['init'])
                                        if d.get('k') == 'bin' and d.get('op') == '/':
                                            num, den = ir.strip_all_casts(d['l']), ir.const_of(ir.strip_all_casts(d['r']))
                                            if num.get('k') == 'ref' and den:
                                                bounds += [k // den for k in guards.get(num.get('id'), [])]
                    bounded = tmax is not None and any(k <= tmax for k in bounds)
                    if bounded or tmax is None:
                        for c in chain:
                            allowed_store.add(id(c))
        for y in ir.walk(f['body']):
            if y.get('k') in ('icast', 'cast') and y.get('ck') == 'IntegralCast' and 'cv' not in y:
                a, b = termx.tname(y['from']), termx.tname(y['to'])
                if a in termx.BITS and b in termx.BITS and termx.BITS[b] < termx.BITS[a] and b != 'bool':
                    key = (f['file'], f['pat']['l'], f['n'], a, b, ir.show(y['e'])[:40])
                    ok = id(y) in allowed_store
                    if key not in seen or not ok:
                        seen[key] = (ok, f)
    count = 0
    for key, (ok, f) in sorted(seen.items()):
        count += 1
        chk.decide(ok, rule, '%s:%d %s (%s->%s of %s)' % key,
                   '%s: run-time value `%s` converted from %s to %s%s' % (
                       ir.fn_label(f)[:90], key[5], key[3], key[4],
                       ' (store into the buffer\'s own size member, refused above a bound the member can represent)' if ok else ': values above the narrower range are lost'),
                   function=ir.fn_label(f))
    # the rule has zero expected violations; record the scan as one discharged obligation per scanned function group
    scanned = sorted({(f['file'], f['n']) for f in db.fns if f['file'].startswith('nop/base/') and f['n'] in names})
    for file, n in scanned:
        chk.ok(rule, '%s %s' % (file, n), 'scanned for narrowing conversions')


# --------------------------------------------------------------------------- READ side
def first_len_read(view):
    for it in view:
        if it[0] in ('ENC', 'PAYLOAD', 'RAW', 'BYTE', 'MEMBER'):
            return it
    return None


def len_atom(it):
    """symbol holding the decoded value of the first length read"""
    e = it[5]
    outs = getattr(e, 'outs', {})
    if len(outs) == 1:
        return list(outs.values())[0]
    return None


def read_rules_for(chk, db, fn, k, R, want):
    label = 'Encoding<%s>::ReadPayload' % short_t(fn['recargs'][0])
    where = site(fn, '<%s>' % short_t(fn['recargs'][0]))
    try:
        paths = paths_of(db, fn)
    except symx.Unsupported as e:
        chk.unanalysable(R('GRD'), where, 'cannot summarise %s: %s' % (label, e))
        return
    succ = [p for p in paths if is_success(p)]
    if not succ:
        chk.unanalysable(R('GRD'), where, 'no successful path in ' + label)
        return
    full = max(succ, key=lambda p: len(p.events))
    fview = io_view(full)
    flabel = ir.fn_label(fn)

    if k.kind in ('VEC', 'ARR', 'STR', 'MAP', 'PAIR', 'TUPLE', 'STRUCT', 'LB'):
        first = first_len_read(fview)
        L = len_atom(first) if first and first[0] == 'ENC' else None
        if 'LEN' in want:
            ok = first is not None and first[0] == 'ENC' and first[1] == SIZETYPE and first[2] == 'Read' and L is not None
            chk.decide(ok, R('LEN'), where, '%s: length field decoded as %s (documented: SizeType = unsigned long)' % (
                label, first[1] if first else 'nothing'), function=flabel)
        if L is None:
            return
        elem_reads = [it for it in fview if it[0] in ('ENC', 'RAW', 'MEMBER', 'PAYLOAD') and it is not first]
        # ---- GRD -------------------------------------------------------
        if 'GRD' in want:
            guards = []     # (Cmp that must be FALSE on element paths, error)
            S = SIZEOF.get(k.elem.name) if getattr(k, 'elem', None) is not None and k.bin else None
            if k.kind in ('ARR', 'PAIR', 'TUPLE'):
                n = k.n * S if k.bin else k.n
                guards.append((Cmp('!=', L, Poly.const(n)), k.err, 'len != %d' % n))
            elif k.kind == 'STRUCT':
                members = [it for it in fview if it[0] == 'MEMBER']
                n = count_members(db, fn)
                guards.append((Cmp('!=', L, Poly.const(n)), k.err, 'len != %d' % n))
            elif k.kind in ('VEC', 'STR') and k.bin:
                guards.append((Cmp('!=', Poly.atom('(%r %% %d)' % (L, S)), Poly.const(0)), k.err, 'len %% %d != 0' % S))
            elif k.kind == 'LB':
                if not k.unbounded:
                    cap = k.n * S if k.bin else k.n
                    guards.append((Cmp('>', L, Poly.const(cap)), k.err, 'len > %d' % cap))
                if k.bin:
                    guards.append((Cmp('!=', Poly.atom('(%r %% %d)' % (L, S)), Poly.const(0)), k.err, 'len %% %d != 0' % S))
            for g, err, txt in guards:
                refusals = [p for p in paths if has_cond(p, g) and err_of(p) == err and len(io_view(p)) == 1]
                bad_refusals = [p for p in paths if has_cond(p, g) and not (err_of(p) == err and len(io_view(p)) == 1)]
                unguarded = [p for p in paths if len([it for it in io_view(p) if it[0] in ('ENC', 'RAW', 'MEMBER', 'PAYLOAD', 'DEST', 'STORE')]) > 1
                             and not has_cond(p, g.negated())]
                ok = bool(refusals) and not bad_refusals and not unguarded
                why = []
                if not refusals:
                    why.append('no path rejects `%s` with %s before touching the destination' % (txt, err))
                if bad_refusals:
                    why.append('on `%s` the decoder returns %r / continues: %s' % (txt, bad_refusals[0].ret, bad_refusals[0].describe()[:120]))
                if unguarded:
                    why.append('elements are read on a path that has not established !(%s): %s' % (txt, unguarded[0].describe()[:140]))
                chk.decide(ok, R('GRD'), where + ' [' + txt + ']', '%s: guard `%s` -> %s%s' % (label, txt, err, (': ' + '; '.join(why)) if why else ' dominates every element read'),
                           function=flabel)
            if not guards and k.kind in ('VEC', 'MAP'):
                chk.ok(R('GRD'), where, '%s: element-counted dynamic container: no length validation documented' % label)
        # ---- ENS -------------------------------------------------------
        if 'ENS' in want and k.kind in ('VEC', 'STR') and k.bin:
            ens = [it for it in fview if it[0] == 'RW' and it[1] == 'Ensure']
            resize = [it for it in fview if it[0] == 'DEST' and it[1] in ('resize', 'reserve', 'assign')]
            raws = [it for it in fview if it[0] == 'RAW']
            why = []
            cnt = Poly.atom('(%r / %d)' % (L, S))
            if len(ens) != 1 or symx.as_poly(ens[0][3][0]) != L:
                why.append('reader->Ensure(%s) instead of the decoded byte length %r' % (', '.join(repr(a) for it in ens for a in it[3]) or 'missing', L))
            if len(resize) != 1 or resize[0][1] != 'resize' or symx.as_poly(resize[0][3][0]) != cnt:
                why.append('destination sized with %s, expected resize(%r)' % ([(it[1], it[3]) for it in resize], cnt))
            elif ens and ens[0][4] > resize[0][4]:
                why.append('allocation happens before Ensure')
            if len(raws) != 1 or (raws[0][2] - raws[0][1]) != cnt:
                why.append('raw read covers %s elements, expected %r' % ([repr(it[2] - it[1]) for it in raws], cnt))
            elif resize and raws[0][4] < resize[0][4]:
                why.append('raw read precedes the resize')
            ensure_fail_continues = [p for p in paths if any(it[0] == 'DEST' for it in io_view(p)) and not any(
                it[0] == 'RW' and it[1] == 'Ensure' and p.status_facts().get(it[4]) is True for it in io_view(p))]
            if ensure_fail_continues:
                why.append('destination resized on a path where Ensure did not succeed')
            chk.decide(not why, R('ENS'), where, '%s: %s' % (label, '; '.join(why) if why else
                       'Ensure(len) succeeds, then resize(len/%d), then one raw read of exactly that many elements' % S), function=flabel)
        if 'ENS' in want and k.kind in ('VEC', 'MAP') and not k.bin:
            # element-wise growth only: no allocation sized by the decoded count
            sized = [it for p in paths for it in io_view(p) if it[0] == 'DEST' and it[1] in ('resize', 'reserve', 'assign', 'rehash')]
            chk.decide(not sized, R('ENS'), where, '%s: %s' % (label, 'decoded count sizes an allocation via %s()' % sized[0][1] if sized else
                       'grows one element per successfully decoded element (no resize/reserve with the decoded count)'), function=flabel)
        if 'ENS' in want and k.kind == 'LB' and not k.unbounded:
            # capacity guard dominates every store; covered by GRD; additionally the stored count is the decoded one
            pass
        # ---- RST / ELT ----------------------------------------------------
        if 'RST' in want or 'ELT' in want:
            reset_rule(chk, db, fn, k, R, want, paths, succ, full, fview, L, label, where, flabel)
        return

    if k.kind == 'OPTIONAL' and 'RST' in want:
        why = []
        for p in succ:
            v = io_view(p)
            assigned = [it for it in v if it[0] == 'ASSIGN' or (it[0] == 'DEST' and it[1] in ('clear', 'operator=', 'emplace'))]
            if not assigned:
                why.append('successful path leaves the destination untouched: %s' % p.describe()[:120])
        nil = [p for p in succ if any(it[0] == 'DEST' and it[1] == 'clear' for it in io_view(p))]
        if not nil:
            why.append('no path empties the destination for NIL')
        chk.decide(not why, R('RST'), where, '%s: %s' % (label, '; '.join(why) if why else 'NIL clears, otherwise a freshly decoded value is assigned'), function=flabel)
    if k.kind == 'RESULT' and 'RST' in want:
        why = []
        for p in succ:
            v = io_view(p)
            assigns = [it for it in v if it[0] == 'ASSIGN']
            reads = [it for it in v if it[0] in ('ENC', 'PAYLOAD')]
            if not assigns:
                why.append('successful path never assigns the destination: %s' % p.describe()[:120])
            elif reads and reads[0][0] == 'PAYLOAD' and assigns[0][4] > reads[0][4]:
                why.append('value arm decodes into the old value before re-seating it')
        chk.decide(not why, R('RST'), where, '%s: %s' % (label, '; '.join(why) if why else
                   'error arm assigns the decoded error; value arm re-seats the value before decoding into it'), function=flabel)
    if k.kind == 'VARIANT':
        first = first_len_read(fview)
        L = len_atom(first) if first and first[0] == 'ENC' else None
        if 'LEN' in want:
            chk.decide(first is not None and first[0] == 'ENC' and first[1] == 'int', R('LEN'), where,
                       '%s: variant index decoded as %s (documented and header comment: INT32)' % (label, first[1] if first else None), function=flabel)
        if L is not None and 'GRD' in want:
            lo = Cmp('<', L, Poly.const(-1))
            hi = Cmp('>=', L, Poly.const(k.n))
            why = []
            for g, txt in ((lo, 'index < -1'), (hi, 'index >= %d' % k.n)):
                if not [p for p in paths if has_cond(p, g) and err_of(p) == 'UnexpectedVariantType']:
                    why.append('`%s` is not rejected with UnexpectedVariantType' % txt)
            for p in succ:
                if any(it[0] == 'DEST' for it in io_view(p)) and not (has_cond(p, lo.negated()) and has_cond(p, hi.negated())):
                    why.append('alternative selected without -1 <= index < %d established' % k.n)
            chk.decide(not why, R('GRD'), where, '%s: %s' % (label, '; '.join(sorted(set(why))) if why else 'index range [-1, %d) validated -> UnexpectedVariantType' % k.n), function=flabel)
        if 'RST' in want:
            why = []
            for p in succ:
                v = [it for it in io_view(p) if it[0] == 'DEST']
                names = [it[1] for it in v]
                if 'Become' not in names or 'Visit' not in names or names.index('Become') > names.index('Visit'):
                    why.append('destination not re-seated with Become(index) before the payload is visited')
                else:
                    b = v[names.index('Become')]
                    if L is not None and symx.as_poly(b[3][0]) != L:
                        why.append('Become(%r) does not use the decoded index' % (b[3][0],))
            chk.decide(not why, R('RST'), where, '%s: %s' % (label, '; '.join(sorted(set(why))) if why else 'Become(decoded index) precedes Visit'), function=flabel)
    if k.kind == 'HANDLE':
        handle_read(chk, db, fn, R, want, paths, succ, full, fview, label, where, flabel)


def count_members(db, fn):
    """number of members of the structure an Encoding<T> in members.h serialises (from MemberList<...>)"""
    for c in ir.walk(fn.get('body')):
        pass
    # the count constant appears as the folded argument of Encoding<SizeType>::Write/Size and as the Index<N> helper argument
    n = None
    for f2 in [fn]:
        for y in ir.walk(f2['body']):
            if y.get('k') == 'ctor' and y.get('t', '').startswith('nop::Index<'):
                m = re.match(r'nop::Index<(\d+)', y['t'])
                if m:
                    n = max(n or 0, int(m.group(1)))
    return n if n is not None else 0


def reset_rule(chk, db, fn, k, R, want, paths, succ, full, fview, L, label, where, flabel):
    why_r, why_e = [], []
    if k.kind in ('VEC', 'MAP') and not k.bin:
        for p in succ:
            v = io_view(p)
            dest = [it for it in v if it[0] == 'DEST']
            names = [it[1] for it in dest]
            if 'clear' not in names:
                why_r.append('successful path does not clear the destination: [%s]' % p.describe()[:140])
            elif any(n in ('push_back', 'emplace', 'emplace_back', 'insert') for n in names) and \
                    names.index('clear') > min(i for i, n in enumerate(names) if n in ('push_back', 'emplace', 'emplace_back', 'insert')):
                why_r.append('elements appended before the destination is cleared')
        # loop bound: the element loop runs exactly `decoded count` times
        loop_ok = loop_bound(fn, L, full, db=db)
        if not loop_ok[0]:
            why_e.append(loop_ok[1])
        app = [it for it in fview if it[0] == 'DEST' and it[1] in ('push_back', 'emplace', 'emplace_back', 'insert')]
        if not app or not all(it[5].in_loop for it in app):
            why_e.append('decoded elements are not appended inside the element loop')
        if k.kind == 'MAP':
            reads = [it for it in fview if it[0] == 'ENC' and it[5].in_loop]
            order = [repr(it[3][0]) for it in reads]
            if len(reads) != 2 or not (order[0].endswith('.first') and order[1].endswith('.second')):
                why_e.append('map entry not decoded as key then mapped value: %s' % order)
    elif k.kind in ('VEC', 'STR') and k.bin:
        S = SIZEOF[k.elem.name]
        cnt = Poly.atom('(%r / %d)' % (L, S))
        for p in succ:          # every successful path, not only the longest one: a conditional resize keeps a stale tail
            pv = io_view(p)
            resize = [it for it in pv if it[0] == 'DEST' and it[1] == 'resize']
            raws = [it for it in pv if it[0] == 'RAW']
            if not resize:
                # no resize is fine exactly when the path has established that the container already has the new length
                eq = Cmp('==', Poly.atom('p:value.size()'), cnt)
                if any(isinstance(c, Cmp) and (c if sense else c.negated()).key() == eq.key() for c, sense in p.conds):
                    resize = [('DEST', 'resize', None, [cnt], -1)]
            if not (len(resize) == 1 and symx.as_poly(resize[0][3][0]) == cnt and len(raws) == 1 and (raws[0][2] - raws[0][1]) == cnt
                    and raw_from_start(raws[0]) and resize[0][4] < raws[0][4]):
                why_r.append('destination is not resized to len/%d and completely overwritten from its first element on the path [%s]' % (S, p.describe()[:120]))
    elif k.kind == 'ARR':
        if k.bin:
            raws = [it for it in fview if it[0] == 'RAW']
            if not (len(raws) == 1 and raw_count(raws[0], Poly.const(k.n)) == Poly.const(k.n) and raw_from_start(raws[0])):
                why_e.append('raw read does not cover all %d elements from the first: %s' % (k.n, [repr(it[2] - it[1]) for it in raws]))
        else:
            lb = loop_bound(fn, Poly.const(k.n), full, whole=Poly.const(k.n), db=db)
            if not lb[0]:
                why_e.append(lb[1])
            reads = [it for it in fview if it[0] == 'ENC' and it[5].in_loop]
            if len(reads) != 1 and not (k.n == 0 and not reads):      # a zero-length array has no iteration at all
                why_e.append('expected one element read per iteration')
    elif k.kind in ('PAIR', 'TUPLE'):
        reads = [it for it in fview if it[0] == 'ENC'][1:]
        targets = [repr(it[3][0]) for it in reads]
        if k.kind == 'PAIR':
            if len(reads) != 2 or not (targets[0].endswith('.first') and targets[1].endswith('.second')):
                why_e.append('pair not decoded as first then second: %s' % targets)
        else:
            idx = [int(m.group(1)) if m else None for m in (re.search(r'get<(\d+)', t) for t in targets)]
            if idx != list(range(k.n)):
                why_e.append('tuple elements decoded in order %s, expected 0..%d' % (idx, k.n - 1))
    elif k.kind == 'STRUCT':
        members = [it[1] for it in fview if it[0] == 'MEMBER']
        n = count_members(db, fn)
        if len(members) != n or len(set(members)) != len(members):
            why_e.append('members decoded: %s, structure has %d' % (members, n))
        chk.extra.setdefault('struct_member_order_r', {})[fn['recargs'][0]] = members
    elif k.kind == 'LB':
        stores = [it for it in fview if it[0] == 'STORE' and it[1].endswith('.size()')]
        if k.bin:
            S = SIZEOF[k.elem.name]
            cnt = Poly.atom('(%r / %d)' % (L, S))
            raws = [it for it in fview if it[0] == 'RAW']
            if not (len(stores) == 1 and symx.as_poly(stores[0][2]) == cnt):
                why_r.append('size member set to %s, expected len/%d' % ([repr(it[2]) for it in stores], S))
            elif not (len(raws) == 1 and raws[0][4] > stores[0][4] and repr(raws[0][3][0]).endswith('.begin()') and repr(raws[0][3][1]).endswith('.end()')):
                why_r.append('elements [begin, end) are not read after the size member is set')
        else:
            if not (len(stores) == 1 and symx.as_poly(stores[0][2]) == L):
                why_r.append('size member set to %s, expected the decoded count' % [repr(it[2]) for it in stores])
            lb = loop_bound(fn, L, full, db=db)
            if not lb[0]:
                why_e.append(lb[1])
            for p in succ:
                if not [it for it in io_view(p) if it[0] == 'STORE' and it[1].endswith('.size()')]:
                    why_r.append('successful path does not store the size member')
    if 'RST' in want and k.kind in ('VEC', 'MAP', 'STR', 'LB'):
        chk.decide(not why_r, R('RST'), where, '%s: %s' % (label, '; '.join(sorted(set(why_r))) if why_r else
                   'destination reset or completely overwritten on every successful path'), function=flabel)
    if 'ELT' in want and k.kind in ('VEC', 'MAP', 'ARR', 'PAIR', 'TUPLE', 'STRUCT', 'LB'):
        if k.kind in ('VEC', 'STR') and k.bin:
            return
        chk.decide(not why_e, R('ELT'), where, '%s: %s' % (label, '; '.join(sorted(set(why_e))) if why_e else
                   'every element decoded once, in order, exactly `count` of them'), function=flabel)


_FREE_BEGIN = re.compile(r'^(?:std::)?c?begin\((.*)\)(?:#\d+)?$')
_FREE_END = re.compile(r'^(?:std::)?c?end\((.*)\)(?:#\d+)?$')


def raw_from_start(raw):
    b = repr(raw[3][0])
    return b.endswith('.data()') or b.endswith('[0]') or b.endswith('.begin()') or bool(_FREE_BEGIN.match(b))


def raw_count(raw, whole):
    """number of elements a raw transfer covers; `whole` is the element count of the container, used for
    the begin()/end() idiom (LogicalBuffer::begin/end are checked separately by the LBV rule)"""
    b, e = repr(raw[3][0]), repr(raw[3][1])
    if b.endswith('.begin()') and e.endswith('.end()') and b[:-len('.begin()')] == e[:-len('.end()')]:
        return whole
    mb, me = _FREE_BEGIN.match(b), _FREE_END.match(e)
    if mb and me and mb.group(1) == me.group(1):
        return whole           # std::begin(x) / std::end(x) of the whole container or array
    return raw[2] - raw[1]


def _norm_op(e):
    """overloaded iterator operators (operator!=, operator++ ...) viewed as the built-in operator they spell"""
    if e.get('k') == 'call' and e.get('ck') == 'op' and not (e.get('callee') or {}).get('nop'):
        a = e.get('args') or []
        if e.get('op') in ('!=', '<', '>', '+=', '=') and len(a) == 2:
            return {'k': 'bin', 'op': e['op'], 'l': a[0], 'r': a[1], 't': e.get('t')}
        if e.get('op') in ('++', '--') and 1 <= len(a) <= 2:
            return {'k': 'un', 'op': e['op'], 'e': a[0], 't': e.get('t')}
    return e


def loop_bound(fn, count, path=None, whole=None, db=None):
    """The single element loop of the encoder iterates exactly `count` times, visiting elements 0 .. count-1 in order.

    Accepted loop forms (all normalised to the same facts): counted `for (i = 0; i < B; i++)`, `while (i < B) { ...; i++; }`
    with `i` initialised to 0 before the loop, pointer/iterator loops `for (p = begin; p != end; ++p)`, and range-for over
    the whole container.  B is read off the loop-entry condition of the symbolic path (so any spelling of the bound
    works); the step is checked on the IR.  `whole` is the element count of the container for range-for / begin-end loops."""
    bodies = [fn['body']]
    if db is not None:
        seen = {id(fn)}
        work = [(fn, 0)]
        while work:
            g, depth = work.pop()
            for c in ir.calls(g['body']):
                cal = db.callee(g, c)
                if cal is not None and 'body' in cal and inline_helpers(cal, c) and id(cal) not in seen and depth < 6 and \
                        cal.get('rec') == fn.get('rec'):
                    seen.add(id(cal))
                    bodies.append(cal['body'])
                    work.append((cal, depth + 1))
    loops = [y for b in bodies for y in ir.walk(b) if y.get('k') in ('for', 'while', 'rfor', 'do')]
    if len(loops) != 1:
        return False, 'expected exactly one element loop, found %d' % len(loops)
    lp = loops[0]
    want = repr(count)
    if lp['k'] == 'do':
        return False, 'element loop is a do-while (runs at least once)'
    if lp['k'] == 'rfor':
        rng = ir.strip_all_casts(lp['range'])
        while rng.get('k') == 'un' and rng.get('op') == '*':
            rng = ir.strip_all_casts(rng['e'])
        if not (rng.get('k') == 'ref' and rng.get('dk') == 'param'):
            return False, 'range-for does not iterate the container parameter itself'
        if whole is None or repr(whole) != want:
            return False, 'range-for visits %s elements, expected %s' % (repr(whole), want)
        return True, ''
    cond = lp.get('cond')
    if cond is None:
        return False, 'element loop has no condition'
    c = _norm_op(ir.strip_all_casts(cond))
    if c.get('k') != 'bin' or c['op'] not in ('<', '!=', '>'):
        return False, 'element loop condition is not `i < count`'
    l, r = ir.strip_all_casts(c['l']), ir.strip_all_casts(c['r'])
    if c['op'] == '>':
        l, r = r, l
    if not (l.get('k') == 'ref' and l.get('dk') == 'local'):
        return False, 'element loop condition does not test a loop variable'
    iv_id = l['id']
    # initial value: for-init or a declaration that precedes the loop
    init = None
    if lp['k'] == 'for' and lp.get('init') and lp['init']['k'] == 'decl':
        for v in lp['init']['vars']:
            if v.get('id') == iv_id:
                init = v.get('init')
    if init is None:
        for b in bodies:
            for y in ir.walk(b):
                if y.get('k') == 'decl':
                    for v in y['vars']:
                        if v.get('id') == iv_id:
                            init = v.get('init')
    if init is None:
        return False, 'loop variable has no initial value'
    init0 = ir.strip_init(init)
    pointer_loop = False
    if ir.const_of(init0) != 0 and ir.const_of(init) != 0:
        # pointer / iterator loop from begin() to end()
        txt_i, txt_e = ir.show(init0), ir.show(r)
        if r.get('k') == 'ref' and r.get('dk') == 'local':
            # the end position hoisted into a named local: look at what it was initialised with
            for b in bodies:
                for y in ir.walk(b):
                    if y.get('k') == 'decl':
                        for v in y['vars']:
                            if v.get('id') == r.get('id') and v.get('init') is not None:
                                txt_e = ir.show(ir.strip_init(v['init']))
        if ('begin' in txt_i and 'end' in txt_e) or (txt_i.endswith('[0]') and whole is not None):
            pointer_loop = True
        else:
            return False, 'element loop does not start at 0 / begin()'
    # step: exactly one increment by one, not under a condition inside the loop
    steps = []
    where = []
    if lp['k'] == 'for' and lp.get('inc') is not None:
        where.append(lp['inc'])
    for st in ir.stmt_list(lp['body']):
        if st['k'] == 'expr':
            where.append(st['e'])
    other_writes = 0
    for e in where:
        e0 = _norm_op(ir.strip_all_casts(e))
        if e0.get('k') == 'un' and e0['op'] in ('++',) and ir.strip_all_casts(e0['e']).get('id') == iv_id:
            steps.append(1)
        elif e0.get('k') == 'bin' and e0['op'] == '+=' and ir.strip_all_casts(e0['l']).get('id') == iv_id and ir.const_of(e0['r']) == 1:
            steps.append(1)
        elif e0.get('k') == 'bin' and e0['op'] == '=' and ir.strip_all_casts(e0['l']).get('id') == iv_id:
            other_writes += 1
    all_writes = 0
    for y in ir.walk(lp):
        y = _norm_op(y)
        if y.get('k') == 'un' and y['op'] in ('++', '--') and ir.strip_all_casts(y['e']).get('id') == iv_id:
            all_writes += 1
        if y.get('k') == 'bin' and y['op'].endswith('=') and y['op'] not in ('==', '!=', '<=', '>=') and ir.strip_all_casts(y['l']).get('id') == iv_id:
            all_writes += 1
    if steps != [1] or all_writes != 1:
        return False, 'element loop does not advance its variable by exactly one per iteration'
    if pointer_loop:
        if whole is None or repr(whole) != want:
            return False, 'begin()..end() loop visits %s elements, expected %s' % (repr(whole), want)
        return True, ''
    # bound: from the loop-entry condition on the symbolic path when available, else from the IR
    got = None
    if path is not None:
        # the loop-entry condition with the loop variable at its initial value 0: `0 < B` (or `0 != B` for != loops); an
        # ordering comparison is preferred over a disequality so that unrelated `k != x` tests on the path are not mistaken for it
        cands = {'<': [], '!=': []}
        for cc, sense in path.conds:
            if isinstance(cc, Cmp) and sense and cc.op0 in ('<', '!=', '>'):
                lo, hi = (cc.lhs, cc.rhs) if cc.op0 != '>' else (cc.rhs, cc.lhs)
                if lo == Poly.const(0):
                    cands['!=' if cc.op0 == '!=' else '<'].append(repr(hi))
        want_op = '<' if c['op'] in ('<', '>') else '!='
        if cands[want_op]:
            got = want if want in cands[want_op] else cands[want_op][0]
    if got is None:
        if r.get('k') == 'ref' and r.get('dk') == 'local':
            got = 'd:%s' % r['n']
            if want.startswith(got + '#'):
                got = want
        elif r.get('k') == 'ref' and r.get('dk') == 'param':
            got = 'p:%s' % r['n']
        elif 'cv' in r or 'cv' in c['r']:
            got = str(ir.const_of(c['r']) if 'cv' in c['r'] else ir.const_of(r))
    if got != want:
        return False, 'element loop bound is %s, expected %s' % (got if got is not None else ir.show(c['r']), want)
    return True, ''


def handle_read(chk, db, fn, R, want, paths, succ, full, fview, label, where, flabel):
    if 'GRD' not in want and 'LEN' not in want:
        return
    encs = [it for it in fview if it[0] == 'ENC']
    why = []
    if len(encs) != 2 or encs[0][1] != 'unsigned long' or encs[1][1] != 'long':
        why.append('expected handle type (uint64) then reference (int64), found %s' % [it[1] for it in encs])
    gets = [it for it in fview if it[0] == 'RW' and it[1] == 'GetHandle']
    if len(gets) != 1:
        why.append('GetHandle called %d times' % len(gets))
    else:
        ref = len_atom(encs[1]) if len(encs) == 2 else None
        if ref is None or symx.as_poly(gets[0][3][0]) != ref:
            why.append('GetHandle(%r) does not receive the decoded reference' % (gets[0][3][0],))
    bad_type = [p for p in paths if err_of(p) == 'UnexpectedHandleType']
    if not bad_type:
        why.append('no path returns UnexpectedHandleType')
    for p in succ:
        if not any(('HandleType' in repr(c)) and isinstance(c, Cmp) and (c if s else c.negated()).op == '==' for c, s in p.conds):
            why.append('handle resolved without the type tag being compared with Policy::HandleType()')
    chk.decide(not why, R('GRD'), where, '%s: %s' % (label, '; '.join(sorted(set(why))) if why else
               'type tag validated (UnexpectedHandleType), decoded reference passed to GetHandle'), function=flabel)


def read_rules(chk, db, want=('LEN', 'GRD'), prefix=''):
    R = lambda r: prefix + r + '.r'
    texts = {'LEN': 'length/count/index fields are decoded as the documented integer type',
             'GRD': 'validation guard with the documented error category dominates every element read',
             'ENS': 'a decoded length sizes an allocation only after reader->Ensure(len) succeeded; raw read covers exactly that',
             'RST': 'destination reset or completely overwritten on every successful path',
             'ELT': 'every element decoded exactly once, in order, `count` times'}
    mins = {'LEN': 25, 'GRD': 25, 'ENS': 8, 'RST': 15, 'ELT': 20}
    for r in want:
        chk.rule(R(r), texts[r], minimum=mins[r])
    for fn in encoder_instances(db, {'ReadPayload'}):
        k = classify(fn)
        if k is None or k.kind in ('TABLE',):
            continue
        read_rules_for(chk, db, fn, k, R, set(want))


# --------------------------------------------------------------------------- WRITE side
def write_rules_for(chk, db, fn, k, R, want):
    label = 'Encoding<%s>::WritePayload' % short_t(fn['recargs'][0])
    where = site(fn, '<%s>' % short_t(fn['recargs'][0]))
    flabel = ir.fn_label(fn)
    try:
        paths = paths_of(db, fn)
    except symx.Unsupported as e:
        chk.unanalysable(R('LEN'), where, 'cannot summarise %s: %s' % (label, e))
        return
    succ = [p for p in paths if is_success(p)]
    if not succ:
        chk.unanalysable(R('LEN'), where, 'no successful path in ' + label)
        return
    full = max(succ, key=lambda p: len(p.events))
    fview = io_view(full)
    info = {}
    if k.kind in ('VEC', 'ARR', 'STR', 'MAP', 'PAIR', 'TUPLE', 'STRUCT', 'LB'):
        first = first_len_read(fview)
        ok = first is not None and first[0] == 'ENC' and first[1] == SIZETYPE and first[2] == 'Write'
        lenv = symx.as_poly(first[3][0]) if ok else None
        # expected length expression
        want_len = None
        S = SIZEOF.get(k.elem.name) if getattr(k, 'elem', None) is not None and k.bin else None
        if k.kind == 'VEC':
            cnt = Poly.atom('p:value.size()')
        elif k.kind == 'STR':
            cnt = Poly.atom('p:value.length()')
            if lenv is not None and 'p:value.size()' in repr(lenv):
                cnt = Poly.atom('p:value.size()')
        elif k.kind == 'MAP':
            cnt = Poly.atom('p:value.size()')
        elif k.kind == 'LB':
            cnt = Poly.atom('p:value.size()')
        elif k.kind in ('ARR', 'PAIR', 'TUPLE'):
            cnt = Poly.const(k.n)
        else:
            cnt = Poly.const(count_members(db, fn))
        want_len = cnt * Poly.const(S) if k.bin else cnt
        info['len'] = lenv
        info['count'] = cnt
        if 'LEN' in want:
            # ... on EVERY successful path: a path that returns success before the length field is written emits a truncated encoding
            short = [p for p in succ if p is not full and first_len_read(io_view(p)) is None]
            if short:
                ok = False
            chk.decide(ok and lenv == want_len, R('LEN'), where, '%s: length field %s as %s, documented %s = %r%s' % (
                label, repr(lenv) if lenv is not None else 'missing', first[1] if first else None,
                'byte count (BIN/STR)' if k.bin else 'element count', want_len,
                ('; but the path [%s] reports success without writing the length field' % short[0].describe()[:120]) if short else ''), function=flabel)
        if 'ELT' in want:
            why = []
            body = [it for it in fview if it is not first and it[0] in ('ENC', 'RAW', 'MEMBER', 'PAYLOAD', 'BYTE')]
            if k.bin:
                raws = [it for it in body if it[0] == 'RAW']
                if len(raws) != 1 or len(body) != 1 or raw_count(raws[0], cnt) != cnt or not raw_from_start(raws[0]):
                    why.append('payload is not one raw write of all %r elements from the first: %s' % (cnt, [repr(it[2] - it[1]) for it in raws]))
            elif k.kind in ('VEC',):
                encs = [it for it in body if it[0] == 'ENC']
                if len(encs) != 1 or not encs[0][5].in_loop or repr(encs[0][3][0]) != 'elem(p:value)':
                    why.append('elements are not written one by one in iteration order')
            elif k.kind == 'MAP':
                encs = [it for it in body if it[0] == 'ENC']
                order = [repr(it[3][0]) for it in encs]
                if order != ['elem(p:value).first', 'elem(p:value).second'] or not all(it[5].in_loop for it in encs):
                    why.append('entries are not written as key then mapped value per element: %s' % order)
            elif k.kind in ('ARR', 'LB'):
                lb = loop_bound(fn, cnt if k.kind == 'ARR' else cnt, full, whole=cnt, db=db)
                encs = [it for it in body if it[0] == 'ENC']
                if (len(encs) != 1 or not encs[0][5].in_loop) and not (k.kind == 'ARR' and k.n == 0 and not encs):
                    why.append('expected one element write per iteration')
                if k.kind == 'ARR' and not lb[0]:
                    why.append(lb[1])
            elif k.kind == 'PAIR':
                order = [repr(it[3][0]) for it in body if it[0] == 'ENC']
                if order != ['p:value.first', 'p:value.second']:
                    why.append('pair not written as first then second: %s' % order)
            elif k.kind == 'TUPLE':
                targets = [repr(it[3][0]) for it in body if it[0] == 'ENC']
                idx = [int(m.group(1)) if m else None for m in (re.search(r'get<(\d+)', t) for t in targets)]
                if idx != list(range(k.n)):
                    why.append('tuple elements written in order %s, expected 0..%d' % (idx, k.n - 1))
            elif k.kind == 'STRUCT':
                members = [it[1] for it in body if it[0] == 'MEMBER']
                n = count_members(db, fn)
                if len(members) != n or len(set(members)) != n:
                    why.append('members written: %s, structure has %d' % (members, n))
                chk.extra.setdefault('struct_member_order_w', {})[fn['recargs'][0]] = members
            chk.decide(not why, R('ELT'), where, '%s: %s' % (label, '; '.join(why) if why else 'all elements written once, in order'), function=flabel)
        if 'GRD' in want and k.kind == 'LB' and not k.unbounded:
            g = Cmp('>', cnt, Poly.const(k.n))
            refusals = [p for p in paths if has_cond(p, g) and err_of(p) == 'InvalidContainerLength' and not [it for it in io_view(p) if it[0] in ('ENC', 'RAW')]]
            unguarded = [p for p in paths if [it for it in io_view(p) if it[0] in ('ENC', 'RAW')] and not has_cond(p, g.negated())]
            chk.decide(bool(refusals) and not unguarded, R('GRD'), where, '%s: size > %d is %srejected with InvalidContainerLength before anything is written' % (
                label, k.n, '' if refusals and not unguarded else 'NOT '), function=flabel)
    if k.kind == 'VARIANT' and 'LEN' in want:
        first = first_len_read(fview)
        ok = first is not None and first[0] == 'ENC' and first[1] == 'int' and repr(first[3][0]) in ('p:value.index()',)
        chk.decide(ok, R('LEN'), where, '%s: writes index() as %s (INT32), then the active element' % (label, first[1] if first else None), function=flabel)
    return info


def write_rules(chk, db, want=('LEN', 'ELT'), prefix=''):
    R = lambda r: prefix + r + '.w'
    texts = {'LEN': 'length/count/index fields are encoded as the documented integer type with the documented quantity (bytes for BIN/STR, elements otherwise)',
             'ELT': 'every element written exactly once, in declaration / iteration order',
             'GRD': 'bounded logical buffers refuse sizes above capacity before writing'}
    mins = {'LEN': 25, 'ELT': 25, 'GRD': 4}
    for r in want:
        chk.rule(R(r), texts[r], minimum=mins[r])
    for fn in encoder_instances(db, {'WritePayload'}):
        k = classify(fn)
        if k is None or k.kind == 'TABLE':
            continue
        write_rules_for(chk, db, fn, k, R, set(want))


# --------------------------------------------------------------------------- SIZE
def base_prefix_atoms(path):
    """atoms of the form BaseEncodingSize(Prefix(p:value)#i)#j in the returned polynomial"""
    out = []
    for e in path.events:
        pass
    r = symx.as_poly(path.ret) if path.ret is not None else Poly()
    for mono, coef in r.t.items():
        if len(mono) == 1 and mono[0].startswith('BaseEncodingSize(Prefix(p:value)'):
            out.append((mono[0], coef))
    return out


def size_rules_for(chk, db, fn, k, R, winfo):
    label = 'Encoding<%s>::Size' % short_t(fn['recargs'][0])
    where = site(fn, '<%s>' % short_t(fn['recargs'][0]))
    flabel = ir.fn_label(fn)
    try:
        paths = paths_of(db, fn)
    except symx.Unsupported as e:
        chk.unanalysable(R('SZ'), where, 'cannot summarise %s: %s' % (label, e))
        return
    why = []
    if k.kind in ('VEC', 'ARR', 'STR', 'MAP', 'PAIR', 'TUPLE', 'STRUCT', 'LB'):
        full = max(paths, key=lambda p: len(p.events))
        ret = symx.as_poly(full.ret) if full.ret is not None else Poly()
        bp = base_prefix_atoms(full)
        if len(bp) != 1 or bp[0][1] != 1:
            why.append('does not count the prefix byte exactly once')
        view = io_view(full)
        lens = [it for it in view if it[0] == 'SIZE' and it[1] == SIZETYPE]
        wl = winfo.get('len') if winfo else None
        if len(lens) > 1 and wl is not None:
            # elements may themselves be SizeType values: the length field is the one sized for the writer's length expression
            exact = [it for it in lens if symx.as_poly(it[3][0]) == wl and not it[5].in_loop]
            if exact:
                lens = exact[:1]
        if len(lens) != 1:
            why.append('counts %d length fields, the writer emits one' % len(lens))
        elif wl is not None and symx.as_poly(lens[0][3][0]) != wl:
            why.append('sizes the length field for %r but the writer encodes %r' % (lens[0][3][0], wl))
        residual = ret
        for mono, coef in list(ret.t.items()):
            if len(mono) == 1 and (mono[0].startswith('BaseEncodingSize(Prefix(p:value)') or
                                   (mono[0].startswith('Size(') and lens and mono[0].endswith('#%d' % lens[0][4]))):
                residual = residual - Poly({mono: coef})
        cnt = winfo.get('count') if winfo else None
        if k.bin:
            S = SIZEOF[k.elem.name]
            if cnt is not None and residual != cnt * Poly.const(S):
                why.append('payload counted as %r bytes, the writer emits %r' % (residual, cnt * Poly.const(S)))
        elif k.kind in ('PAIR', 'TUPLE', 'STRUCT'):
            elems = [it for it in view if (it[0] == 'SIZE' and it is not (lens[0] if lens else None)) or it[0] == 'MEMBER']
            got = [(it[0], it[1], repr(it[3][0]) if it[3] else '') for it in elems]
            wel = winfo.get('elems') if winfo else None
            if wel is not None and [(g[1]) for g in got] != [w[1] for w in wel]:
                why.append('sums the sizes of %s, the writer emits %s' % ([g[1] for g in got], [w[1] for w in wel]))
            for mono, coef in residual.t.items():
                if coef != 1 or not (len(mono) == 1 and mono[0].startswith('Size(')):
                    why.append('unexpected term %s*%s in the size' % (coef, '*'.join(mono) or '1'))
        elif k.kind in ('VEC', 'MAP'):
            acc = [e for e in full.events if e.kind == 'call' and e.name == 'accumulate']
            if len(acc) != 1:
                # explicit loop: sum += Encoding<Elem>::Size(element) for every element, accumulated in std::size_t
                sizes_in_loop = [it for it in view if it[0] == 'SIZE' and it[5].in_loop]
                wel = [w[1] for w in (winfo.get('elems') or [])] if winfo else []
                loops = [y for y in ir.walk(fn['body']) if y.get('k') in ('for', 'while', 'rfor')]
                if acc or len(loops) != 1 or sorted(it[1] for it in sizes_in_loop) != sorted(wel):
                    why.append('element sizes are not summed exactly once over the elements the writer emits')
                else:
                    lb = loop_bound(fn, cnt if cnt is not None else Poly.atom('p:value.size()'), full, whole=cnt, db=db)
                    if not lb[0]:
                        why.append('size loop: ' + lb[1])
                    # the accumulator: the local that is the target of `+=` inside the loop
                    acc_t = None
                    for y in ir.walk(loops[0]):
                        if y.get('k') == 'bin' and y['op'] in ('+=', '='):
                            tgt = ir.strip_all_casts(y['l'])
                            if y['op'] == '=':
                                def leaves(x):
                                    x = ir.strip_all_casts(x)
                                    if x.get('k') == 'bin' and x['op'] == '+':
                                        return leaves(x['l']) + leaves(x['r'])
                                    return [x]
                                if tgt.get('id') is None or tgt.get('id') not in [l.get('id') for l in leaves(y['r'])] or len(leaves(y['r'])) < 2:
                                    continue
                            if tgt.get('k') == 'ref' and tgt.get('dk') == 'local':
                                acc_t = termx.tname(tgt.get('t'))
                    if acc_t != 'unsigned long':
                        why.append('element sizes are summed in %s, narrower than size_t' % acc_t)
                    # one unrolled iteration: the returned size is prefix + Size(len) + exactly the in-loop element sizes
                    terms = [(m, c) for m, c in residual.t.items()]
                    if len(terms) != len(sizes_in_loop) or any(c != 1 or len(m) != 1 or not m[0].startswith('Size(') for m, c in terms):
                        why.append('returned size is not prefix + Size(count) + the accumulated element sizes (residual %r)' % (residual,))
            else:
                c = acc[0].callee
                targs = (acc[0].expr.get('callee') or {})
                q = getattr(acc[0], 'q', '')
                init = acc[0].expr['args'][2]
                init_t = ir.strip_init(init).get('t') if isinstance(init, dict) else None
                # the accumulator type is the type of the init argument (std::accumulate<It, T, Op>)
                it_types = [y.get('to') or y.get('t') for y in ir.walk(init) if y.get('k') in ('icast', 'cast', 'int', 'ctor', 'zero', 'ilist')]
                acc_t = None
                e0 = init
                while isinstance(e0, dict) and e0.get('k') in ('icast', 'cast') and e0.get('ck') in ('NoOp', 'LValueToRValue'):
                    e0 = e0['e']
                acc_t = (e0.get('to') if e0.get('k') in ('icast', 'cast') else e0.get('t')) if isinstance(e0, dict) else None
                if termx.tname(acc_t) != 'unsigned long':
                    why.append('std::accumulate runs in %s: element sizes are summed in a type narrower than size_t' % acc_t)
                lam = [y for y in ir.walk(acc[0].expr) if y.get('k') == 'lambda']
                sizes = set()
                if lam and lam[0].get('op') and 'fid' in lam[0]['op']:
                    g = db.fn_by_id(fn, lam[0]['op']['fid'])
                    if g is not None:
                        for cc in ir.calls(g.get('body')):
                            cal = db.callee(g, cc)
                            if cal is not None and cal.get('rect') == 'nop::Encoding' and cal['n'] == 'Size':
                                sizes.add(cal['recargs'][0])
                wel = {w[1] for w in (winfo.get('elems') or [])} if winfo else set()
                if wel and sizes != wel:
                    why.append('accumulates sizes of %s, the writer emits %s' % (sorted(sizes), sorted(wel)))
        elif k.kind in ('ARR', 'LB'):
            sizes = [it for it in view if it[0] == 'SIZE' and it is not (lens[0] if lens else None)]
            if (len(sizes) != 1 or not sizes[0][5].in_loop) and not (k.kind == 'ARR' and k.n == 0 and not sizes):
                why.append('expected one element Size per iteration')
            elif k.kind == 'LB' and cnt is not None:
                # the sum runs over exactly the elements the writer emits (value.size() of them - also for unbounded buffers)
                lb = loop_bound(fn, cnt, full, whole=cnt, db=db)
                if not lb[0]:
                    why.append('element sizes are not summed over the writer\'s element count: ' + lb[1])
        chk.decide(not why, R('SZ'), where, '%s: %s' % (label, '; '.join(why) if why else 'prefix + Size(len) + payload, same length expression as the writer'),
                   function=flabel)
    elif k.kind == 'HANDLE':
        p = paths[0]
        ret = symx.as_poly(p.ret)
        atoms = sorted(m[0] for m in ret.t if m)
        ok = len(paths) == 1 and len(atoms) == 3 and any(a.startswith('BaseEncodingSize(Prefix(p:value)') for a in atoms) and \
            any(a.startswith('BaseEncodingSize(135)') for a in atoms) and any(a.startswith('Size(HandleType()') for a in atoms) and \
            all(c == 1 for c in ret.t.values())
        if not ok and len(paths) == 1:
            # the same sum with its constant parts folded by the compiler (named constexpr locals): 9 bytes for the I64 reference
            # plus the encoded size of the (constant) handle type
            const = ret.t.get((), 0)
            rest = [(m, c) for m, c in ret.t.items() if m]
            k_type = None
            try:
                from . import il
                ht = [g for g in db.fns if g['n'] == 'HandleType' and g.get('static') and 'body' in g and
                      g.get('rec', '') in fn['recargs'][0]]
                szf = [g for g in encoder_instances(db, {'Size'}) if g['recargs'][0] == 'unsigned long' and len(g['params']) == 1]
                if ht and szf:
                    k_type = il.run(db, szf[0], [il.run(db, ht[0], [])])
            except Exception:
                k_type = None
            ok = len(rest) == 1 and rest[0][1] == 1 and len(rest[0][0]) == 1 and rest[0][0][0].startswith('BaseEncodingSize(Prefix(p:value)') and \
                k_type is not None and const == 9 + k_type
        chk.decide(ok, R('SZ'), where, '%s = %r; documented upper bound: prefix + Size(handle type) + BaseEncodingSize(I64) for the reference' % (label, ret),
                   function=flabel)


def size_rules(chk, db, prefix=''):
    R = lambda r: prefix + r
    chk.rule(R('SZ'), 'Size() = prefix + Size(length) + payload with the writer\'s own length expression and element list; size_t arithmetic', minimum=25)
    writers = {}
    for fn in encoder_instances(db, {'WritePayload'}):
        k = classify(fn)
        if k is None:
            continue
        writers[(fn['file'], fn['recargs'][0])] = fn
    for fn in encoder_instances(db, {'Size'}):
        if len(fn['params']) != 1:
            continue
        k = classify(fn)
        if k is None or k.kind == 'TABLE':
            continue
        winfo = None
        w = writers.get((fn['file'], fn['recargs'][0]))
        if w is not None and k.kind in ('VEC', 'ARR', 'STR', 'MAP', 'PAIR', 'TUPLE', 'STRUCT', 'LB'):
            sc = _Quiet()
            winfo = write_rules_for(sc, db, w, k, lambda r: r, set()) or {}
            try:
                paths = paths_of(db, w)
                succ = [p for p in paths if is_success(p)]
                full = max(succ, key=lambda p: len(p.events))
                v = io_view(full)
                first = first_len_read(v)
                winfo['elems'] = [(it[0], it[1]) for it in v if it is not first and it[0] in ('ENC', 'MEMBER')]
            except (symx.Unsupported, ValueError):
                pass
        if k.kind in ('VEC', 'ARR', 'STR', 'MAP', 'PAIR', 'TUPLE', 'STRUCT', 'LB', 'HANDLE'):
            size_rules_for(chk, db, fn, k, R, winfo)
        elif k.kind in ('OPTIONAL', 'RESULT', 'VARIANT') and w is not None:
            wrapper_size_rule(chk, db, fn, w, k, R)
            pf = [g for g in db.fns if g.get('rec') == fn.get('rec') and g['n'] == 'Prefix' and 'body' in g and g.get('_tu') is fn.get('_tu')]
            if pf and k.kind in ('OPTIONAL', 'RESULT'):
                wrapper_prefix_rule(chk, db, pf[0], w, k, R)


def _value_preds(p):
    """{text of a pure predicate on the value: sense} for the conditions of a path that test the value's state"""
    out = {}
    for c, sense in p.conds:
        txt = repr(c)
        if 'p:value' in txt and not isinstance(c, Cmp):
            out[txt] = sense
        elif 'p:value' in txt and isinstance(c, Cmp):
            out[repr(c.p)] = (c.op, sense)
    return out


def wrapper_prefix_rule(chk, db, fn, w, k, R):
    """sum types: in every state of the value the prefix is the contained value's own prefix exactly when the writer goes on to
    emit the contained value's payload (and a constant marker otherwise).  States are matched as in wrapper_size_rule."""
    label = 'Encoding<%s>::Prefix' % short_t(fn['recargs'][0])
    where = site(fn, '<%s>' % short_t(fn['recargs'][0]))
    try:
        ppaths = paths_of(db, fn)
        wpaths = [p for p in paths_of(db, w) if is_success(p)]
    except symx.Unsupported as e:
        chk.unanalysable(R('SZ'), where, 'cannot summarise %s: %s' % (label, e))
        return
    why = []
    for pp in ppaths:
        delegated = any(e.kind == 'call' and e.name == 'Prefix' for e in pp.events)
        ppred = _value_preds(pp)
        for wp in wpaths:
            wpred = _value_preds(wp)
            if any(kk in ppred and ppred[kk] != vv for kk, vv in wpred.items()):
                continue
            payload = any(it[0] == 'PAYLOAD' for it in io_view(wp))
            if delegated != payload:
                why.append('in the state %s the prefix is %s but the writer %s' % (
                    sorted('%s=%s' % (a.replace('p:value.', ''), b) for a, b in {**wpred, **ppred}.items())[:3],
                    'the contained value\'s own prefix' if delegated else 'a constant marker',
                    'emits the contained value\'s payload' if payload else 'does not emit a contained value'))
    chk.decide(not why, R('SZ'), where + ' prefix', '%s: %s' % (label, '; '.join(sorted(set(why))[:2]) if why else
               'in every state of the value the prefix announces what the writer emits'), function=ir.fn_label(fn))


def wrapper_size_rule(chk, db, fn, w, k, R):
    """sum types (optional, result, variant): for every state of the value Size() counts the prefix once and sizes exactly the
    components the writer emits in that state.  States are compared through the paths' predicates on the value: a Size path
    and a writer path describe the same state when none of their shared predicates disagree."""
    label = 'Encoding<%s>::Size' % short_t(fn['recargs'][0])
    where = site(fn, '<%s>' % short_t(fn['recargs'][0]))
    try:
        spaths = paths_of(db, fn)
        wpaths = [p for p in paths_of(db, w) if is_success(p)]
    except symx.Unsupported as e:
        chk.unanalysable(R('SZ'), where, 'cannot summarise %s: %s' % (label, e))
        return
    why = []
    for sp in spaths:
        sv = io_view(sp)
        sized = sorted(it[1] for it in sv if it[0] == 'SIZE')
        visits_s = len([e for e in sp.events if e.kind == 'call' and e.name == 'Visit'])
        spred = _value_preds(sp)
        for wp in wpaths:
            wpred = _value_preds(wp)
            if any(kk in spred and spred[kk] != vv for kk, vv in wpred.items()):
                continue        # different state of the value
            wv = io_view(wp)
            written = sorted(it[1] for it in wv if it[0] in ('ENC', 'PAYLOAD'))
            visits_w = len([e for e in wp.events if e.kind == 'call' and e.name == 'Visit'])
            # the wrapper's own prefix byte: when the writer does not delegate to the contained value's payload (whose Size()
            # already includes that value's prefix), the wrapper's marker byte must be counted by Size() itself
            delegates = any(it[0] == 'PAYLOAD' for it in wv)
            rp = symx.as_poly(sp.ret) if sp.ret is not None else None
            own_prefix = rp is not None and ('BaseEncodingSize' in repr(rp) or (rp.t.get((), 0) or 0) >= 1)
            if not delegates and not visits_w and not own_prefix:
                why.append('in the state %s the writer emits the wrapper\'s own marker byte but Size() = %s does not count it' % (
                    sorted('%s=%s' % (a.replace('p:value.', ''), b) for a, b in {**wpred, **spred}.items())[:3], repr(rp)[:80]))
            if sized != written or visits_s != visits_w:
                why.append('in the state %s the writer emits %s%s but Size() counts %s%s' % (
                    sorted('%s=%s' % (a.replace('p:value.', ''), b) for a, b in {**wpred, **spred}.items())[:3], [short_t(x) for x in written],
                    ' + visited element' if visits_w else '', [short_t(x) for x in sized], ' + visited element' if visits_s else ''))
    chk.decide(not why, R('SZ'), where, '%s: %s' % (label, '; '.join(sorted(set(why))[:2]) if why else
                                                    'in every state of the value the sized components are the ones the writer emits'), function=ir.fn_label(fn))


class _Quiet:
    extra = {}

    def decide(self, *a, **k):
        return True

    def ok(self, *a, **k):
        pass

    def bad(self, *a, **k):
        pass

    def unanalysable(self, *a, **k):
        pass


# --------------------------------------------------------------------------- LogicalBuffer view
def logical_buffer_view(chk, db, rule):
    """begin() = &data[0], end() = &data[size], size() = the size member, operator[](i) = data[i]"""
    seen = set()
    for f in db.fns:
        if f.get('rect') != 'nop::LogicalBuffer' or 'body' not in f or f['n'] not in ('begin', 'end', 'size', 'operator[]'):
            continue
        key = (f['file'], f['pat']['l'])
        if key in seen:
            continue
        seen.add(key)
        rets = [y for y in ir.walk(f['body']) if y.get('k') == 'ret']
        e = ir.strip_all_casts(rets[0]['e']) if len(rets) == 1 else {}
        ok = False
        rec = db.records.get(f['rec'], {})
        fields = {x['n']: x['t'] for x in rec.get('fields', [])}

        def field_of(x):
            x = ir.strip_all_casts(x)
            return x['n'] if x.get('k') == 'mem' and ir.strip(x['b']).get('k') == 'this' else None
        if f['n'] == 'size':
            ok = field_of(e) is not None and not fields.get(field_of(e), '').endswith(']&') and '[' not in fields.get(field_of(e), '')
        elif f['n'] in ('begin', 'end'):
            if e.get('k') == 'un' and e['op'] == '&':
                idx = ir.strip_all_casts(e['e'])
                if idx.get('k') in ('idx',) or (idx.get('k') == 'call' and idx.get('ck') == 'op'):
                    base = idx['b'] if idx['k'] == 'idx' else idx['args'][0]
                    i = idx['i'] if idx['k'] == 'idx' else idx['args'][1]
                    if field_of(base) is not None:
                        if f['n'] == 'begin':
                            ok = ir.const_of(ir.strip_all_casts(i)) == 0 or ir.const_of(i) == 0
                        else:
                            ok = field_of(i) is not None and field_of(i) != field_of(base)
            if f['n'] == 'end' and not ok and e.get('k') == 'bin' and e.get('op') == '+':
                # the same element address spelled without subscripting at size(): <first element> + size
                def first_element(x):
                    x = ir.strip_all_casts(x)
                    if x.get('k') == 'call' and ir.callee_name(x) == 'begin' and ir.strip(x.get('obj', {})).get('k') == 'this':
                        return True
                    if x.get('k') == 'call' and ir.callee_name(x) == 'data' and field_of(x.get('obj', {})) is not None:
                        return True
                    if x.get('k') == 'un' and x.get('op') == '&':
                        ii = ir.strip_all_casts(x['e'])
                        if ii.get('k') == 'idx' or (ii.get('k') == 'call' and ii.get('ck') == 'op'):
                            b2 = ii['b'] if ii['k'] == 'idx' else ii['args'][0]
                            i2 = ii['i'] if ii['k'] == 'idx' else ii['args'][1]
                            return field_of(b2) is not None and ir.const_of(ir.strip_all_casts(i2)) == 0
                    return False

                def size_field(x):
                    n = field_of(x)
                    return n is not None and '[' not in fields.get(n, '') and 'array<' not in fields.get(n, '')
                ok = (first_element(e['l']) and size_field(e['r'])) or (first_element(e['r']) and size_field(e['l']))
        else:
            idx = e
            if idx.get('k') in ('idx',) or (idx.get('k') == 'call' and idx.get('ck') == 'op'):
                base = idx['b'] if idx['k'] == 'idx' else idx['args'][0]
                i = idx['i'] if idx['k'] == 'idx' else idx['args'][1]
                ok = field_of(base) is not None and ir.strip_all_casts(i).get('id') == f['params'][0]['id']
        what = {'begin': 'returns &data[0]', 'end': 'returns the address of data[size] (&data[size] or first element + size)', 'size': 'returns the size member',
                'operator[]': 'returns data[index]'}[f['n']]
        chk.decide(ok, rule, facts.site(f), 'LogicalBuffer::%s %s%s' % (f['n'], what, '' if ok else ': NOT recognised'),
                   function=ir.fn_label(f))


# --------------------------------------------------------------------------- composition of wrapper encoders
WRAPPER_KINDS = ('OPTIONAL', 'RESULT', 'ENUM', 'VARIANT', 'VALUE', 'REFWRAP')


def nested_encodings(db, fn):
    """component types whose Encoding<X>/EncodingIO<X> members an encoder member reaches, through its own helpers,
    lambdas and any library helper that is not itself an encoder of another type"""
    encs, visited = set(), set()
    own = fn['rec'].split('<', 1)[1]

    def collect(f, depth):
        if id(f) in visited or depth > 8:
            return
        visited.add(id(f))
        for c in ir.calls(f['body']):
            cc = c.get('callee') or {}
            if cc.get('rect') in ('nop::Encoding', 'nop::EncodingIO') and cc.get('rec', '').split('<', 1)[1:] != [own] and \
                    cc.get('rec') != fn['rec']:
                inner = cc['rec'].split('<', 1)[1][:-1]
                a = split_args(inner)
                if cc['rect'] == 'nop::Encoding' and len(a) == 2 and a[1] == 'void':
                    inner = a[0]
                if inner != fn['recargs'][0]:
                    encs.add(inner)
                    continue
            cal = db.callee(f, c)
            if cal is not None and 'body' in cal and cal.get('nop', True):
                collect(cal, depth + 1)
        for y in ir.walk(f['body']):
            if y.get('k') == 'lambda' and y.get('op') and 'fid' in y['op']:
                g = db.fn_by_id(f, y['op']['fid'])
                if g is not None and 'body' in g:
                    collect(g, depth + 1)
    collect(fn, 0)
    return encs


def norm_t(t):
    return re.sub(r'\bconst\s+', '', t).strip()


def composition(chk, db, rule, methods):
    """wrapper encoders (optional, result, enum, variant, value wrapper, reference wrapper) consist of exactly the documented
    component encodings: Encoding<T> for the wrapped value, Encoding<ErrorEnum> for a result's error, Encoding<underlying type>
    for an enum, INT32 index plus Encoding<Ti> (and EmptyVariant) for a variant"""
    seen = set()
    value_kinds = {}
    for fn in encoder_instances(db, set(methods) | {'Prefix'}):
        k = classify(fn)
        if k is None or k.kind not in WRAPPER_KINDS or (fn['n'] not in methods and k.kind != 'VALUE'):
            continue
        key = (fn['recargs'][0], fn['n'], len(fn['params']))
        if key in seen:
            continue
        seen.add(key)
        t = fn['recargs'][0]
        args = split_args(t[t.index('<') + 1:-1]) if '<' in t and t.endswith('>') else []
        got = {norm_t(x) for x in nested_encodings(db, fn)}
        whole = fn['n'] in ('WritePayload', 'ReadPayload', 'Size')
        want = None
        if k.kind in ('OPTIONAL', 'REFWRAP'):
            want = {args[0]}
        elif k.kind == 'RESULT':
            want = {args[0], args[1]} if whole else {args[1]}
        elif k.kind == 'VARIANT':
            want = ({'int', 'nop::EmptyVariant'} | set(args)) if whole else set()
        elif k.kind == 'ENUM':
            e = db.enums.get(t)
            if e is None or not e.get('underlying'):
                continue            # unnamed selector enums: not resolvable by name; covered by the named ones
            want = {e['underlying']}
        elif k.kind == 'VALUE':
            # a value wrapper delegates every operation to the encoding of one and the same wrapped member
            value_kinds.setdefault(t, {})[fn['n']] = (got, fn)
            continue
        # an enum is encoded as its underlying integer type, so either spelling of that component is the same encoding
        under = lambda x: (db.enums.get(x) or {}).get('underlying') or x
        want = {under(norm_t(x)) for x in want}
        got = {under(x) for x in got}
        chk.decide(got == want, rule, '%s <%s> %s' % (facts.site(fn), short_t(t), fn['n']),
                   'Encoding<%s>::%s is composed of the encodings of %s%s' % (short_t(t), fn['n'], sorted(got),
                                                                          '' if got == want else ', documented: %s' % sorted(want)),
                   function=ir.fn_label(fn))
    for t, by in sorted(value_kinds.items()):
        ref = by.get('Prefix', (None, None))[0]
        for n, (got, fn) in sorted(by.items()):
            if n not in methods:
                continue
            ok = len(got) == 1 and got == ref
            chk.decide(ok, rule, '%s <%s> %s' % (facts.site(fn), short_t(t), n),
                       'Encoding<%s>::%s delegates to %s (Prefix: %s)' % (short_t(t), n, sorted(got), sorted(ref or [])), function=ir.fn_label(fn))


# --------------------------------------------------------------------------- container prefix per kind
KIND_LABEL = {'STR': 'STR', 'MAP': 'MAP', 'PAIR': 'ARY', 'TUPLE': 'ARY', 'STRUCT': 'STU', 'TABLE': 'TAB', 'VARIANT': 'VAR', 'HANDLE': 'HND'}


def prefix_kind(chk, db, rule, methods):
    """the container prefix of every encoder kind is the documented one: integral element sequences are BIN, other sequences ARY,
    strings STR, maps MAP, pairs/tuples ARY, structures STU, tables TAB, variants VAR, handles HND - Prefix() returns exactly
    that byte and Match() accepts exactly that byte (evaluated on all 256 prefix values)"""
    from . import il, ilrules
    table, _ = ilrules.doc_table(chk, rule)
    if table is None:
        return
    seen = set()
    for fn in encoder_instances(db, set(methods)):
        k = classify(fn)
        if k is None:
            continue
        if k.kind in ('VEC', 'ARR', 'LB'):
            label = 'BIN' if k.bin else 'ARY'
        else:
            label = KIND_LABEL.get(k.kind)
        if label is None or label not in table:
            continue
        key = (fn['recargs'][0], fn['n'])
        if key in seen:
            continue
        seen.add(key)
        want = table[label][0]
        where = '%s <%s> %s' % (facts.site(fn), short_t(fn['recargs'][0]), fn['n'])
        lab = 'Encoding<%s>::%s' % (short_t(fn['recargs'][0]), fn['n'])
        if fn['n'] == 'Match':
            try:
                got = {b for b in range(256) if il.run(db, fn, [b])}
            except il.Unanalysable as e:
                chk.unanalysable(rule, where, 'cannot evaluate %s: %s' % (lab, e))
                continue
            chk.decide(got == {want}, rule, where, '%s accepts %s, documented container prefix %s (0x%02x)' % (
                lab, ['0x%02x' % b for b in sorted(got)][:6], label, want), function=ir.fn_label(fn))
        else:
            try:
                paths = paths_of(db, fn)
            except symx.Unsupported as e:
                chk.unanalysable(rule, where, str(e))
                continue
            vals = set()
            for p in paths:
                r = symx.as_poly(p.ret) if p.ret is not None else None
                vals.add(r.const_value() if r is not None and r.is_const() else repr(p.ret))
            chk.decide(vals == {want}, rule, where, '%s returns %s, documented container prefix %s (0x%02x)' % (lab, sorted(map(str, vals)), label, want),
                       function=ir.fn_label(fn))
