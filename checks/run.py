#!/usr/bin/env python3
"""Entry point of every registered check:  python3 checks/run.py <Cxx> --tier quick|thorough

Exit 0: every obligation discharged on /repo's current working tree (known findings
printed as KNOWN-FINDING lines).  Exit 1 + `VIOLATION property=<id> replay=<path>`:
an obligation is violated and not listed in known_findings.json.  Exit 2 +
`ANALYSIS-BROKEN ...`: the analysis could not be carried out (never a pass).
"""
import argparse
import importlib
import json
import os
import sys
import time
import traceback

VERIF = os.path.dirname(os.path.dirname(os.path.abspath(__file__)))
sys.path.insert(0, VERIF)

from nopsa import facts, report  # noqa: E402


def main():
    ap = argparse.ArgumentParser()
    ap.add_argument('prop')
    ap.add_argument('--tier', default=os.environ.get('VERIF_TIER', 'quick'), choices=['quick', 'thorough'])
    args = ap.parse_args()
    os.chdir(VERIF)
    seed = int(os.environ.get('VERIF_SEED', '0') or 0)
    prop = args.prop.upper()
    chk = report.Check(prop, args.tier, seed)
    try:
        mod = importlib.import_module('nopsa.props.' + prop.lower())
        db = facts.load(args.tier) if getattr(mod, 'NEEDS_FACTS', True) else None
        if db is not None:
            chk.extra['analysed'] = db.stats
        mod.run(chk, db)
    except facts.AnalysisBroken as e:
        chk.broken.append(('setup', e.site, e.reason))
    except Exception as e:  # an internal error of the analysis is never a pass
        traceback.print_exc()
        chk.broken.append(('internal', '-', '%s: %s' % (type(e).__name__, e)))
    rc = chk.finish()
    sys.exit(rc)


if __name__ == '__main__':
    main()
