// Compile-time witnesses for C19: the slot tag types that key ThreadLocal storage denote distinct (T, Slot) pairs.
#include <cstddef>
#include <new>
#include <string>
#include <type_traits>

#include <nop/types/thread_local.h>

struct TagA {};
struct TagB {};
using nop::ThreadLocal;
using nop::ThreadLocalIndexSlot;
using nop::ThreadLocalSlot;
using nop::ThreadLocalTypeSlot;

template <typename X, typename Y>
constexpr bool distinct() { return !std::is_same<X, Y>::value; }

static_assert(distinct<ThreadLocalIndexSlot<0>, ThreadLocalSlot<void, 0>>(), "W:index_slot_0_is_not_the_default_slot");
static_assert(distinct<ThreadLocalIndexSlot<1>, ThreadLocalSlot<void, 1>>(), "W:index_slot_is_not_a_void_typed_slot");
static_assert(distinct<ThreadLocalIndexSlot<0>, ThreadLocalIndexSlot<1>>(), "W:index_slots_differ_by_index");
static_assert(distinct<ThreadLocalSlot<TagA, 0>, ThreadLocalSlot<TagB, 0>>(), "W:typed_slots_differ_by_type");
static_assert(distinct<ThreadLocalSlot<TagA, 0>, ThreadLocalSlot<TagA, 1>>(), "W:typed_slots_differ_by_index");
static_assert(distinct<ThreadLocalTypeSlot<TagA>, ThreadLocalTypeSlot<TagB>>(), "W:type_slots_differ_by_type");
static_assert(distinct<ThreadLocalTypeSlot<TagA>, ThreadLocalIndexSlot<0>>(), "W:type_slot_is_not_an_index_slot");
static_assert(distinct<ThreadLocal<int>, ThreadLocal<int, ThreadLocalIndexSlot<0>>>(), "W:default_slot_object_differs_from_index_slot_0");
static_assert(distinct<ThreadLocal<int, ThreadLocalIndexSlot<2>>, ThreadLocal<int, ThreadLocalSlot<void, 2>>>(), "W:objects_differ_index_vs_void_slot");
static_assert(distinct<ThreadLocal<int, ThreadLocalTypeSlot<TagA>>, ThreadLocal<long, ThreadLocalTypeSlot<TagA>>>(), "W:objects_differ_by_value_type");
static_assert(std::is_same<ThreadLocal<int>, ThreadLocal<int, ThreadLocalSlot<void, 0>>>::value, "W:default_slot_is_void_0");
static_assert(!std::is_copy_constructible<ThreadLocal<int>>::value, "W:thread_local_not_copyable");
