// Compile-time witnesses for C14 (never run).
#include <array>
#include <cstdint>
#include <string>
#include <tuple>
#include <vector>

#include <nop/serializer.h>
#include <nop/rpc/interface.h>
#include <nop/rpc/simple_method_receiver.h>
#include <nop/rpc/simple_method_sender.h>
#include <nop/utility/buffer_reader.h>
#include <nop/utility/buffer_writer.h>

struct Api : nop::Interface<Api> {
  NOP_INTERFACE("w.Api");
  NOP_METHOD(Sum, int(int a, int b));
  NOP_METHOD(Name, std::string(std::vector<int> v));
  NOP_METHOD(Zero, int());
  NOP_INTERFACE_API(Sum, Name, Zero);
};
static_assert(Api::Sum::Selector != Api::Name::Selector, "W:selectors_differ");
static_assert(Api::GetMethodSelector<0>() == Api::Sum::Selector, "W:api_order_0");
static_assert(Api::GetMethodSelector<1>() == Api::Name::Selector, "W:api_order_1");
static_assert(Api::GetMethodSelector<2>() == Api::Zero::Selector, "W:api_order_2");

struct Svc { int Sum(int a, int b) { return a + b; } };

// Twins that must compile: function, lambda, method bindings; fungible substitution (array<int,3> for vector<int>).
inline void Good() {
  auto b1 = nop::BindInterface(Api::Sum::Bind([](int a, int b) { return a + b; }),
                               Api::Name::Bind([](const std::array<int, 3>&) { return std::string{}; }),
                               Api::Zero::Bind([]() { return 0; }));
  auto b2 = nop::BindInterface<Svc*>(Api::Sum::Bind(&Svc::Sum));
  (void)b1;
  (void)b2;
}

// MUSTFAIL duplicate_selectors
struct DupApi : nop::Interface<DupApi> {
  NOP_INTERFACE("w.Dup");
  NOP_METHOD_SEL(5, A, int());
  NOP_METHOD_SEL(5, B, int(int));
  NOP_INTERFACE_API(A, B);
};
inline void UseDup() { (void)sizeof(DupApi::NOP__INTERFACE_API); }
// END duplicate_selectors

// MUSTFAIL bound_twice
inline void BoundTwice() {
  auto b = nop::BindInterface(Api::Sum::Bind([](int a, int b) { return a + b; }), Api::Sum::Bind([](int a, int b) { return a * b; }));
  (void)b;
}
// END bound_twice

// MUSTFAIL too_few_arguments
inline void TooFew() {
  auto b = nop::BindInterface(Api::Sum::Bind([](int a) { return a; }));
  (void)b;
}
// END too_few_arguments

// MUSTFAIL incompatible_signature
inline void Incompatible() {
  auto b = nop::BindInterface(Api::Sum::Bind([](const std::string& a, int b) { return b + static_cast<int>(a.size()); }));
  (void)b;
}
// END incompatible_signature

// MUSTFAIL incompatible_return_type
inline void BadReturnType() {
  // the handler's return type must be fungible with the declared one: a wider integer only looks compatible while results are small
  auto b = nop::BindInterface(Api::Sum::Bind([](int a, int b) { return static_cast<std::int64_t>(a) + b; }));
  (void)b;
}
// END incompatible_return_type

// MUSTFAIL incompatible_return_type_method
struct SvcWide { std::string Sum(int a, int b) { return std::to_string(a + b); } };
inline void BadReturnTypeMethod() {
  auto b = nop::BindInterface<SvcWide*>(Api::Sum::Bind(&SvcWide::Sum));
  (void)b;
}
// END incompatible_return_type_method

// MUSTFAIL mixed_selector_widths
struct Api32 : nop::Interface<Api32> {
  NOP_INTERFACE32("w.Api32");
  NOP_METHOD(Echo, int(int));
  NOP_INTERFACE_API(Echo);
};
inline void Mixed() {
  auto b = nop::BindInterface(Api::Zero::Bind([]() { return 0; }), Api32::Echo::Bind([](int a) { return a; }));
  (void)b;
}
// END mixed_selector_widths
