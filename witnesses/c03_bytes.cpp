// Compile-time witnesses for C03 (never run): the compiler evaluates the library's own serializer over a constexpr writer
// and compares the bytes with encodings written out by hand from docs/format.md.  Each static_assert ties one piece of
// macro / encoder wiring to the documented layout: member order = macro argument order, integer classes at their
// boundaries, BIN for integral arrays and ARY for arrays of structures, table hash / count / id / size / value, empty
// entries omitted, nested structures (enums are not constexpr-serialisable: reinterpret_cast), external structures, value wrappers, pairs, tuples.
#include <array>
#include <cstdint>
#include <limits>
#include <tuple>
#include <utility>

#include <nop/serializer.h>
#include <nop/structure.h>
#include <nop/table.h>
#include <nop/value.h>
#include <nop/types/optional.h>
#include <nop/utility/constexpr_buffer_writer.h>

namespace w {

template <std::size_t N>
struct Bytes {
  std::uint8_t b[N ? N : 1];
  constexpr bool operator==(const Bytes& o) const {
    for (std::size_t i = 0; i < N; i++)
      if (b[i] != o.b[i]) return false;
    return true;
  }
};

// serialises `value` at compile time into exactly N bytes; a size mismatch or a failing write compares unequal
template <std::size_t N, typename T>
constexpr Bytes<N> Ser(const T& value) {
  Bytes<N> out{};
  nop::Serializer<nop::ConstexprBufferWriter> s{out.b, N};
  auto status = s.Write(value);
  if (!status || s.writer().size() != N) {
    // a failing write or a different size must make the comparison FAIL (a violated witness), not the evaluation ill-formed
    for (std::size_t i = 0; i < (N ? N : 1); i++) out.b[i] = static_cast<std::uint8_t>(0xe0 + (i & 7));
    out.b[0] = 0xee;
  }
  return out;
}
template <typename T>
constexpr std::size_t Size(const T& v) { return nop::Encoding<T>::Size(v); }

template <typename T, std::size_t N>
struct Arr {  // constexpr-friendly array (std::array's operator[] is not constexpr for non-const objects in C++14)
  T e[N];
  constexpr const T* begin() const { return &e[0]; }
  constexpr const T* end() const { return &e[N]; }
  constexpr std::size_t size() const { return N; }
  NOP_VALUE(Arr, e);
};


struct S3 { std::uint8_t a; std::int16_t b; std::uint32_t c; NOP_STRUCTURE(S3, a, b, c); };
struct S3r { std::uint8_t a; std::int16_t b; std::uint32_t c; NOP_STRUCTURE(S3r, c, a, b); };   // macro order, not declaration order
struct Ext { std::int8_t x; std::uint16_t y; };
NOP_EXTERNAL_STRUCTURE(Ext, y, x);
struct Outer { S3 in; std::uint8_t e; NOP_STRUCTURE(Outer, in, e); };
struct Wrap { std::uint16_t v; NOP_VALUE(Wrap, v); };
struct T3 { nop::Entry<std::uint8_t, 1> a; nop::Entry<std::int32_t, 5> b; nop::Entry<std::uint8_t, 9> c; NOP_TABLE_HASH(0x1234, T3, a, b, c); };

constexpr S3 kS3{127, -2, 0x10000};
static_assert(Size(kS3) == 9, "W:size.struct");
static_assert(Ser<9>(kS3) == Bytes<9>{{0xb9, 0x03, 0x7f, 0xfe, 0x82, 0x00, 0x00, 0x01, 0x00}}, "W:struct.member_order");
static_assert(Ser<9>(S3r{127, -2, 0x10000}) == Bytes<9>{{0xb9, 0x03, 0x82, 0x00, 0x00, 0x01, 0x00, 0x7f, 0xfe}}, "W:struct.macro_order_wins");
static_assert(Ser<6>(Ext{-1, 300}) == Bytes<6>{{0xb9, 0x02, 0x81, 0x2c, 0x01, 0xff}}, "W:external_struct.macro_order");
static_assert(Ser<13>(Outer{kS3, 200}) == Bytes<13>{{0xb9, 0x02, 0xb9, 0x03, 0x7f, 0xfe, 0x82, 0x00, 0x00, 0x01, 0x00, 0x80, 0xc8}}, "W:struct.nested");
static_assert(Ser<5>(std::int32_t{-70000}) == Bytes<5>{{0x86, 0x90, 0xee, 0xfe, 0xff}}, "W:int.i32_class");
static_assert(Ser<3>(Wrap{256}) == Bytes<3>{{0x81, 0x00, 0x01}}, "W:value_wrapper.transparent");

// integer classes at their boundaries
static_assert(Ser<1>(std::uint64_t{127}) == Bytes<1>{{0x7f}}, "W:int.u64.fix");
static_assert(Ser<2>(std::uint64_t{128}) == Bytes<2>{{0x80, 0x80}}, "W:int.u64.u8");
static_assert(Ser<3>(std::uint64_t{256}) == Bytes<3>{{0x81, 0x00, 0x01}}, "W:int.u64.u16");
static_assert(Ser<5>(std::uint64_t{65536}) == Bytes<5>{{0x82, 0x00, 0x00, 0x01, 0x00}}, "W:int.u64.u32");
static_assert(Ser<9>(std::uint64_t{0x100000000ull}) == Bytes<9>{{0x83, 0x00, 0x00, 0x00, 0x00, 0x01, 0x00, 0x00, 0x00}}, "W:int.u64.u64");
static_assert(Ser<1>(std::int64_t{-64}) == Bytes<1>{{0xc0}}, "W:int.i64.negfix");
static_assert(Ser<2>(std::int64_t{-65}) == Bytes<2>{{0x84, 0xbf}}, "W:int.i64.i8");
static_assert(Ser<3>(std::int64_t{-129}) == Bytes<3>{{0x85, 0x7f, 0xff}}, "W:int.i64.i16");
static_assert(Ser<5>(std::int64_t{2147483647}) == Bytes<5>{{0x86, 0xff, 0xff, 0xff, 0x7f}}, "W:int.i64.i32max");
static_assert(Ser<9>(std::int64_t{2147483648ll}) == Bytes<9>{{0x87, 0x00, 0x00, 0x00, 0x80, 0x00, 0x00, 0x00, 0x00}}, "W:int.i64.i64");
static_assert(Ser<9>(std::numeric_limits<std::int64_t>::min()) == Bytes<9>{{0x87, 0, 0, 0, 0, 0, 0, 0, 0x80}}, "W:int.i64.min");
static_assert(Ser<1>(true) == Bytes<1>{{0x01}}, "W:bool.true");

// sequences: BIN (byte length) for integral elements, ARY (element count) otherwise
constexpr Arr<std::uint16_t, 3> kU16{{1, 0x0203, 0xffff}};
static_assert(Ser<8>(kU16) == Bytes<8>{{0xbc, 0x06, 0x01, 0x00, 0x03, 0x02, 0xff, 0xff}}, "W:array.integral_is_bin_bytes");
constexpr Arr<Wrap, 2> kW{{{1}, {300}}};
static_assert(Ser<6>(kW) == Bytes<6>{{0xba, 0x02, 0x01, 0x81, 0x2c, 0x01}}, "W:array.non_integral_is_ary_count");
constexpr Arr<std::int64_t, 1> kI64{{-2}};
static_assert(Ser<10>(kI64) == Bytes<10>{{0xbc, 0x08, 0xfe, 0xff, 0xff, 0xff, 0xff, 0xff, 0xff, 0xff}}, "W:array.i64_lanes");
constexpr Arr<char16_t, 2> kC16{{0x0102, 0x0304}};
static_assert(Ser<6>(kC16) == Bytes<6>{{0xbc, 0x04, 0x02, 0x01, 0x04, 0x03}}, "W:array.char16_two_byte_lanes");
constexpr Arr<bool, 3> kBool{{true, false, true}};
static_assert(Ser<5>(kBool) == Bytes<5>{{0xbc, 0x03, 0x01, 0x00, 0x01}}, "W:array.bool_one_byte_lanes");
constexpr Arr<char32_t, 1> kC32{{0x01020304}};
static_assert(Ser<6>(kC32) == Bytes<6>{{0xbc, 0x04, 0x04, 0x03, 0x02, 0x01}}, "W:array.char32_four_byte_lanes");
static_assert(Ser<5>(std::pair<std::uint8_t, std::int8_t>{200, -3}) == Bytes<5>{{0xba, 0x02, 0x80, 0xc8, 0xfd}}, "W:pair.ary2");
static_assert(Ser<6>(std::make_tuple(std::uint8_t{1}, std::uint16_t{256})) == Bytes<6>{{0xba, 0x02, 0x01, 0x81, 0x00, 0x01}}, "W:tuple.ary_in_order");

// optional
static_assert(Ser<1>(nop::Optional<std::uint8_t>{}) == Bytes<1>{{0xbe}}, "W:optional.nil");
static_assert(Ser<2>(nop::Optional<std::uint8_t>{200}) == Bytes<2>{{0x80, 0xc8}}, "W:optional.value");

// table: prefix, hash, count of non-empty entries, then per entry id, byte size, value; empty entries omitted
constexpr T3 kT3{nop::Entry<std::uint8_t, 1>{}, nop::Entry<std::int32_t, 5>{-70000}, nop::Entry<std::uint8_t, 9>{200}};
static_assert(Size(kT3) == 16, "W:size.table");
static_assert(Ser<16>(kT3) == Bytes<16>{{0xb5, 0x81, 0x34, 0x12, 0x02, 0x05, 0x05, 0x86, 0x90, 0xee, 0xfe, 0xff, 0x09, 0x02, 0x80, 0xc8}}, "W:table.layout");
static_assert(Ser<5>(T3{}) == Bytes<5>{{0xb5, 0x81, 0x34, 0x12, 0x00}}, "W:table.all_empty");

// a table declared by name carries its 64-bit hash in the U64 class: all eight bytes, little-endian
struct TN { nop::Entry<std::uint8_t, 1> a; NOP_TABLE_NS("w.NamedTable", TN, a); };
constexpr Bytes<11> ExpectedNamed(std::uint64_t h) {
  return Bytes<11>{{0xb5, 0x83, static_cast<std::uint8_t>(h), static_cast<std::uint8_t>(h >> 8), static_cast<std::uint8_t>(h >> 16),
                    static_cast<std::uint8_t>(h >> 24), static_cast<std::uint8_t>(h >> 32), static_cast<std::uint8_t>(h >> 40),
                    static_cast<std::uint8_t>(h >> 48), static_cast<std::uint8_t>(h >> 56), 0x00}};
}
static_assert(nop::EntryListTraits<TN>::EntryList::Hash > 0xffffffffull, "W:table.named_hash_is_64bit");
static_assert(Ser<11>(TN{}) == ExpectedNamed(nop::EntryListTraits<TN>::EntryList::Hash), "W:table.named_hash_bytes");

}  // namespace w
