// Compile-time witnesses for C18 (never run; clang -fsyntax-only evaluates them).
// Each static_assert ties a hash/selector produced by the library's macros to an
// independent constexpr SipHash-2-4 (written from the specification below) of the
// name bytes - including the string terminator, which the library hashes - under
// the PUBLISHED key constants (wire contract, literal here on purpose).
#include <cstddef>
#include <cstdint>
#include <string>
#include <vector>

#include <nop/serializer.h>
#include <nop/table.h>
#include <nop/rpc/interface.h>
#include <nop/utility/sip_hash.h>

namespace refsip {
using u64 = std::uint64_t;
constexpr u64 rotl(u64 x, int b) { return (x << b) | (x >> (64 - b)); }
struct S { u64 a, b, c, d; };
constexpr S round(S s) {
  s.a += s.b; s.b = rotl(s.b, 13); s.b ^= s.a; s.a = rotl(s.a, 32);
  s.c += s.d; s.d = rotl(s.d, 16); s.d ^= s.c;
  s.a += s.d; s.d = rotl(s.d, 21); s.d ^= s.a;
  s.c += s.b; s.b = rotl(s.b, 17); s.b ^= s.c; s.c = rotl(s.c, 32);
  return s;
}
constexpr u64 byte_at(const char* p, std::size_t i) { return static_cast<unsigned char>(p[i]); }
constexpr u64 hash(const char* p, std::size_t n, u64 k0, u64 k1) {
  S s{k0 ^ 0x736f6d6570736575ULL, k1 ^ 0x646f72616e646f6dULL, k0 ^ 0x6c7967656e657261ULL, k1 ^ 0x7465646279746573ULL};
  std::size_t i = 0;
  for (; i + 8 <= n; i += 8) {
    u64 m = 0;
    for (int j = 0; j < 8; j++) m |= byte_at(p, i + j) << (8 * j);
    s.d ^= m; s = round(round(s)); s.a ^= m;
  }
  u64 b = static_cast<u64>(n) << 56;
  for (int j = 0; i + j < n; j++) b |= byte_at(p, i + j) << (8 * j);
  s.d ^= b; s = round(round(s)); s.a ^= b;
  s.c ^= 0xff; s = round(round(round(round(s))));
  return s.a ^ s.b ^ s.c ^ s.d;
}
template <std::size_t N>
constexpr u64 of(const char (&name)[N], u64 k0, u64 k1) { return hash(name, N, k0, k1); }
}  // namespace refsip

// Published key constants.
constexpr std::uint64_t kTableKey0 = 0xbaadf00ddeadbeefULL;
constexpr std::uint64_t kTableKey1 = 0x0123456789abcdefULL;
constexpr std::uint64_t kInterfaceKey0 = 0xdeadcafebaadf00dULL;
constexpr std::uint64_t kInterfaceKey1 = 0x0123456789abcdefULL;

static_assert(nop::kNopTableKey0 == kTableKey0, "W:key.table0");
static_assert(nop::kNopTableKey1 == kTableKey1, "W:key.table1");
static_assert(nop::kNopInterfaceKey0 == kInterfaceKey0, "W:key.interface0");
static_assert(nop::kNopInterfaceKey1 == kInterfaceKey1, "W:key.interface1");

// Library hash == reference hash for names of every length residue, long names and bytes >= 0x80.
#define CHECK_NAME(id, lit)                                                                         \
  static_assert(nop::SipHash::Compute(lit, 0x0706050403020100ULL, 0x0f0e0d0c0b0a0908ULL) ==          \
                    refsip::of(lit, 0x0706050403020100ULL, 0x0f0e0d0c0b0a0908ULL), "W:hash." id ".k1"); \
  static_assert(nop::SipHash::Compute(lit, kTableKey0, kTableKey1) == refsip::of(lit, kTableKey0, kTableKey1), "W:hash." id ".k2")
CHECK_NAME("len0", "");
CHECK_NAME("len1", "a");
CHECK_NAME("len2", "ab");
CHECK_NAME("len3", "abc");
CHECK_NAME("len4", "abcd");
CHECK_NAME("len5", "abcde");
CHECK_NAME("len6", "abcdef");
CHECK_NAME("len7", "abcdefg");
CHECK_NAME("len8", "abcdefgh");
CHECK_NAME("len15", "abcdefghijklmno");
CHECK_NAME("len16", "abcdefghijklmnop");
CHECK_NAME("high", "na\xc3\xafve.\xe2\x82\xac.\xff\x80\xfe");
CHECK_NAME("long", "0123456789abcdef0123456789abcdef0123456789abcdef0123456789abcdef0123456789abcdef0123456789abcdef0123456789abcdef0123456789abcdef0123456789abcdef0123456789abcdef0123456789abcdef0123456789abcdef0123456789abcdef0123456789abcdef0123456789abcdef0123456789abcdef0123456789abcdef");

// Table hashes.
#define TABLE_WITNESS(id, T, lit)                                                                  \
  struct T { nop::Entry<int, 1> a; NOP_TABLE_NS(lit, T, a); };                                     \
  static_assert(nop::EntryListTraits<T>::EntryList::Hash == refsip::of(lit, kTableKey0, kTableKey1), "W:table." id)
TABLE_WITNESS("short", TabShort, "t");
TABLE_WITNESS("dotted", TabDotted, "io.github.eieio.Table");
TABLE_WITNESS("high", TabHigh, "t\xc3\xa9l\xc3\xa9");
TABLE_WITNESS("len8", TabLen8, "1234567");
// boundary names: the empty name (one byte, the terminator) and a one-character name are hashed like any other
TABLE_WITNESS("empty_name", TabEmptyName, "");
TABLE_WITNESS("len1", TabLen1, "x");
static_assert(nop::EntryListTraits<TabEmptyName>::EntryList::Hash != 0, "W:table.empty_name_is_not_the_unnamed_table");
// The name is the whole array handed to the macro: trailing padding and embedded NULs are part of it.
TABLE_WITNESS("embedded_nul1", TabNul1, "sensors\0v1");
TABLE_WITNESS("embedded_nul2", TabNul2, "sensors\0v2");
static_assert(nop::EntryListTraits<TabNul1>::EntryList::Hash != nop::EntryListTraits<TabNul2>::EntryList::Hash, "W:table.embedded_nul_distinct");
constexpr char kPaddedName[16] = "Telemetry";
struct TabPadded { nop::Entry<int, 1> a; NOP_TABLE_NS(kPaddedName, TabPadded, a); };
static_assert(nop::EntryListTraits<TabPadded>::EntryList::Hash == refsip::of(kPaddedName, kTableKey0, kTableKey1), "W:table.padded_array");
static_assert(nop::EntryListTraits<TabPadded>::EntryList::Hash != refsip::of("Telemetry", kTableKey0, kTableKey1), "W:table.padded_array_all_bytes");
struct TabZero { nop::Entry<int, 1> a; NOP_TABLE(TabZero, a); };
static_assert(nop::EntryListTraits<TabZero>::EntryList::Hash == 0, "W:table.zero");
struct TabFixed { nop::Entry<int, 1> a; NOP_TABLE_HASH(15, TabFixed, a); };
static_assert(nop::EntryListTraits<TabFixed>::EntryList::Hash == 15, "W:table.fixed");

// Interface hashes and method selectors.
struct Api64 : nop::Interface<Api64> {
  NOP_INTERFACE("io.github.eieio.Api64");
  NOP_METHOD(Sum, int(int, int));
  NOP_METHOD(LongerMethodName, void(std::string));
  NOP_METHOD_SEL(99, Fixed, int());
  NOP_INTERFACE_API(Sum, LongerMethodName, Fixed);
};
constexpr std::uint64_t kApi64Hash = refsip::of("io.github.eieio.Api64", kInterfaceKey0, kInterfaceKey1);
static_assert(Api64::NOP__INTERFACE::Hash == kApi64Hash, "W:interface.hash64");
static_assert(Api64::Sum::Selector == refsip::of("Sum", kApi64Hash, kInterfaceKey1), "W:selector.sum64");
static_assert(Api64::LongerMethodName::Selector == refsip::of("LongerMethodName", kApi64Hash, kInterfaceKey1), "W:selector.long64");
static_assert(Api64::Fixed::Selector == 99, "W:selector.fixed");
// The selector is the hash of the method name AS WRITTEN: a method name that happens to be an object-like macro in one
// translation unit (SendMessage -> SendMessageW) must still hash the spelled token, or differently configured peers disagree.
#define SendMessage SendMessageW
struct ApiMacro : nop::Interface<ApiMacro> {
  NOP_INTERFACE("io.github.eieio.ApiMacro");
  NOP_METHOD(SendMessage, void(int));
  NOP_INTERFACE_API(SendMessage);
};
#undef SendMessage
constexpr std::uint64_t kApiMacroHash = refsip::of("io.github.eieio.ApiMacro", kInterfaceKey0, kInterfaceKey1);
static_assert(ApiMacro::SendMessageW::Selector == refsip::of("SendMessage", kApiMacroHash, kInterfaceKey1), "W:selector.name_as_written");
static_assert(sizeof(Api64::Sum::MethodSelector) == 8, "W:selector.width64");

struct Api32 : nop::Interface<Api32> {
  NOP_INTERFACE32("x\xc3\xbc.Api32");
  NOP_METHOD(Echo, std::string(std::string));
  NOP_INTERFACE_API(Echo);
};
constexpr std::uint64_t kApi32Hash = refsip::of("x\xc3\xbc.Api32", kInterfaceKey0, kInterfaceKey1);
static_assert(Api32::NOP__INTERFACE::Hash == kApi32Hash, "W:interface.hash32");
static_assert(Api32::Echo::Selector == static_cast<std::uint32_t>(refsip::of("Echo", kApi32Hash, kInterfaceKey1)), "W:selector.echo32");
static_assert(sizeof(Api32::Echo::MethodSelector) == 4, "W:selector.width32");
