// Compile-time witnesses for C15 (never run).
#include <array>
#include <cstdint>
#include <type_traits>
#include <vector>

#include <nop/serializer.h>
#include <nop/structure.h>
#include <nop/table.h>
#include <nop/types/file_handle.h>
#include <nop/types/handle.h>
#include <nop/utility/bounded_reader.h>
#include <nop/utility/bounded_writer.h>
#include "test_reader.h"
#include "test_writer.h"

using IntHandle = nop::Handle<nop::DefaultHandlePolicy<int, -1>>;
using UH = nop::UniqueHandle<nop::DefaultHandlePolicy<int, -1>>;

static_assert(!std::is_copy_constructible<UH>::value, "W:unique_not_copy_constructible");
static_assert(!std::is_copy_assignable<UH>::value, "W:unique_not_copy_assignable");
static_assert(std::is_move_constructible<UH>::value, "W:unique_move_constructible");
static_assert(std::is_move_assignable<UH>::value, "W:unique_move_assignable");
static_assert(!std::is_constructible<UH, UH&>::value, "W:unique_not_constructible_from_lvalue");
static_assert(!std::is_constructible<UH, const UH&>::value, "W:unique_not_constructible_from_const_lvalue");
static_assert(!std::is_assignable<UH&, UH&>::value, "W:unique_not_assignable_from_lvalue");
static_assert(!std::is_constructible<UH, const IntHandle&>::value && !std::is_constructible<UH, IntHandle&>::value &&
                  !std::is_constructible<UH, IntHandle>::value,
              "W:unique_not_constructible_from_plain_handle");
static_assert(!std::is_convertible<int, UH>::value && std::is_constructible<UH, int>::value, "W:unique_from_value_is_explicit");
static_assert(!std::is_constructible<nop::UniqueFileHandle, nop::UniqueFileHandle&>::value, "W:unique_file_not_constructible_from_lvalue");
static_assert(!std::is_copy_constructible<nop::UniqueFileHandle>::value, "W:unique_file_not_copyable");
static_assert(std::is_copy_constructible<IntHandle>::value, "W:plain_handle_copyable");

// A Handle inside a table entry goes through BoundedWriter::PushHandle / BoundedReader::GetHandle: must compile.
struct WithHandle {
  nop::Entry<IntHandle, 1> h;
  nop::Entry<std::vector<IntHandle>, 2> hs;
  NOP_TABLE(WithHandle, h, hs);
};
inline void UseTableHandle() {
  nop::TestWriter w;
  nop::Serializer<nop::TestWriter*> s{&w};
  (void)s.Write(WithHandle{});
  nop::TestReader r;
  nop::Deserializer<nop::TestReader*> d{&r};
  WithHandle t;
  (void)d.Read(&t);
}
static_assert(std::is_same<decltype(std::declval<nop::BoundedWriter<nop::TestWriter>&>().PushHandle(std::declval<const IntHandle&>())),
                           nop::Status<nop::HandleReference>>::value, "W:bounded_push_returns_reference_status");
static_assert(std::is_same<decltype(std::declval<nop::BoundedReader<nop::TestReader>&>().GetHandle<IntHandle>(0)),
                           nop::Status<IntHandle>>::value, "W:bounded_get_returns_handle_status");
