// Compile-time witnesses for C02 (never run): the capacity a logical-buffer decoder validates a wire count against
// (`size > Length` -> InvalidContainerLength) is the number of ELEMENTS the array member holds.  The guard itself is decided by
// rule GRD on the decoder's paths; what `Length` evaluates to for a given array type is a compile-time fact of the traits, decided
// here for one- and two-dimensional C arrays and std::array (a flattened extent admits counts that run past the array).
#include <array>
#include <cstddef>
#include <cstdint>
#include <limits>

#include <nop/structure.h>
#include <nop/types/detail/logical_buffer.h>

namespace w {

template <typename Buffer, typename Size>
constexpr bool CapacityFits() {
  using LB = nop::LogicalBuffer<Buffer, Size>;
  return static_cast<std::size_t>(LB::Length) * sizeof(typename LB::ValueType) <= sizeof(Buffer);
}
template <typename Buffer, typename Size>
constexpr std::size_t Capacity() { return static_cast<std::size_t>(nop::LogicalBuffer<Buffer, Size>::Length); }

static_assert(Capacity<int[4], std::uint8_t>() == 4 && CapacityFits<int[4], std::uint8_t>(), "W:lb_capacity.c_array");
static_assert(Capacity<int[2][3], std::uint8_t>() == 2 && CapacityFits<int[2][3], std::uint8_t>(), "W:lb_capacity.c_array_of_c_arrays_counts_rows");
static_assert(Capacity<char[3][5][2], std::size_t>() == 3 && CapacityFits<char[3][5][2], std::size_t>(), "W:lb_capacity.c_array_3d_counts_outer");
static_assert(Capacity<std::array<std::int64_t, 5>, std::uint32_t>() == 5 && CapacityFits<std::array<std::int64_t, 5>, std::uint32_t>(), "W:lb_capacity.std_array");
static_assert(Capacity<std::array<int[3], 2>, int>() == 2 && CapacityFits<std::array<int[3], 2>, int>(), "W:lb_capacity.std_array_of_c_arrays");
static_assert(Capacity<std::array<std::array<char, 7>, 2>, std::uint16_t>() == 2 && CapacityFits<std::array<std::array<char, 7>, 2>, std::uint16_t>(), "W:lb_capacity.std_array_of_std_arrays");
static_assert(Capacity<const std::array<short, 6>, std::uint8_t>() == 6, "W:lb_capacity.const_std_array");

}  // namespace w
