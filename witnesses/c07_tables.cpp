// Compile-time witnesses for C07 (never run).
#include <cstdint>
#include <string>
#include <vector>

#include <nop/serializer.h>
#include <nop/table.h>
#include <nop/traits/is_fungible.h>
#include <nop/utility/buffer_reader.h>
#include <nop/utility/buffer_writer.h>

using nop::DeletedEntry;
using nop::Entry;

// Twins that must compile: evolved definitions of one table.
struct V1 { Entry<std::string, 0> a; Entry<int, 1> b; NOP_TABLE_NS("w", V1, a, b); };
struct V2 { Entry<int, 1> b; Entry<std::string, 0, DeletedEntry> a; Entry<std::vector<int>, 5> c; NOP_TABLE_NS("w", V2, b, a, c); };
static_assert(nop::EntryListTraits<V1>::EntryList::Hash == nop::EntryListTraits<V2>::EntryList::Hash, "W:same_name_same_hash");
static_assert(nop::EntryListTraits<V1>::EntryList::Count == 2, "W:count_v1");
static_assert(nop::EntryListTraits<V2>::EntryList::Count == 3, "W:count_v2");
static_assert(nop::IsFungible<V1, V2>::value == nop::IsFungible<V2, V1>::value, "W:fungible_symmetric");

inline void UseBoth() {
  std::uint8_t buffer[64];
  nop::Serializer<nop::BufferWriter> s{buffer, sizeof(buffer)};
  nop::Deserializer<nop::BufferReader> d{buffer, sizeof(buffer)};
  V1 v1;
  V2 v2;
  (void)s.Write(v1);
  (void)d.Read(&v2);
  (void)s.Write(v2);
  (void)d.Read(&v1);
}

// MUSTFAIL duplicate_ids
struct Dup { Entry<int, 3> a; Entry<std::string, 3> b; NOP_TABLE(Dup, a, b); };
inline void UseDup() {
  std::uint8_t buffer[8];
  nop::Serializer<nop::BufferWriter> s{buffer, sizeof(buffer)};
  (void)s.Write(Dup{});
}
// END duplicate_ids

// MUSTFAIL duplicate_id_with_deleted
struct Dup2 { Entry<int, 3> a; Entry<std::string, 3, DeletedEntry> b; NOP_TABLE(Dup2, a, b); };
inline void UseDup2() {
  std::uint8_t buffer[8];
  nop::Serializer<nop::BufferWriter> s{buffer, sizeof(buffer)};
  (void)s.Write(Dup2{});
}
// END duplicate_id_with_deleted
