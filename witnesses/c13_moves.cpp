// Compile-time witnesses for C13 / C12 (never run): a move really moves.  With a move-only element type a statement
// compiles only if overload resolution selects the rvalue overload all the way down; if a "move" silently resolves to a
// copy (user-declared copy members suppressing the implicit move members of Entry, a converting move assignment whose
// SFINAE guard is too narrow so the converting copy assignment is chosen), the region no longer compiles.
#include <limits>
#include <string>
#include <type_traits>
#include <utility>

#include <nop/table.h>
#include <nop/types/optional.h>
#include <nop/types/result.h>
#include <nop/types/variant.h>

namespace w {

struct MoveOnly {
  MoveOnly() = default;
  MoveOnly(MoveOnly&&) = default;
  MoveOnly& operator=(MoveOnly&&) = default;
  MoveOnly(const MoveOnly&) = delete;
  MoveOnly& operator=(const MoveOnly&) = delete;
};
// constructible from an rvalue MoveOnly only, and that construction may throw
struct Sink {
  Sink() = default;
  Sink(MoveOnly&&) noexcept(false) {}
  Sink(Sink&&) = default;
  Sink& operator=(Sink&&) = default;
};
enum class Err { None, A };

// MUSTCOMPILE optional_move_assign_and_construct
inline void OptionalMoves() {
  nop::Optional<MoveOnly> a, b{MoveOnly{}};
  a = std::move(b);
  nop::Optional<MoveOnly> c{std::move(a)};
  c = MoveOnly{};
  (void)c.take();
}
// END optional_move_assign_and_construct

// MUSTCOMPILE optional_converting_move_assign
inline void OptionalConvertingMove() {
  nop::Optional<MoveOnly> src{MoveOnly{}};
  nop::Optional<Sink> dst;
  dst = std::move(src);          // Optional<Sink>::operator=(Optional<MoveOnly>&&): the only viable overload is the rvalue one
}
// END optional_converting_move_assign

// MUSTCOMPILE entry_move_assign_and_construct
struct Table1 { nop::Entry<MoveOnly, 1> e; nop::Entry<std::string, 2> s; NOP_TABLE(Table1, e, s); };
inline void EntryMoves() {
  nop::Entry<MoveOnly, 1> a, b;
  a = std::move(b);
  nop::Entry<MoveOnly, 1> c{std::move(a)};
  Table1 t1, t2;
  t1 = std::move(t2);
  Table1 t3{std::move(t1)};
  (void)c; (void)t3;
}
// END entry_move_assign_and_construct

// MUSTCOMPILE result_move_assign_and_construct
inline void ResultMoves() {
  nop::Result<Err, MoveOnly> a, b{MoveOnly{}};
  a = std::move(b);
  nop::Result<Err, MoveOnly> c{std::move(a)};
  c = MoveOnly{};
  (void)c.take();
}
// END result_move_assign_and_construct

// MUSTCOMPILE variant_move_assign_and_construct
inline void VariantMoves() {
  nop::Variant<int, MoveOnly> a, b{MoveOnly{}};
  a = std::move(b);
  nop::Variant<int, MoveOnly> c{std::move(a)};
  c = MoveOnly{};
  (void)c;
}
// END variant_move_assign_and_construct

// Assigning EmptyVariant empties the Variant - also when an alternative could be constructed from anything (an "any"/JSON-like
// value type).  If overload resolution preferred the converting operator=(T&&) for an rvalue tag, Any's constructor template
// would be instantiated with EmptyVariant and the static_assert in its body would fire.
struct Any {
  Any() = default;
  template <typename T, typename = std::enable_if_t<!std::is_same<std::decay_t<T>, Any>::value>>
  Any(T&&) {
    static_assert(!std::is_same<std::decay_t<T>, nop::EmptyVariant>::value,
                  "EmptyVariant was converted into an element instead of emptying the Variant");
  }
};
// MUSTCOMPILE variant_empty_assignment_is_not_a_conversion
inline void VariantEmptyAssign() {
  nop::Variant<int, Any> v{Any{}};
  v = nop::EmptyVariant{};
  nop::EmptyVariant tag;
  v = std::move(tag);
  v = tag;
}
// END variant_empty_assignment_is_not_a_conversion

// MUSTFAIL optional_copy_of_move_only
inline void OptionalCopy() {
  nop::Optional<MoveOnly> a, b;
  a = b;
}
// END optional_copy_of_move_only

// Copies from NON-const lvalues are copies.  For T = bool the explicit conversion to bool makes T constructible from an
// Optional<bool> lvalue, so an unconstrained forwarding constructor / assignment hijacks the copy (F-R).
// (the empty case is decided by rule CH on the resolved constructor: the trivially-destructible State copies its inactive
// storage member, which is not a constant expression)
constexpr bool CopyOfFalseEntryLvalueIsFalse() { nop::Entry<bool, 1> f{false}; nop::Optional<bool> c{f}; return !c.empty() && !c.get(); }
static_assert(CopyOfFalseEntryLvalueIsFalse(), "W:optional_bool.copy_of_false_entry_lvalue_is_false");
constexpr bool CopyOfFalseLvalueIsFalse() { nop::Optional<bool> f{false}; nop::Optional<bool> c{f}; return !c.empty() && !c.get(); }
static_assert(CopyOfFalseLvalueIsFalse(), "W:optional_bool.copy_of_false_lvalue_is_false");
// In-place construction with NO arguments constructs the value (value-initialised), it does not merely flip the flag: with a
// storage default constructor in the overload set the empty pack selects it and the "value" is the inactive union member
// (reading it is not a constant expression: the witness fails either way).
constexpr bool InPlaceWithoutArgumentsConstructs() { nop::Optional<int> o{nop::InPlace{}}; return !o.empty() && o.get() == 0; }
static_assert(InPlaceWithoutArgumentsConstructs(), "W:optional.in_place_without_arguments_constructs_the_value");
constexpr bool EntryInPlaceWithoutArgumentsConstructs() { nop::Entry<int, 1> e{nop::InPlace{}}; return !e.empty() && e.get() == 0; }
static_assert(EntryInPlaceWithoutArgumentsConstructs(), "W:entry.in_place_without_arguments_constructs_the_value");
// MUSTCOMPILE optional_bool_lvalue_assignment
inline void OptionalBoolAssign() {
  nop::Optional<bool> a, b{true};
  a = b;
  nop::Entry<bool, 1> x, y;
  x = y;
  a = x;
}
// END optional_bool_lvalue_assignment

}  // namespace w
