// Positive fixture for the status-discipline rules: each function violates one rule.
#ifndef VERIF_FIXTURES_FX_C10_H_
#define VERIF_FIXTURES_FX_C10_H_
#include <array>
#include <cstdint>
#include <nop/base/encoding.h>
#include <nop/status.h>
namespace nop {
namespace fx {

template <typename Writer>
Status<void> Discards(Writer* writer) {   // SD1
  writer->Write(std::uint8_t{1});
  return {};
}
template <typename Writer>
Status<void> Untested(Writer* writer) {   // SD2
  auto status = writer->Write(std::uint8_t{1});
  status = writer->Write(std::uint8_t{2});
  return status;
}
template <typename Writer>
Status<void> ContinuesAfterFailure(Writer* writer) {   // SD3
  auto status = writer->Write(std::uint8_t{1});
  if (!status)
    (void)0;
  return writer->Write(std::uint8_t{2});
}
template <typename Writer>
Status<void> Rewrites(Writer* writer) {   // SD4
  auto status = writer->Write(std::uint8_t{1});
  if (!status)
    return ErrorStatus::IOError;
  return {};
}
template <typename Writer>
Status<void> Swallows(Writer* writer) {   // SD4
  auto status = writer->Write(std::uint8_t{1});
  if (!status)
    return {};
  return {};
}
template <typename Writer>
void VoidSwallows(Writer* writer, Status<void>* out) {   // SD4 (out-parameter idiom not followed)
  auto status = writer->Write(std::uint8_t{1});
  if (!status)
    return;
  *out = {};
}
template <typename Reader>
Status<int> UsesValueEarly(Reader* reader) {   // SD2 (value used before test)
  auto status = reader->template GetHandle<int>(0);
  int v = status.get();
  if (!status)
    return status.error();
  return v;
}
// Must NOT be reported: the accepted idioms.
template <typename Writer>
Status<void> Fine(Writer* writer, Status<void>* out) {
  auto status = writer->Write(std::uint8_t{1});
  if (!status) {
    *out = status.error();
    return status;
  }
  status = writer->Write(std::uint8_t{2});
  if (!status)
    return status.error();
  else if (out == nullptr)
    return ErrorStatus::DebugError;
  for (int i = 0; i < 3; i++) {
    status = writer->Write(std::uint8_t{3});
    if (!status)
      return status;
  }
  return writer->Write(std::uint8_t{4});
}

}  // namespace fx
}  // namespace nop
#endif
