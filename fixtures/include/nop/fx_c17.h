// Positive fixture for the reader/writer contract rules (C17/C02/C05/C06).
#ifndef VERIF_FIXTURES_FX_C17_H_
#define VERIF_FIXTURES_FX_C17_H_
#include <array>
#include <cerrno>
#include <cstddef>
#include <cstdint>
#include <cstring>
#include <unistd.h>
#include <nop/base/encoding.h>
#include <nop/base/utility.h>
namespace nop {
namespace fx {

class BadReader {
 public:
  BadReader(const std::uint8_t* buffer, std::size_t size) : buffer_{buffer}, size_{size} {}
  // T: additive (wrapping) limit test
  Status<void> Ensure(std::size_t size) {
    if (index_ + size > size_)
      return ErrorStatus::ReadLimitReached;
    else
      return {};
  }
  Status<void> Read(std::uint8_t* byte) { return Read(byte, byte + 1); }
  // C: copies from the start of the buffer, not from the position
  template <typename T, typename Enable = EnableIfArithmetic<T>>
  Status<void> Read(T* begin, T* end) {
    const std::size_t length_bytes = (end - begin) * sizeof(T);
    if (length_bytes > (size_ - index_))
      return ErrorStatus::ReadLimitReached;
    std::memcpy(begin, &buffer_[0], length_bytes);
    index_ += length_bytes;
    return {};
  }
  // G: unchecked skip
  Status<void> Skip(std::size_t padding_bytes) {
    index_ += padding_bytes;
    return {};
  }
 private:
  const std::uint8_t* buffer_{nullptr};
  std::size_t size_{0};
  std::size_t index_{0};
};

template <typename IStream>
class BadStreamReader {
 public:
  Status<void> Ensure(std::size_t) { return {}; }
  // ST: success without consulting the stream
  Status<void> Read(std::uint8_t* byte) {
    stream_.read(reinterpret_cast<char*>(byte), 1);
    return {};
  }
  Status<void> Read(void* begin, void* end) {
    char* b = static_cast<char*>(begin);
    char* e = static_cast<char*>(end);
    stream_.read(b, e - b);
    return ReturnStatus();
  }
  // ST: seekg is not observable
  Status<void> Skip(std::size_t padding_bytes) {
    stream_.seekg(padding_bytes, std::ios_base::cur);
    return ReturnStatus();
  }
 private:
  // SS: ignores eof
  Status<void> ReturnStatus() {
    if (stream_.bad())
      return ErrorStatus::StreamError;
    else
      return {};
  }
  IStream stream_;
};

class BadFdReader {
 public:
  Status<void> Ensure(std::size_t) { return {}; }
  // FD: end of data reported as success
  Status<void> Read(std::uint8_t* byte) {
    while (true) {
      const int ret = ::read(fd_, byte, sizeof(*byte));
      if (ret == 1 || ret == 0)
        return {};
      else if (errno != EINTR)
        return ErrorStatus::IOError;
    }
  }
 private:
  int fd_{-1};
};

}  // namespace fx
}  // namespace nop
#endif
