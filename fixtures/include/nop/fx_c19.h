// Positive fixture for the C19 rules: every construct below MUST be reported.
#ifndef VERIF_FIXTURES_FX_C19_H_
#define VERIF_FIXTURES_FX_C19_H_
#include <cstddef>
#include <cstring>
#include <ctime>
#include <new>
#include <nop/types/optional.h>
namespace nop {
namespace fx {

// S1: mutable function-local static shared by all threads.
inline int& Counter() {
  static int counter = 0;
  return counter;
}
// S1: mutable static data member.
struct Cache {
  static int hits;
};
// S1: const object with a mutable member is still shared mutable state.
struct Memo {
  mutable int last{0};
};
static const Memo kMemo{};
// allowed: immutable lookup table (must NOT be reported)
static const int kTable[3] = {1, 2, 3};

// S2/S3: a "thread local" whose storage is not thread_local, and whose setup
// overwrites an already initialised value.
template <typename T, typename Slot = void>
class ThreadLocal {
 public:
  ThreadLocal() : value_{Setup()} {}
  T& Get() { return value_->get(); }
  void Clear() {}
 private:
  Optional<T>* value_;
  static Optional<T>* Setup() {
    Optional<T>* value = GetValue();
    *value = Optional<T>(T{});
    return value;
  }
  static Optional<T>* GetValue() {
    static Optional<T> value;
    return &value;
  }
};

// S4: an encoder with per-object state.
template <typename T>
struct Encoding {
  std::size_t last_size;
  std::size_t Size(const T&) { return last_size; }
};

// S5: non-reentrant libc calls.
inline const char* Message(int error) { return std::strerror(error); }
inline int Year(std::time_t t) { return std::localtime(&t)->tm_year; }

}  // namespace fx
}  // namespace nop
#endif
