// Positive fixture for the C16 rules: a bounded reader with one defect per primitive.
#ifndef VERIF_FIXTURES_FX_C16_H_
#define VERIF_FIXTURES_FX_C16_H_
#include <array>
#include <cstddef>
#include <cstdint>
#include <nop/base/encoding.h>
#include <nop/base/handle.h>
#include <nop/base/utility.h>
namespace nop {
namespace fx {

template <typename Reader>
class BoundedReader {
 public:
  BoundedReader(Reader* reader, std::size_t size) : reader_{reader}, size_{size} {}

  // G: wrapping (additive) guard form.
  Status<void> Ensure(std::size_t size) {
    if (index_ + size > size_)
      return ErrorStatus::ReadLimitReached;
    else
      return reader_->Ensure(size);
  }
  // E: refusal returns the wrong category.  S: advances before the status test.
  Status<void> Read(std::uint8_t* byte) {
    if (index_ < size_) {
      auto status = reader_->Read(byte);
      index_ += 1;
      if (!status)
        return status;
      return {};
    } else {
      return ErrorStatus::StreamError;
    }
  }
  // G: no guard at all.  S: counts elements, not bytes.
  template <typename T, typename Enable = EnableIfArithmetic<T>>
  Status<void> Read(T* begin, T* end) {
    const std::size_t length = end - begin;
    auto status = reader_->Read(begin, end);
    if (!status)
      return status;
    index_ += length;
    return {};
  }
  // D: forwards a different amount.  S: swallows the wrapped failure.
  Status<void> Skip(std::size_t padding_bytes) {
    if (padding_bytes > (size_ - index_))
      return ErrorStatus::ReadLimitReached;
    auto status = reader_->Skip(padding_bytes + 1);
    if (!status)
      return {};
    index_ += padding_bytes;
    return {};
  }
  // P: skips the whole limit instead of the remainder.
  Status<void> ReadPadding() {
    const std::size_t padding_bytes = size_;
    auto status = reader_->Skip(padding_bytes);
    if (!status)
      return status;
    index_ += padding_bytes;
    return {};
  }
  template <typename HandleType>
  Status<HandleType> GetHandle(HandleReference handle_reference) {
    return reader_->template GetHandle<HandleType>(handle_reference);
  }

 private:
  Reader* reader_{nullptr};
  std::size_t size_{0};
  std::size_t index_{0};
};

}  // namespace fx
}  // namespace nop
#endif
