// Positive fixture for rule NX (C12/C13): a holder whose move constructor is declared noexcept although it move-constructs
// an arbitrary element type.  Never part of a check's verdict on /repo: it only shows that the rule can fire.
#ifndef VERIF_FIXTURES_FX_C12_H_
#define VERIF_FIXTURES_FX_C12_H_
#include <new>
#include <utility>
namespace nop {
namespace fx {
template <typename T>
union Holder {
  Holder() {}
  ~Holder() {}
  Holder(Holder&& other, int index) noexcept {
    if (index == 0)
      new (&first_) T(std::move(other.first_));
  }
  void Quiet() noexcept { (void)sizeof(first_); }
  T first_;
};
}  // namespace fx
}  // namespace nop
#endif
