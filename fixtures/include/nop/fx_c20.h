// Positive fixture for C20: a HostEndian with a wrong lane and a swapped binding.
#ifndef VERIF_FIXTURES_FX_C20_H_
#define VERIF_FIXTURES_FX_C20_H_
#include <cstddef>
#include <cstdint>
#include <initializer_list>
#include <utility>
namespace nop {
namespace fx {
template <typename T>
struct HostEndian {
  // PB: public Big conversion bound to the little-endian helper
  static constexpr T FromBig(T value) {
    const std::size_t N = sizeof(T);
    union { T value; std::uint8_t data[N]; } u{value};
    return Little(u.data, std::make_index_sequence<N>{});
  }
  static constexpr T FromLittle(T value) {
    const std::size_t N = sizeof(T);
    union { T value; std::uint8_t data[N]; } u{value};
    return Broken(u.data, std::make_index_sequence<N>{});
  }
 private:
  template <std::size_t N, std::size_t... Is>
  static constexpr T Little(const std::uint8_t (&value)[N], std::index_sequence<Is...>) {
    T out = 0;
    (void)std::initializer_list<bool>{(out |= static_cast<T>(value[Is]) << Is * 8, false)...};
    return out;
  }
  // LM: lanes shifted by 4 bits per byte
  template <std::size_t N, std::size_t... Is>
  static constexpr T Broken(const std::uint8_t (&value)[N], std::index_sequence<Is...>) {
    T out = 0;
    (void)std::initializer_list<bool>{(out |= static_cast<T>(value[Is]) << Is * 4, false)...};
    return out;
  }
};
}  // namespace fx
}  // namespace nop
#endif
