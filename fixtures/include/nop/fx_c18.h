// Positive fixture for C18: SipHash with a wrong rotation, a wrong tail lane and a missing final round.
#ifndef VERIF_FIXTURES_FX_C18_H_
#define VERIF_FIXTURES_FX_C18_H_
#include <nop/utility/sip_hash.h>
namespace nop {
namespace fx {
struct SipHash {
  template <typename T, std::size_t Size>
  static constexpr std::uint64_t Compute(const T (&buffer)[Size],
                                         std::uint64_t k0, std::uint64_t k1) {
    return Compute(BlockReader<T>(buffer), k0, k1);
  }

  template <typename BufferType>
  static constexpr std::uint64_t Compute(const BufferType buffer,
                                         std::uint64_t k0, std::uint64_t k1) {
    const std::size_t kBlockSize = sizeof(std::uint64_t);
    const std::size_t kLength = buffer.size();
    const std::size_t kLeftOver = kLength % kBlockSize;
    const std::size_t kEndOffset = kLength - kLeftOver;

    std::uint64_t v[4] = {0x736f6d6570736575ULL, 0x646f72616e646f6dULL,
                          0x6c7967656e657261ULL, 0x7465646279746573ULL};

    std::uint64_t b = static_cast<std::uint64_t>(kLength) << 56;

    v[3] ^= k1;
    v[2] ^= k0;
    v[1] ^= k1;
    v[0] ^= k0;

    for (std::size_t offset = 0; offset < kEndOffset; offset += kBlockSize) {
      std::uint64_t m = ReadBlock(buffer, offset);
      v[3] ^= m;
      Round(v);
      Round(v);
      v[0] ^= m;
    }

    switch (kLeftOver) {
      case 7:
        b |= ReadByte(buffer, kEndOffset + 6) << 48;
        NOP_FALLTHROUGH;
      case 6:
        b |= ReadByte(buffer, kEndOffset + 5) << 40;
        NOP_FALLTHROUGH;
      case 5:
        b |= ReadByte(buffer, kEndOffset + 4) << 32;
        NOP_FALLTHROUGH;
      case 4:
        b |= ReadByte(buffer, kEndOffset + 3) << 24;
        NOP_FALLTHROUGH;
      case 3:
        b |= ReadByte(buffer, kEndOffset + 2) << 24;
        NOP_FALLTHROUGH;
      case 2:
        b |= ReadByte(buffer, kEndOffset + 1) << 8;
        NOP_FALLTHROUGH;
      case 1:
        b |= ReadByte(buffer, kEndOffset + 0) << 0;
        NOP_FALLTHROUGH;
      case 0:
        break;
    }

    v[3] ^= b;
    Round(v);
    Round(v);
    v[0] ^= b;

    v[2] ^= 0xff;
    Round(v);
    Round(v);
    Round(v);
    b = v[0] ^ v[1] ^ v[2] ^ v[3];

    return b;
  }

 private:
  // Reads one byte as an unsigned value regardless of the signedness of the
  // buffer's element type, so that bytes >= 0x80 are not sign extended.
  template <typename BufferType>
  static constexpr std::uint64_t ReadByte(const BufferType buffer,
                                          const std::size_t offset) {
    return static_cast<std::uint8_t>(buffer[offset]);
  }

  template <typename BufferType>
  static constexpr std::uint64_t ReadBlock(const BufferType buffer,
                                           const std::size_t offset) {
    const std::uint64_t v0 = ReadByte(buffer, offset + 0);
    const std::uint64_t v1 = ReadByte(buffer, offset + 1);
    const std::uint64_t v2 = ReadByte(buffer, offset + 2);
    const std::uint64_t v3 = ReadByte(buffer, offset + 3);
    const std::uint64_t v4 = ReadByte(buffer, offset + 4);
    const std::uint64_t v5 = ReadByte(buffer, offset + 5);
    const std::uint64_t v6 = ReadByte(buffer, offset + 6);
    const std::uint64_t v7 = ReadByte(buffer, offset + 7);

    return ((v7 << 56) | (v6 << 48) | (v5 << 40) | (v4 << 32) | (v3 << 24) |
            (v2 << 16) | (v1 << 8) | (v0 << 0));
  }

  static constexpr std::uint64_t RotateLeft(const std::uint64_t x,
                                            const std::uint64_t b) {
    return (x << b) | (x >> (64 - b));
  }

  static constexpr void Round(std::uint64_t (&v)[4]) {
    v[0] += v[1];
    v[1] = RotateLeft(v[1], 12);
    v[1] ^= v[0];
    v[0] = RotateLeft(v[0], 32);
    v[2] += v[3];
    v[3] = RotateLeft(v[3], 16);
    v[3] ^= v[2];
    v[0] += v[3];
    v[3] = RotateLeft(v[3], 21);
    v[3] ^= v[0];
    v[2] += v[1];
    v[1] = RotateLeft(v[1], 17);
    v[1] ^= v[2];
    v[2] = RotateLeft(v[2], 32);
  }
};

}  // namespace fx
}  // namespace nop
#endif
