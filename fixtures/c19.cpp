#include "include/nop/fx_c19.h"
int nop::fx::Cache::hits = 0;
void FixtureC19() {
  (void)nop::fx::Counter();
  nop::fx::ThreadLocal<int> t;
  (void)t.Get();
  t.Clear();
  nop::fx::Encoding<int> e{};
  (void)e.Size(1);
  (void)nop::fx::Message(1);
  (void)nop::fx::Year(0);
  (void)nop::fx::kMemo;
  (void)nop::fx::kTable;
}
