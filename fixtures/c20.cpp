#include "include/nop/fx_c20.h"
void FixtureC20() {
  (void)nop::fx::HostEndian<std::uint32_t>::FromBig(1);
  (void)nop::fx::HostEndian<std::uint32_t>::FromLittle(1);
}
