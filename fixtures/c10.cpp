#include "include/nop/fx_c10.h"
struct W {
  nop::Status<void> Write(std::uint8_t) { return {}; }
  template <typename T> nop::Status<T> GetHandle(long) { return {T{}}; }
};
void FixtureC10() {
  W w;
  nop::Status<void> out;
  (void)nop::fx::Discards(&w);
  (void)nop::fx::Untested(&w);
  (void)nop::fx::ContinuesAfterFailure(&w);
  (void)nop::fx::Rewrites(&w);
  (void)nop::fx::Swallows(&w);
  nop::fx::VoidSwallows(&w, &out);
  (void)nop::fx::UsesValueEarly(&w);
  (void)nop::fx::Fine(&w, &out);
}
