#include "include/nop/fx_c12.h"
struct MayThrow {
  MayThrow() {}
  MayThrow(MayThrow&&) {}      // not noexcept
};
void FixtureC12() {
  nop::fx::Holder<MayThrow> a;
  nop::fx::Holder<MayThrow> b{std::move(a), 0};
  b.Quiet();
}
