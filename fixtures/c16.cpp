#include "include/nop/fx_c16.h"
#include <nop/utility/pedantic_buffer_reader.h>
struct R : nop::PedanticBufferReader {
  template <typename H> nop::Status<H> GetHandle(nop::HandleReference) { return {H{}}; }
};
void FixtureC16() {
  R inner;
  nop::fx::BoundedReader<R> r{&inner, 4};
  std::uint8_t b;
  std::uint32_t w[2];
  (void)r.Ensure(1);
  (void)r.Read(&b);
  (void)r.Read(&w[0], &w[2]);
  (void)r.Skip(1);
  (void)r.ReadPadding();
  (void)r.GetHandle<int>(0);
}
