#include "include/nop/fx_c18.h"
void FixtureC18() {
  const char name[] = "fixture";
  (void)nop::fx::SipHash::Compute(name, 1, 2);
}
