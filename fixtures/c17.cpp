#include <sstream>
#include "include/nop/fx_c17.h"
void FixtureC17() {
  std::uint8_t buf[8] = {};
  nop::fx::BadReader r{buf, 8};
  std::uint8_t b;
  std::uint32_t w[1];
  (void)r.Ensure(1);
  (void)r.Read(&b);
  (void)r.Read(&w[0], &w[1]);
  (void)r.Skip(1);
  nop::fx::BadStreamReader<std::stringstream> s;
  (void)s.Ensure(1);
  (void)s.Read(&b);
  (void)s.Read(&w[0], &w[1]);
  (void)s.Skip(1);
  nop::fx::BadFdReader f;
  (void)f.Ensure(1);
  (void)f.Read(&b);
}
