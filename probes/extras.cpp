// Probe: remaining accessors, constructors and helpers so that every function
// pattern under include/nop has at least one analysed instance.
#include "common.h"

#include <nop/rpc/interface.h>
#include <nop/rpc/simple_method_receiver.h>
#include <nop/rpc/simple_method_sender.h>
#include <nop/utility/sip_hash.h>

using namespace nop;
using namespace probe;

void ProbeExtras() {
  std::uint8_t array[32] = {};
  const std::uint8_t const_array[32] = {};
  BufferReader br{const_array};
  BufferWriter bw{array};
  ConstexprBufferWriter cw{array};
  PedanticBufferReader pr{const_array};
  PedanticBufferWriter pw{array};
  BufferReader brv{static_cast<const void*>(array), sizeof(array)};
  BufferWriter bwv{static_cast<void*>(array), sizeof(array)};
  PedanticBufferReader prv{static_cast<const void*>(array), sizeof(array)};
  PedanticBufferWriter pwv{static_cast<void*>(array), sizeof(array)};
  (void)brv; (void)bwv; (void)prv; (void)pwv; (void)cw; (void)pr; (void)pw;

  const StreamReader<std::stringstream> csr;
  const StreamWriter<std::stringstream> csw;
  (void)csr.stream();
  (void)csw.stream();

  // const accessors and default constructors of the (de)serializer forms
  const Serializer<BufferWriter> sv{array, sizeof(array)};
  (void)sv.writer();
  Serializer<BufferWriter*> sp_default;
  const Serializer<BufferWriter*> sp{&bw};
  (void)sp.writer();
  (void)sp_default;
  const Serializer<std::unique_ptr<BufferWriter>> su{std::make_unique<BufferWriter>(array, sizeof(array))};
  (void)su.writer();
  const Deserializer<BufferReader> dv{array, sizeof(array)};
  (void)dv.reader();
  Deserializer<BufferReader*> dp_default;
  const Deserializer<BufferReader*> dp{&br};
  (void)dp.reader();
  (void)dp_default;
  const Deserializer<std::unique_ptr<BufferReader>> du{std::make_unique<BufferReader>(array, sizeof(array))};
  (void)du.reader();

  // Protocol<>
  Serializer<BufferWriter*> ser{&bw};
  Deserializer<BufferReader*> des{&br};
  (void)Protocol<std::vector<int>>::Write(&ser, std::array<int, 3>{{1, 2, 3}});
  std::vector<int> out;
  (void)Protocol<std::array<int, 3>>::Read(&des, &out);
  (void)Protocol<TableV1>::Write(&ser, TableV1{});

  // const accessors of sender/receiver
  const auto receiver = MakeSimpleMethodReceiver(&ser, &des);
  const auto sender = MakeSimpleMethodSender(&ser, &des);
  (void)receiver.serializer();
  (void)receiver.deserializer();
  (void)sender.serializer();
  (void)sender.deserializer();

  // Optional in-place / initializer-list constructors
  Optional<std::vector<int>> o1{InPlace{}, {1, 2, 3}};
  Optional<std::vector<int>> o2{{1, 2, 3}};
  Optional<std::vector<int>> o3{InPlace{}, {1, 2, 3}, std::allocator<int>{}};
  Optional<std::array<int, 2>> o4{InPlace{}};
  (void)o1; (void)o2; (void)o3; (void)o4;

  // single-alternative Variant: base-case Union members
  Variant<std::string> v1{std::string{"a"}};
  Variant<std::string> v2{"literal"};
  v1 = std::string{"b"};
  v1 = "c";
  v1.Become(0);
  v1 = v2;
  Variant<std::string, int> wide{v1};
  wide = v1;
  (void)wide;

  using V = Variant<int, std::string>;
  V v{1};
  const V cv{2};
  (void)std::get<int>(v);
  (void)std::get<int>(cv);
  (void)std::get<int>(V{3});
  (void)std::get<0>(v);
  (void)std::get<0>(cv);
  (void)std::get<0>(V{4});

  const char text[] = "abcdefghijk";
  BlockReader<char> block{text};
  (void)block.size();
  (void)block[0];
}
