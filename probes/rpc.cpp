// Probe: RPC interfaces, bindings, dispatch and invoke over library transports.
#include "common.h"

#include <nop/rpc/interface.h>
#include <nop/rpc/simple_method_receiver.h>
#include <nop/rpc/simple_method_sender.h>

using namespace nop;
using namespace probe;

namespace {

struct Api64 : Interface<Api64> {
  NOP_INTERFACE("probe.Api64");
  NOP_METHOD(Sum, int(int a, int b));
  NOP_METHOD(Length, std::size_t(const std::string& s));
  NOP_METHOD(Pick, Inner(const Variant<Inner, Outer>& v, std::vector<int> list));
  NOP_METHOD(Nothing, void());
  NOP_METHOD(Maybe, Result<ErrorEnum, int>(int x));
  NOP_METHOD(Zero, int());
  NOP_INTERFACE_API(Sum, Length, Pick, Nothing, Maybe, Zero);
};

struct Api32 : Interface<Api32> {
  NOP_INTERFACE32("probe.Api32");
  NOP_METHOD(Echo, std::string(std::string s));
  NOP_METHOD_SEL(77, Fixed, int(std::array<int, 3> a));
  NOP_INTERFACE_API(Echo, Fixed);
};

int FreeSum(int a, int b) { return a + b; }

struct Service {
  int OnSum(int a, int b) { return a + b; }
  std::size_t OnLength(const std::string& s) const { return s.size(); }
};

template <typename W, typename R>
void Drive(W* w, R* r) {
  Serializer<W*> serializer{w};
  Deserializer<R*> deserializer{r};
  auto receiver = MakeSimpleMethodReceiver(&serializer, &deserializer);
  auto sender = MakeSimpleMethodSender(&serializer, &deserializer);
  (void)receiver.serializer();
  (void)receiver.deserializer();
  (void)sender.serializer();
  (void)sender.deserializer();

  // 1 binding, 2 bindings, 4 bindings (void handlers cannot be dispatched by
  // design: Helper::Dispatch materialises the return value).
  auto one = BindInterface(Api64::Sum::Bind(&FreeSum));
  auto two = BindInterface(Api64::Sum::Bind([](int a, int b) { return a * b; }),
                           Api64::Length::Bind([](const std::string& s) { return s.size(); }));
  auto five = BindInterface(
      Api64::Sum::Bind(&FreeSum),
      Api64::Length::Bind([](const std::string& s) { return s.size(); }),
      Api64::Pick::Bind([](const Variant<Inner, Outer>&, std::vector<int>) { return Inner{}; }),
      Api64::Maybe::Bind([](int x) { return Result<ErrorEnum, int>{x}; }),
      Api64::Zero::Bind([]() { return 7; }));
  (void)one(&receiver);
  (void)two(&receiver);
  (void)five(&receiver);
  (void)one.Match(1);
  (void)two.Match(2);
  (void)five.Match(3);

  // Method bindings (const and non-const) with an instance pass-through.
  auto methods = BindInterface<Service*>(Api64::Sum::Bind(&Service::OnSum),
                                         Api64::Length::Bind(&Service::OnLength));
  Service service;
  (void)methods(&receiver, &service);

  // Conforming / fungible substitutions: array<int,3> <-> vector<int>, tuple.
  auto fixed = BindInterface(
      Api32::Echo::Bind([](const std::string& s) { return s; }),
      Api32::Fixed::Bind([](const std::vector<int>& v) { return static_cast<int>(v.size()); }));
  (void)fixed(&receiver);

  InterfaceDispatcher<decltype(receiver)> dispatcher = std::move(two);
  (void)dispatcher(&receiver);

  (void)Api64::Sum::Invoke(&sender, 1, 2);
  (void)Api64::Length::Invoke(&sender, "abc");
  (void)Api64::Length::Invoke(&sender, std::string{"abc"});
  (void)Api64::Pick::Invoke(&sender, Variant<Inner, Outer>{}, std::vector<int>{});
  (void)Api64::Nothing::Invoke(&sender);
  (void)Api64::Maybe::Invoke(&sender, 3);
  (void)Api64::Zero::Invoke(&sender);
  (void)Api32::Echo::Invoke(&sender, "x");
  (void)Api32::Fixed::Invoke(&sender, std::vector<int>{1, 2, 3});
  (void)Api32::Fixed::Invoke(&sender, std::array<int, 3>{{1, 2, 3}});

  (void)Api64::GetInterfaceHash();
  (void)Api64::GetInterfaceName();
  (void)Api64::GetMethodSelector<0>();
  (void)Api32::GetMethodSelector<1>();
  (void)Api64::Sum::Match(0);
}

}  // namespace

void ProbeRpc() {
  std::uint8_t buffer[64] = {};
  BufferWriter bw{buffer, sizeof(buffer)};
  BufferReader br{buffer, sizeof(buffer)};
  Drive(&bw, &br);
  StreamWriter<std::stringstream> sw;
  StreamReader<std::stringstream> sr;
  Drive(&sw, &sr);
}
