// Shared declarations for the probe translation units.  Probes are never run:
// they exist so that every function pattern under include/nop has at least one
// type-checked instantiation for the extractor (tool/nopx.cc) to analyse.
#ifndef VERIF_PROBES_COMMON_H_
#define VERIF_PROBES_COMMON_H_

#include <array>
#include <cstdint>
#include <functional>
#include <map>
#include <sstream>
#include <string>
#include <tuple>
#include <unordered_map>
#include <utility>
#include <vector>

#include <nop/serializer.h>
#include <nop/structure.h>
#include <nop/table.h>
#include <nop/value.h>
#include <nop/protocol.h>
#include <nop/types/file_handle.h>
#include <nop/types/optional.h>
#include <nop/types/result.h>
#include <nop/types/variant.h>
#include <nop/utility/bounded_reader.h>
#include <nop/utility/bounded_writer.h>
#include <nop/utility/buffer_reader.h>
#include <nop/utility/buffer_writer.h>
#include <nop/utility/constexpr_buffer_writer.h>
#include <nop/utility/fd_reader.h>
#include <nop/utility/fd_writer.h>
#include <nop/utility/pedantic_buffer_reader.h>
#include <nop/utility/pedantic_buffer_writer.h>
#include <nop/utility/stream_reader.h>
#include <nop/utility/stream_writer.h>

namespace probe {

// Minimal reader/writer that support handles (no library reader/writer does;
// the bounded wrappers only forward).  Bodies are irrelevant to the analysis.
struct HandleReader {
  nop::Status<void> Ensure(std::size_t) { return {}; }
  nop::Status<void> Read(std::uint8_t*) { return {}; }
  nop::Status<void> Read(void*, void*) { return {}; }
  nop::Status<void> Skip(std::size_t) { return {}; }
  template <typename HandleType>
  nop::Status<HandleType> GetHandle(nop::HandleReference) {
    return {HandleType{}};
  }
};
struct HandleWriter {
  nop::Status<void> Prepare(std::size_t) { return {}; }
  nop::Status<void> Write(std::uint8_t) { return {}; }
  nop::Status<void> Write(const void*, const void*) { return {}; }
  nop::Status<void> Skip(std::size_t, std::uint8_t = 0x00) { return {}; }
  template <typename HandleType>
  nop::Status<nop::HandleReference> PushHandle(const HandleType&) {
    return {0};
  }
};

enum class EnumU8 : std::uint8_t { A = 1, B = 255 };
enum class EnumI32 : std::int32_t { A = -1, B = 70000 };
enum EnumPlain { kPlainA, kPlainB };
enum class ErrorEnum { None, Bad, Worse };
enum class ErrorU8 : std::uint8_t { None, Bad = 200 };
enum class ErrorU64 : std::uint64_t { None, Bad = 0xffffffffffull };

struct Inner {
  int a;
  std::string b;
  NOP_STRUCTURE(Inner, a, b);
};
struct Outer {
  Inner inner;
  EnumU8 e;
  std::vector<Inner> list;
  NOP_STRUCTURE(Outer, inner, e, list);
};
struct Empty {
  NOP_STRUCTURE(Empty);
};
struct External {
  std::int64_t x;
  double y;
};
NOP_EXTERNAL_STRUCTURE(External, x, y);
template <typename T, typename U>
struct Pairish {
  T a;
  U b;
};
NOP_EXTERNAL_STRUCTURE(Pairish, a, b);

// Logical buffers: (array, size) pairs with various size-member types.
template <typename T, std::size_t N, typename S>
struct LBufC {
  T data[N];
  S size;
  NOP_STRUCTURE(LBufC, (data, size));
};
template <typename T, std::size_t N, typename S>
struct LBufA {
  std::array<T, N> data;
  S size;
  NOP_STRUCTURE(LBufA, (data, size));
};
template <typename T>
struct Unbounded {
  std::size_t size;
  T data[1];
  NOP_STRUCTURE(Unbounded, (data, size));
  NOP_UNBOUNDED_BUFFER(Unbounded);
};
template <typename T>
struct UnboundedSigned {
  std::int8_t size;
  T data[1];
  NOP_STRUCTURE(UnboundedSigned, (data, size));
  NOP_UNBOUNDED_BUFFER(UnboundedSigned);
};
// an unbounded buffer whose size member is narrower than the wire's 64-bit count (the decoder must refuse what it cannot count)
template <typename T>
struct UnboundedSmall {
  std::uint8_t size;
  T data[1];
  NOP_STRUCTURE(UnboundedSmall, (data, size));
  NOP_UNBOUNDED_BUFFER(UnboundedSmall);
};

template <typename T>
struct Wrap {
  T value;
  NOP_VALUE(Wrap, value);
};
template <typename T, std::size_t N>
struct WrapBuf {
  std::array<T, N> data{};
  std::size_t size{0};
  NOP_VALUE(WrapBuf, (data, size));
};

struct NonTrivial {
  NonTrivial() {}
  NonTrivial(const NonTrivial&) {}
  NonTrivial(NonTrivial&&) {}
  NonTrivial& operator=(const NonTrivial&) { return *this; }
  NonTrivial& operator=(NonTrivial&&) { return *this; }
  ~NonTrivial() {}
  bool operator==(const NonTrivial&) const { return true; }
  bool operator<(const NonTrivial&) const { return false; }
  int v{0};
  NOP_STRUCTURE(NonTrivial, v);
};

struct TableV1 {
  nop::Entry<std::string, 0> name;
  nop::Entry<std::vector<std::string>, 1> attributes;
  NOP_TABLE_HASH(15, TableV1, name, attributes);
};
struct TableV2 {
  nop::Entry<std::string, 0> name;
  nop::Entry<std::vector<std::string>, 1, nop::DeletedEntry> attributes;
  nop::Entry<std::string, 2> address;
  NOP_TABLE_HASH(15, TableV2, name, attributes, address);
};
struct TableV3 {  // reordered + added
  nop::Entry<std::string, 2> address;
  nop::Entry<std::uint64_t, 7> extra;
  nop::Entry<std::string, 0> name;
  NOP_TABLE_HASH(15, TableV3, address, extra, name);
};
struct TableNamed {
  nop::Entry<int, 1> a;
  nop::Entry<Inner, 2> b;
  nop::Entry<TableV1, 3> nested;
  NOP_TABLE_NS("probe", TableNamed, a, b, nested);
};
struct TableZero {
  nop::Entry<int, 0> a;
  NOP_TABLE(TableZero, a);
};
// Entries whose value type is itself an Optional (and a Result / Variant): re-seating such an entry must not be
// mistaken for assigning an empty wrapper.
struct TableOpt {
  nop::Entry<nop::Optional<int>, 1> a;
  nop::Entry<nop::Optional<std::string>, 2> b;
  nop::Entry<int, 3> c;
  NOP_TABLE(TableOpt, a, b, c);
};
// Non-ascending and 64-bit ids, a deleted entry in the middle, wrapper-typed values.
struct TableWide {
  nop::Entry<std::vector<std::int32_t>, 7> v;
  nop::Entry<nop::Result<ErrorEnum, std::string>, 0> r;
  nop::Entry<int, 5, nop::DeletedEntry> gone;
  nop::Entry<nop::Variant<int, std::string>, 2> var;
  nop::Entry<std::uint64_t, (1ull << 40) + 3> big;
  NOP_TABLE_NS("probe.wide", TableWide, v, r, gone, var, big);
};
struct HoldsTable {
  int before;
  TableV2 table;
  std::vector<TableV1> tables;
  int after;
  NOP_STRUCTURE(HoldsTable, before, table, tables, after);
};

using IntHandle = nop::Handle<nop::DefaultHandlePolicy<int>>;
struct TableHandle {
  nop::Entry<IntHandle, 1> h;
  nop::Entry<nop::FileHandle, 2> u;
  NOP_TABLE(TableHandle, h, u);
};
struct HoldsHandles {
  IntHandle a;
  std::vector<IntHandle> list;
  nop::Optional<IntHandle> opt;
  NOP_STRUCTURE(HoldsHandles, a, list, opt);
};

template <typename T, typename W>
inline void WriteWith(W* w, const T& v) {
  nop::Serializer<W*> s{w};
  (void)s.Write(v);
  (void)s.GetSize(v);
}
template <typename T, typename R>
inline void ReadWith(R* r, T* v) {
  nop::Deserializer<R*> d{r};
  (void)d.Read(v);
}

}  // namespace probe

#endif  // VERIF_PROBES_COMMON_H_
