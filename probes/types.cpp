// Probe: instantiate every member of Optional, Result, Variant, UniqueHandle.
#include <string>
#include <vector>
#include <nop/serializer.h>
#include <nop/types/optional.h>
#include <nop/types/result.h>
#include <nop/types/variant.h>
#include <nop/types/handle.h>
#include <nop/types/file_handle.h>
#include <nop/table.h>
#include <nop/status.h>
using namespace nop;

enum class Err { None, A, B };

template <typename T, typename U>
void UseOptional(const T& v, const U& u) {
  Optional<T> a;
  Optional<T> b{v};
  Optional<T> c{T{v}};
  Optional<T> d{b};
  Optional<T> e{std::move(c)};
  Optional<T> f{u};
  Optional<T> g{InPlace{}, v};
  a = b;
  a = std::move(d);
  Optional<U> ou{u};
  Optional<U> empty_u;
  a = empty_u;
  a = std::move(empty_u);
  a = ou;
  a = std::move(ou);
  a = v;
  a = u;
  (void)a.empty(); (void)static_cast<bool>(a); (void)a.get(); (void)a.take();
  a.clear();
  const Optional<T>& ca = a; (void)ca.get();
  bool r = (a == b) | (a != b) | (a < b) | (a > b) | (a <= b) | (a >= b) |
           (a == v) | (v == a) | (a != v) | (v != a) | (a < v) | (v < a) |
           (a > v) | (v > a) | (a <= v) | (v <= a) | (a >= v) | (v >= a);
  (void)r;
}

// An error enum whose None is NOT its zero enumerator (the library only requires an enumerator named None).
enum class Err2 { A = 0, None = 3, B = 7 };

template <typename Err, typename T>
void UseResultE(const T& v) {
  Result<Err, T> a;
  Result<Err, T> b{v};
  Result<Err, T> c{T{v}};
  Result<Err, T> d{b};
  Result<Err, T> e{std::move(c)};
  Result<Err, T> f{Err::A};
  a = b;
  a = std::move(d);
  a = v;
  a = T{v};
  a = Err::B;
  (void)a.has_value(); (void)a.has_error(); (void)static_cast<bool>(a); (void)a.error();
  (void)a.get(); (void)a.take();
  const Result<Err, T>& ca = a; (void)ca.get();
  a.clear();
}

template <typename T>
void UseResult(const T& v) {
  Result<Err, T> a;
  Result<Err, T> b{v};
  Result<Err, T> c{T{v}};
  Result<Err, T> d{b};
  Result<Err, T> e{std::move(c)};
  Result<Err, T> f{Err::A};
  a = b;
  a = std::move(d);
  a = v;
  a = T{v};
  a = Err::B;
  (void)a.has_value(); (void)a.has_error(); (void)static_cast<bool>(a); (void)a.error();
  (void)a.get(); (void)a.take();
  const Result<Err, T>& ca = a; (void)ca.get();
  a.clear();
}

template <typename E>
void UseResultVoidE() {
  Result<E, void> a; Result<E, void> b{E::A}; Result<E, void> c{b}; Result<E, void> d{std::move(c)};
  a = b; a = std::move(d); (void)a.has_error(); (void)static_cast<bool>(a); (void)a.error(); a.clear();
}

void UseResultVoid() {
  UseResultVoidE<Err2>();
  Result<Err, void> a; Result<Err, void> b{Err::A}; Result<Err, void> c{b}; Result<Err, void> d{std::move(c)};
  a = b; a = std::move(d); (void)a.has_error(); (void)static_cast<bool>(a); (void)a.error(); a.clear();
  Status<void> s; Status<int> si{1}; (void)s.GetErrorMessage(); (void)si.GetErrorMessage();
  Status<std::string> ss{std::string{"v"}}; Status<std::string> se{ErrorStatus::IOError}; Status<std::string> sd; (void)ss.GetErrorMessage(); sd = se; sd = ss; sd = std::move(se); (void)sd.has_value(); (void)sd.has_error(); (void)sd.error(); (void)static_cast<bool>(sd); sd.clear();
}

void UseVariant() {
  using V = Variant<int, std::string, std::vector<int>>;
  V a; V b{10}; V c{std::string{"x"}}; V d{EmptyVariant{}}; V e{b}; V f{std::move(c)}; V g{"literal"};
  Variant<int, std::string> small{5};
  V h{small}; V i{std::move(small)};
  a = b; a = std::move(e); a = 20; a = std::string{"y"}; a = "conv"; a = EmptyVariant{};
  Variant<int, std::string> other{std::string{"z"}};
  a = other; a = std::move(other);
  a.Become(1); a.Become(2); a.Become(7);
  (void)a.index(); (void)a.empty(); (void)a.is<int>(); (void)a.index_of<std::string>();
  (void)a.get<int>(); (void)a.get<1>();
  const V& ca = a; (void)ca.get<int>(); (void)ca.get<1>();
  a.Visit([](auto&&) {});
  ca.Visit([](const auto&) { return 0; });
  int out = 0;
  (void)IfAnyOf<int>::Get(&ca, &out); (void)IfAnyOf<int>::Take(&a, &out); (void)IfAnyOf<int>::Swap(&a, &out);
  (void)IfAnyOf<int, std::string>::Call(&a, [](const auto&) {});
  (void)std::get<int>(a); (void)std::get<0>(a);
}

struct Tracked {
  Tracked() {}
  Tracked(const Tracked&) {}
  Tracked(Tracked&&) {}
  Tracked& operator=(const Tracked&) { return *this; }
  Tracked& operator=(Tracked&&) { return *this; }
  ~Tracked() {}
};

// A Variant whose alternatives are all non-trivially destructible: every lifetime event is an explicit call.
void UseVariant3() {
  using V = Variant<std::string, std::vector<int>, Tracked>;
  V a; V b{std::string{"x"}}; V c{std::vector<int>{1}}; V d{Tracked{}}; V e{EmptyVariant{}}; V f{b}; V g{std::move(c)};
  a = b; a = std::move(f); a = std::string{"y"}; a = std::vector<int>{2}; a = Tracked{}; a = EmptyVariant{};
  const std::string cs{"z"}; a = cs; const Tracked ct; a = ct;
  a.Become(0); a.Become(1); a.Become(2); a.Become(5); a.Become(-1);
  (void)a.index(); (void)a.empty(); (void)a.is<Tracked>();
  (void)a.get<std::string>(); (void)a.get<std::vector<int>>(); (void)a.get<Tracked>(); (void)a.get<0>(); (void)a.get<1>(); (void)a.get<2>();
  const V& ca = a; (void)ca.get<std::string>(); (void)ca.get<2>();
  a.Visit([](auto&&) {});
  ca.Visit([](const auto&) {});
  a = "converted"; V x{"converted"};
  // assignment from a Variant of ANOTHER type list (empty and non-empty source, copy and move)
  Variant<std::string> narrow_empty, narrow_value{std::string{"n"}};
  a = narrow_empty; a = narrow_value; a = std::move(narrow_value); a = Variant<std::string>{};
  (void)d; (void)e; (void)g; (void)x;
}

struct Tracked2 {
  Tracked2() {}
  Tracked2(const Tracked2&) {}
  Tracked2(Tracked2&&) {}
  Tracked2& operator=(const Tracked2&) { return *this; }
  Tracked2& operator=(Tracked2&&) { return *this; }
  ~Tracked2() {}
};

// Arity 1: the terminal Union<Type> is the top-level storage.
void UseVariant1() {
  using V = Variant<Tracked>;
  V a; V b{Tracked{}}; V c{EmptyVariant{}}; V d{b}; V e{std::move(b)};
  a = d; a = std::move(e); a = Tracked{}; const Tracked ct; a = ct; a = EmptyVariant{};
  a.Become(0); a.Become(1); a.Become(-1);
  (void)a.index(); (void)a.empty(); (void)a.is<Tracked>(); (void)a.get<Tracked>(); (void)a.get<0>();
  const V& ca = a; (void)ca.get<Tracked>(); (void)ca.get<0>();
  a.Visit([](auto&&) {});
  ca.Visit([](const auto&) {});
  (void)c;
}

// Arity 2 with a converting source type.
void UseVariant2() {
  using V = Variant<std::string, Tracked>;
  V a; V b{std::string{"x"}}; V c{Tracked{}}; V d{EmptyVariant{}}; V e{b}; V f{std::move(c)}; V g{"converted"};
  a = b; a = std::move(e); a = std::string{"y"}; a = Tracked{}; a = "converted"; a = EmptyVariant{};
  const std::string cs{"z"}; a = cs; const Tracked ct; a = ct;
  a.Become(0); a.Become(1); a.Become(2); a.Become(-1);
  (void)a.index(); (void)a.empty(); (void)a.get<std::string>(); (void)a.get<Tracked>(); (void)a.get<0>(); (void)a.get<1>();
  const V& ca = a; (void)ca.get<std::string>(); (void)ca.get<1>();
  a.Visit([](auto&&) {});
  ca.Visit([](const auto&) {});
  (void)d; (void)f; (void)g;
}

// Arity 4: the converting source lands on the last alternative, and a smaller Variant converts into it.
void UseVariant4() {
  using V = Variant<Tracked, std::vector<int>, Tracked2, std::string>;
  V a; V b{std::string{"x"}}; V c{std::vector<int>{1}}; V d{Tracked{}}; V d2{Tracked2{}}; V e{EmptyVariant{}}; V f{b}; V g{std::move(c)};
  V h{"converted"};
  Variant<std::string, Tracked2> small{std::string{"s"}}; Variant<std::string, Tracked2> small2{Tracked2{}};
  Variant<std::string, Tracked2> small0;
  V i{small}; V j{std::move(small2)}; V k{small0}; (void)k;
  a = b; a = std::move(f); a = std::string{"y"}; a = std::vector<int>{2}; a = Tracked{}; a = Tracked2{}; a = "converted"; a = EmptyVariant{};
  const std::string cs{"z"}; a = cs; const Tracked2 ct; a = ct;
  a.Become(0); a.Become(1); a.Become(2); a.Become(3); a.Become(4); a.Become(-1);
  (void)a.index(); (void)a.empty();
  (void)a.get<std::string>(); (void)a.get<std::vector<int>>(); (void)a.get<Tracked>(); (void)a.get<Tracked2>();
  (void)a.get<0>(); (void)a.get<1>(); (void)a.get<2>(); (void)a.get<3>();
  const V& ca = a; (void)ca.get<std::string>(); (void)ca.get<2>();
  a.Visit([](auto&&) {});
  ca.Visit([](const auto&) {});
  (void)d; (void)d2; (void)e; (void)g; (void)h; (void)i; (void)j;
}

void UseHandles() {
  using H = UniqueHandle<DefaultHandlePolicy<int, -1>>;
  H a; H b{3}; H c{std::move(b)}; a = std::move(c); (void)a.get(); (void)static_cast<bool>(a); (void)a.release(); a.close();
  Handle<DefaultHandlePolicy<int, -1>> p{1}; Handle<DefaultHandlePolicy<int, -1>> q{p}; p = q;
  UniqueFileHandle u; UniqueFileHandle w{std::move(u)}; u = std::move(w); FileHandle fh{u.get()}; (void)fh; u.close(); (void)u.release();
}

struct Tab { Entry<std::string, 1> a; Entry<int, 2, DeletedEntry> b; Entry<int, 3> c; NOP_TABLE(Tab, a, b, c); };
void UseEntry() {
  Tab t; t.a = std::string{"s"}; t.c = 3; (void)t.a.empty(); t.a.clear(); (void)t.b.empty(); t.b.clear(); (void)static_cast<bool>(t.b);
  Entry<std::string, 1> x{std::string{"k"}}; Entry<std::string, 1> y{x}; y = x; y = std::move(x);
  // comparisons with operands of a type DERIVED from Optional (overload resolution must still pick the Optional/Optional forms)
  Entry<int, 1> e1, e2{3};
  Optional<int> o{2};
  bool r = (e1 == e2) | (e1 != e2) | (e1 < e2) | (e1 > e2) | (e1 <= e2) | (e1 >= e2) |
           (o == e1) | (o != e1) | (o < e1) | (o > e1) | (o <= e1) | (o >= e1) |
           (e1 == o) | (e1 != o) | (e1 < o) | (e1 > o) | (e1 <= o) | (e1 >= o) |
           (e1 == 3) | (3 == e1) | (e1 < 3) | (3 < e1) | (e1 > 3) | (3 > e1) | (e1 <= 3) | (3 <= e1) | (e1 >= 3) | (3 >= e1) | (e1 != 3) | (3 != e1);
  (void)r;
}

struct Cmp { int v; bool operator==(const Cmp& o) const { return v == o.v; } bool operator<(const Cmp& o) const { return v < o.v; } Cmp() = default; Cmp(int x) : v{x} {} };

// Copies from NON-const lvalues: overload resolution must select the copy constructor / copy assignment, not a converting or
// forwarding template (rule CH reads the resolved callee of each of these constructions).
// Exception specifications: an element whose move CONSTRUCTOR cannot throw but whose move ASSIGNMENT can; the conditional noexcept
// clauses of Optional / Result are evaluated for it and rule NX follows their bodies into these operations.
struct MoveAssignThrows {
  MoveAssignThrows() {}
  MoveAssignThrows(const MoveAssignThrows&) {}
  MoveAssignThrows(MoveAssignThrows&&) noexcept {}
  MoveAssignThrows& operator=(const MoveAssignThrows&) { return *this; }
  MoveAssignThrows& operator=(MoveAssignThrows&&) noexcept(false) { return *this; }
  ~MoveAssignThrows() {}
};
void UseExceptionSpecs() {
  Optional<MoveAssignThrows> a{MoveAssignThrows{}}, b{MoveAssignThrows{}};
  a = std::move(b);
  Optional<MoveAssignThrows> c{std::move(a)};
  c = MoveAssignThrows{};
  (void)c.take();
  Result<Err, MoveAssignThrows> r{MoveAssignThrows{}}, q;
  q = std::move(r);
  Variant<int, MoveAssignThrows> v{MoveAssignThrows{}}, w;
  w = std::move(v);
  Variant<int, MoveAssignThrows> x{std::move(w)};
  (void)x;
}

// Mixed trivially / non-trivially destructible alternatives (the destruction walk must not depend on its neighbours), and
// mutually convertible scalar alternatives (copy / move must keep the alternative the source holds).
// an alternative that is itself a UNION type with a user-provided destructor (std::is_class is false for it)
union UAlt {
  UAlt() {}
  UAlt(const UAlt&) {}
  UAlt(UAlt&&) {}
  UAlt& operator=(const UAlt&) { return *this; }
  UAlt& operator=(UAlt&&) { return *this; }
  ~UAlt() {}
  int i;
  float f;
};
void UseVariantUnionAlt() {
  using V = Variant<int, UAlt>;
  V a; V b{1}; V c{UAlt{}}; V d{c}; V e{std::move(c)}; V f{EmptyVariant{}};
  a = b; a = d; a = std::move(e); a = 2; a = UAlt{}; a = EmptyVariant{};
  const UAlt cu; a = cu;
  a.Become(0); a.Become(1); a.Become(2); a.Become(-1);
  (void)a.index(); (void)a.empty(); (void)a.get<int>(); (void)a.get<UAlt>();
  a.Visit([](auto&&) {});
  (void)f;
}
void UseVariantMixed() {
  using V = Variant<int, Tracked, bool>;
  V a; V b{1}; V c{Tracked{}}; V d{true}; V e{EmptyVariant{}}; V f{c}; V g{std::move(c)};
  a = b; a = f; a = std::move(g); a = 2; a = Tracked{}; a = false; a = EmptyVariant{};
  const Tracked ct; a = ct;
  a.Become(0); a.Become(1); a.Become(2); a.Become(3); a.Become(-1);
  (void)a.index(); (void)a.empty(); (void)a.get<int>(); (void)a.get<Tracked>(); (void)a.get<bool>();
  a.Visit([](auto&&) {});
  (void)d; (void)e;
}
void UseVariantConvertible() {
  using V = Variant<int, bool, float>;
  V a; V b{1}; V c{true}; V d{2.5f}; V e{EmptyVariant{}}; V f{d}; V g{std::move(d)};
  a = b; a = f; a = std::move(g); a = 3; a = false; a = 1.5f; a = EmptyVariant{};
  a.Become(0); a.Become(1); a.Become(2); a.Become(3); a.Become(-1);
  (void)a.index(); (void)a.empty(); (void)a.get<int>(); (void)a.get<bool>(); (void)a.get<float>();
  a.Visit([](auto&&) {});
  (void)c; (void)e;
}

// A Variant whose alternative is itself a Variant: assigning a value of the inner type must store the inner Variant (rule AE reads
// which overload each of these assignments, and the ones forwarded from the move assignment's visitor, resolve to).
void UseNestedVariant() {
  using Inner = Variant<int, std::string>;
  using Outer = Variant<Inner, int>;
  const Inner cin{6};
  Outer a{Inner{5}}; Outer b{cin}; Outer d; d = Inner{5}; d = cin; d = 7; Outer f{7}; f = Outer{Inner{5}};
  (void)a.index(); (void)b.index(); (void)d.get<Inner>(); (void)f.get<int>();
  d.Visit([](auto&&) {});
}

// an element type with a greedy implicit converting constructor (the std::any style): constructible from ANYTHING, including the
// Optional / Entry that holds it - copies and assignments of the wrapper must still be copies
struct Greedy {
  Greedy() {}
  Greedy(const Greedy&) {}
  Greedy(Greedy&&) {}
  Greedy& operator=(const Greedy&) { return *this; }
  Greedy& operator=(Greedy&&) { return *this; }
  template <typename T> Greedy(T&&) {}
  ~Greedy() {}
};
void UseLvalueCopies() {
  Optional<Greedy> ga, gb; Optional<Greedy> gc{ga}; ga = gb; ga = std::move(gc);
  Entry<Greedy, 1> gea, geb; Entry<Greedy, 1> ec{gea}; gea = geb; ga = gea;
  Optional<std::string> ya, yb; ya = yb; ya = std::move(yb);     // (Optional<bool> lvalue assignment: witnesses/c13_moves.cpp)
  (void)ec;
  Optional<bool> ob; Optional<bool> ob2{ob}; Optional<bool> ob3 = ob; (void)ob2; (void)ob3;
  Optional<int> oi; Optional<int> oi2{oi}; (void)oi2;
  Optional<std::string> os; Optional<std::string> os2{os}; (void)os2;
  Optional<Optional<bool>> oob; Optional<Optional<bool>> oob2{oob}; (void)oob2;
  Result<Err, bool> rb; Result<Err, bool> rb2{rb}; (void)rb2;
  Result<Err, std::string> rs; Result<Err, std::string> rs2{rs}; (void)rs2;
  Variant<bool, int> vb; Variant<bool, int> vb2{vb}; (void)vb2;
  Variant<int, std::string> vs; Variant<int, std::string> vs2{vs}; (void)vs2;
  Entry<bool, 1> eb; Entry<bool, 1> eb2{eb}; Optional<bool> sliced{eb}; (void)eb2; (void)sliced;
  Entry<std::string, 1> es; Entry<std::string, 1> es2{es}; (void)es2;
}

void All() {
  UseLvalueCopies();
  UseExceptionSpecs();
  UseVariantMixed();
  UseVariantUnionAlt();
  UseVariantConvertible();
  UseNestedVariant();
  UseOptional<std::string, const char*>(std::string{"a"}, "b");
  UseOptional<int, short>(1, short{2});
  UseOptional<Cmp, int>(Cmp{1}, 2);
  UseResult<std::string>(std::string{"a"});
  UseResult<int>(1);
  UseResultE<Err2, std::string>(std::string{"a"});
  UseResultVoid(); UseVariant(); UseVariant3(); UseVariant1(); UseVariant2(); UseVariant4(); UseHandles(); UseEntry();
}

// Every non-template member of the recursive union, whether or not Variant currently routes through it: coverage of
// detail::Union must not depend on which helpers the public wrappers happen to call.
template union nop::detail::Union<int>;
template union nop::detail::Union<std::string>;
template union nop::detail::Union<int, std::string>;
template union nop::detail::Union<int, std::string, std::vector<int>>;
