// Probe: every supported value type through every library reader/writer.
#include "common.h"

using namespace nop;
using namespace probe;

namespace {

template <typename... Ts>
struct TypeList {};

// Types every transport supports (no Skip, no handles, constexpr-capable or not).
using Scalars =
    TypeList<bool, char, std::uint8_t, std::int8_t, std::uint16_t, std::int16_t,
             std::uint32_t, std::int32_t, std::uint64_t, std::int64_t,
             std::size_t, int, EnumU8, EnumI32, EnumPlain>;
using Floats = TypeList<float, double, std::tuple<int, std::string, double>,
                        std::vector<float>, std::array<double, 2>, External,
                        std::pair<int, float>, Variant<float, bool, double>, Optional<double>, std::map<int, float>,
                        LBufC<float, 4, std::size_t>, LBufA<double, 2, std::uint8_t>>;
using Containers = TypeList<
    std::string, std::u16string, std::u32string, std::wstring,
    std::vector<std::uint8_t>, std::vector<std::int32_t>,
    std::vector<std::int64_t>, std::vector<std::string>, std::vector<Inner>,
    std::array<std::uint8_t, 4>, std::array<std::int32_t, 3>, std::array<std::int32_t, 0>, std::array<bool, 3>,
    std::array<std::string, 0>,
    std::array<std::string, 2>, std::array<Inner, 2>,
    std::map<int, std::string>, std::map<std::string, std::vector<int>>,
    std::unordered_map<int, std::string>,
    std::unordered_map<std::string, std::vector<int>>,
    std::pair<int, std::string>, std::tuple<>, std::tuple<int>,
    std::tuple<int, std::string, EnumU8>, Optional<int>, Optional<std::string>,
    Optional<NonTrivial>, Result<ErrorEnum, int>, Result<ErrorEnum, std::string>,
    Result<ErrorU8, int>, Result<ErrorU64, std::vector<int>>,
    Optional<Optional<int>>, std::vector<Optional<std::string>>, std::map<std::string, Optional<int>>,
    Result<ErrorEnum, Result<ErrorU8, int>>, Result<ErrorEnum, Optional<int>>, Variant<Optional<int>, std::vector<std::string>>, std::vector<Variant<int, std::string>>,
    std::array<std::uint16_t, 0>, std::tuple<std::vector<std::uint8_t>, std::array<Inner, 0>>,
    std::vector<std::vector<std::int32_t>>, std::vector<std::uint16_t>, std::vector<char>, std::vector<EnumU8>,
    std::array<std::int64_t, 1>, std::array<char, 5>, std::array<EnumI32, 2>, std::map<EnumU8, std::vector<std::string>>,
    std::pair<std::vector<std::uint8_t>, std::pair<int, std::int16_t>>, std::tuple<bool, char, std::int8_t, std::uint64_t>,
    Optional<std::vector<std::uint8_t>>, Variant<bool, std::uint64_t, std::array<std::int16_t, 2>>,
    std::map<int, Variant<int, std::string>>, Result<ErrorEnum, std::vector<Inner>>,
    Variant<int, std::string, std::vector<int>>, Variant<int>,
    Variant<std::string, Inner>, Inner, Outer, Empty,
    Pairish<int, std::string>, LBufC<std::uint8_t, 8, std::uint8_t>,
    LBufC<std::int32_t, 8, std::uint16_t>, LBufC<std::string, 4, std::uint32_t>,
    LBufA<std::uint8_t, 8, std::uint64_t>, LBufA<std::int32_t, 8, int>,
    LBufA<std::string, 4, std::size_t>, LBufC<std::uint32_t, 100, std::uint8_t>,
    Wrap<int>, Wrap<std::string>, WrapBuf<int, 4>, WrapBuf<std::string, 2>,
    NonTrivial>;
using Tables = TypeList<TableV1, TableV2, TableV3, TableNamed, TableZero, TableOpt, TableWide,
                        HoldsTable, std::vector<TableV2>, Optional<TableV1>>;

template <typename W, typename... Ts>
void WriteAll(W* w, TypeList<Ts...>) {
  int dummy[] = {0, (WriteWith<Ts>(w, Ts{}), 0)...};
  (void)dummy;
}
template <typename R, typename... Ts>
void ReadAll(R* r, TypeList<Ts...>) {
  int dummy[] = {0, ([&] {
                   Ts v{};
                   ReadWith<Ts>(r, &v);
                 }(),
                 0)...};
  (void)dummy;
}

template <typename W>
void WriterFull(W* w) {
  WriteAll(w, Scalars{});
  WriteAll(w, Floats{});
  WriteAll(w, Containers{});
  WriteAll(w, Tables{});
  int carr[3] = {1, 2, 3};
  std::string sarr[2];
  std::uint8_t barr[5] = {};
  WriteWith(w, carr);
  WriteWith(w, sarr);
  WriteWith(w, barr);
  int x = 0;
  WriteWith(w, std::ref(x));
  Unbounded<int>* ub = nullptr;
  Unbounded<External>* us = nullptr;
  UnboundedSmall<int>* usi = nullptr;
  UnboundedSmall<External>* use = nullptr;
  WriteWith(w, *ub);
  WriteWith(w, *us);
  WriteWith(w, *usi);
  WriteWith(w, *use);
  BoundedWriter<W> bounded{w, 16};
  WriteAll(&bounded, Scalars{});
  WriteAll(&bounded, Containers{});
  WriteAll(&bounded, Tables{});
  (void)bounded.WritePadding();
  (void)bounded.Skip(1, 0x5a);
  (void)bounded.size();
  (void)bounded.capacity();
}

template <typename R>
void ReaderFull(R* r) {
  ReadAll(r, Scalars{});
  ReadAll(r, Floats{});
  ReadAll(r, Containers{});
  ReadAll(r, Tables{});
  int carr[3];
  std::string sarr[2];
  std::uint8_t barr[5];
  ReadWith(r, &carr);
  ReadWith(r, &sarr);
  ReadWith(r, &barr);
  int x = 0;
  auto ref = std::ref(x);
  ReadWith(r, &ref);
  Unbounded<int>* ub = nullptr;
  Unbounded<External>* us = nullptr;
  UnboundedSmall<int>* usi = nullptr;
  UnboundedSmall<External>* use = nullptr;
  UnboundedSigned<int>* ugi = nullptr;
  UnboundedSigned<External>* uge = nullptr;
  ReadWith(r, ugi);
  ReadWith(r, uge);
  ReadWith(r, ub);
  ReadWith(r, us);
  ReadWith(r, usi);
  ReadWith(r, use);
  BoundedReader<R> bounded{r, 16};
  ReadAll(&bounded, Scalars{});
  ReadAll(&bounded, Containers{});
  ReadAll(&bounded, Tables{});
  (void)bounded.ReadPadding();
  (void)bounded.Skip(1);
  (void)bounded.empty();
  (void)bounded.size();
  (void)bounded.capacity();
}

}  // namespace

void ProbeTransports() {
  std::uint8_t buffer[64] = {};

  BufferWriter bw{buffer, sizeof(buffer)};
  WriterFull(&bw);
  PedanticBufferWriter pw{buffer, sizeof(buffer)};
  WriterFull(&pw);
  StreamWriter<std::stringstream> sw;
  WriterFull(&sw);
  // arrays of arrays: the element type of the outer array is an array, hence NOT integral (ARY of BIN, never one flat BIN).
  // Only through the stream classes here, whose block transfers take any pointer: this must compile whatever the encoder selects.
  std::int16_t marr[2][3] = {};
  std::array<std::int16_t[3], 2> mstd = {};
  WriteWith(&sw, marr);
  WriteWith(&sw, mstd);
  (void)sw.stream();
  (void)sw.take();

  BufferReader br{buffer, sizeof(buffer)};
  ReaderFull(&br);
  (void)br.empty();
  (void)br.remaining();
  (void)br.capacity();
  PedanticBufferReader pr{buffer, sizeof(buffer)};
  ReaderFull(&pr);
  (void)pr.empty();
  (void)pr.remaining();
  (void)pr.capacity();
  StreamReader<std::stringstream> sr;
  ReaderFull(&sr);
  ReadWith(&sr, &marr);
  ReadWith(&sr, &mstd);
  (void)sr.stream();
  (void)sr.take();

  // fd transports have no Skip: everything except tables.
  FdWriter fw{1};
  WriteAll(&fw, Scalars{});
  WriteAll(&fw, Floats{});
  WriteAll(&fw, Containers{});
  FdWriter fw2{std::move(fw)};
  (void)fw2.Release();
  FdReader fr{0};
  ReadAll(&fr, Scalars{});
  ReadAll(&fr, Floats{});
  ReadAll(&fr, Containers{});
  FdReader fr2{std::move(fr)};
  (void)fr2.Release();

  // constexpr writer: no floating point.
  ConstexprBufferWriter cw{buffer, sizeof(buffer)};
  WriteAll(&cw, Scalars{});
  WriteAll(&cw, Containers{});
  WriteAll(&cw, Tables{});
  BoundedWriter<ConstexprBufferWriter> bcw{&cw, 8};
  WriteAll(&bcw, Scalars{});
  (void)cw.size();
  (void)cw.capacity();
  (void)bw.size();
  (void)bw.capacity();
  (void)pw.size();
  (void)pw.capacity();

  // Handles need an out-of-band channel.
  HandleWriter hw;
  WriteWith(&hw, IntHandle{});
  WriteWith(&hw, FileHandle{});
  WriteWith(&hw, TableHandle{});
  WriteWith(&hw, HoldsHandles{});
  BoundedWriter<HandleWriter> bhw{&hw, 8};
  WriteWith(&bhw, IntHandle{});
  HandleReader hr;
  {
    IntHandle a;
    FileHandle b;
    TableHandle d;
    HoldsHandles e;
    ReadWith(&hr, &a);
    ReadWith(&hr, &b);
    ReadWith(&hr, &d);
    ReadWith(&hr, &e);
    BoundedReader<HandleReader> bhr{&hr, 8};
    ReadWith(&bhr, &a);
  }

  // The three ownership forms of Serializer/Deserializer.
  {
    Serializer<BufferWriter> by_value{buffer, sizeof(buffer)};
    (void)by_value.Write(1);
    (void)by_value.GetSize(1);
    (void)by_value.writer();
    (void)by_value.take();
    Serializer<std::unique_ptr<BufferWriter>> by_unique{
        std::make_unique<BufferWriter>(buffer, sizeof(buffer))};
    (void)by_unique.Write(std::string{});
    (void)by_unique.GetSize(std::string{});
    (void)by_unique.writer();
    Serializer<BufferWriter*> by_pointer{&bw};
    (void)by_pointer.writer();
    Deserializer<BufferReader> dv{buffer, sizeof(buffer)};
    int i = 0;
    (void)dv.Read(&i);
    (void)dv.reader();
    (void)dv.take();
    Deserializer<std::unique_ptr<BufferReader>> du{
        std::make_unique<BufferReader>(buffer, sizeof(buffer))};
    std::string s;
    (void)du.Read(&s);
    (void)du.reader();
    Deserializer<BufferReader*> dp{&br};
    (void)dp.reader();
  }
}
