// Probe: HostEndian, SipHash, ThreadLocal, status messages.
#include <cstdint>
#include <string>

#include <nop/serializer.h>
#include <nop/status.h>
#include <nop/table.h>
#include <nop/types/thread_local.h>
#include <nop/utility/endian.h>
#include <nop/utility/sip_hash.h>
#include <nop/utility/bounded_reader.h>
#include <nop/utility/bounded_writer.h>
#include <nop/utility/buffer_reader.h>
#include <nop/utility/buffer_writer.h>
#include <nop/utility/constexpr_buffer_writer.h>
#include <nop/utility/pedantic_buffer_reader.h>
#include <nop/utility/pedantic_buffer_writer.h>

using namespace nop;

namespace {

template <typename T>
void UseEndian() {
  T v{};
  (void)HostEndian<T>::FromBig(v);
  (void)HostEndian<T>::ToBig(v);
  (void)HostEndian<T>::FromLittle(v);
  (void)HostEndian<T>::ToLittle(v);
}

struct Slotted {};

}  // namespace

void ProbeUtilities() {
  UseEndian<std::uint8_t>();
  UseEndian<std::int8_t>();
  UseEndian<std::uint16_t>();
  UseEndian<std::int16_t>();
  UseEndian<std::uint32_t>();
  UseEndian<std::int32_t>();
  UseEndian<std::uint64_t>();
  UseEndian<std::int64_t>();
  UseEndian<char>();
  UseEndian<float>();
  UseEndian<double>();

  const char name[] = "probe";
  const std::uint8_t bytes[11] = {};
  (void)SipHash::Compute(name, 1, 2);
  (void)SipHash::Compute(bytes, 3, 4);
  (void)SipHash::Compute(BlockReader<std::uint8_t>(bytes), 5, 6);
  // the generic overload accepts any container with size() and operator[]: plain-char containers must hash like bytes
  (void)SipHash::Compute(std::string{"na\xc3\xafve"}, 1, 2);
  (void)SipHash::Compute(std::vector<char>{'a', '\xff'}, 1, 2);
  (void)SipHash::Compute(std::array<signed char, 3>{{1, -1, 2}}, 1, 2);
  (void)SipHash::Compute(std::vector<std::uint8_t>{1, 255}, 1, 2);
  constexpr std::uint64_t kCompileTime = SipHash::Compute("abcdefghijklmnop", 7, 8);
  static_assert(kCompileTime != 0, "");

  // copy / move / assign every small value-like class (their special members are part of the contract: a moved
  // Deserializer copies its reader, SipHash takes readers by value)
  {
    std::uint8_t mem[8] = {};
    BufferReader br{mem, sizeof(mem)}; BufferReader br2{br}; br2 = br; BufferReader br3{std::move(br)}; br3 = std::move(br2);
    PedanticBufferReader pr{mem, sizeof(mem)}; PedanticBufferReader pr2{pr}; pr2 = pr; PedanticBufferReader pr3{std::move(pr)}; pr3 = std::move(pr2);
    BufferWriter bw{mem, sizeof(mem)}; BufferWriter bw2{bw}; bw2 = bw; BufferWriter bw3{std::move(bw)}; bw3 = std::move(bw2);
    PedanticBufferWriter pw{mem, sizeof(mem)}; PedanticBufferWriter pw2{pw}; pw2 = pw; PedanticBufferWriter pw3{std::move(pw)}; pw3 = std::move(pw2);
    ConstexprBufferWriter cw{mem, sizeof(mem)}; ConstexprBufferWriter cw2{cw}; cw2 = cw; ConstexprBufferWriter cw3{std::move(cw)}; cw3 = std::move(cw2);
    BoundedReader<BufferReader> r1{&br3, 4}; BoundedReader<BufferReader> r2{r1}; r2 = r1; BoundedReader<BufferReader> r3{std::move(r1)}; r3 = std::move(r2);
    BoundedWriter<BufferWriter> w1{&bw3, 4}; BoundedWriter<BufferWriter> w2{w1}; w2 = w1; BoundedWriter<BufferWriter> w3{std::move(w1)}; w3 = std::move(w2);
    BlockReader<char> k1{name}; BlockReader<char> k2{k1}; k2 = k1; BlockReader<char> k3{std::move(k1)}; k3 = std::move(k2);
    (void)pr3; (void)pw3; (void)cw3; (void)r3; (void)w3; (void)k3;
  }
  // a value type whose move cannot throw but whose construction from the caller's arguments can (rule NX on ThreadLocal)
  struct ThrowingInit { ThrowingInit(int) {} ThrowingInit(ThrowingInit&&) noexcept {} ThrowingInit& operator=(ThrowingInit&&) noexcept { return *this; } };
  ThreadLocal<ThrowingInit, ThreadLocalSlot<Slotted, 7>> ti{1};
  ti.Initialize(2); (void)ti.Get(); ti.Clear();
  // initialisers passed as NON-const lvalues: the slot is initialised from a copy, the caller's object is left alone
  std::string shared_default{"d"};
  ThreadLocal<std::string, ThreadLocalSlot<Slotted, 8>> tl8{shared_default};
  tl8.Initialize(shared_default); (void)tl8.Get(); tl8.Clear();
  ThreadLocal<int> a{1};
  ThreadLocal<std::string, ThreadLocalTypeSlot<Slotted>> b{"x"};
  ThreadLocal<int, ThreadLocalIndexSlot<3>> c;
  ThreadLocal<int, ThreadLocalSlot<Slotted, 1>> d{4};
  // a slot whose value type is itself an Optional: its first initialiser may be an empty Optional and must still win
  ThreadLocal<Optional<int>, ThreadLocalSlot<Slotted, 2>> e{Optional<int>{}};
  e.Initialize(Optional<int>{5}); (void)e.Get(); e.Clear();
  a.Initialize(2);
  (void)a.Get();
  a.Clear();
  b.Initialize("y");
  (void)b.Get();
  b.Clear();
  c.Initialize();
  (void)c.Get();
  c.Clear();
  (void)d.Get();

  Status<void> s;
  Status<int> si{1};
  (void)s.GetErrorMessage();
  (void)si.GetErrorMessage();
}
