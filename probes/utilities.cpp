// Probe: HostEndian, SipHash, ThreadLocal, status messages.
#include <cstdint>
#include <string>

#include <nop/serializer.h>
#include <nop/status.h>
#include <nop/table.h>
#include <nop/types/thread_local.h>
#include <nop/utility/endian.h>
#include <nop/utility/sip_hash.h>

using namespace nop;

namespace {

template <typename T>
void UseEndian() {
  T v{};
  (void)HostEndian<T>::FromBig(v);
  (void)HostEndian<T>::ToBig(v);
  (void)HostEndian<T>::FromLittle(v);
  (void)HostEndian<T>::ToLittle(v);
}

struct Slotted {};

}  // namespace

void ProbeUtilities() {
  UseEndian<std::uint8_t>();
  UseEndian<std::int8_t>();
  UseEndian<std::uint16_t>();
  UseEndian<std::int16_t>();
  UseEndian<std::uint32_t>();
  UseEndian<std::int32_t>();
  UseEndian<std::uint64_t>();
  UseEndian<std::int64_t>();
  UseEndian<char>();
  UseEndian<float>();
  UseEndian<double>();

  const char name[] = "probe";
  const std::uint8_t bytes[11] = {};
  (void)SipHash::Compute(name, 1, 2);
  (void)SipHash::Compute(bytes, 3, 4);
  (void)SipHash::Compute(BlockReader<std::uint8_t>(bytes), 5, 6);
  // the generic overload accepts any container with size() and operator[]: plain-char containers must hash like bytes
  (void)SipHash::Compute(std::string{"na\xc3\xafve"}, 1, 2);
  (void)SipHash::Compute(std::vector<char>{'a', '\xff'}, 1, 2);
  (void)SipHash::Compute(std::array<signed char, 3>{{1, -1, 2}}, 1, 2);
  (void)SipHash::Compute(std::vector<std::uint8_t>{1, 255}, 1, 2);
  constexpr std::uint64_t kCompileTime = SipHash::Compute("abcdefghijklmnop", 7, 8);
  static_assert(kCompileTime != 0, "");

  ThreadLocal<int> a{1};
  ThreadLocal<std::string, ThreadLocalTypeSlot<Slotted>> b{"x"};
  ThreadLocal<int, ThreadLocalIndexSlot<3>> c;
  ThreadLocal<int, ThreadLocalSlot<Slotted, 1>> d{4};
  a.Initialize(2);
  (void)a.Get();
  a.Clear();
  b.Initialize("y");
  (void)b.Get();
  b.Clear();
  c.Initialize();
  (void)c.Get();
  c.Clear();
  (void)d.Get();

  Status<void> s;
  Status<int> si{1};
  (void)s.GetErrorMessage();
  (void)si.GetErrorMessage();
}
