// nopx: fact extractor for libnop static analysis (prototype).
// Emits, per translation unit, a JSON document with a structured IR of every
// function instance whose definition is spelled under the given root(s).
#include "clang/AST/ASTConsumer.h"
#include "clang/AST/ASTContext.h"
#include "clang/AST/DeclCXX.h"
#include "clang/AST/DeclTemplate.h"
#include "clang/AST/ExprCXX.h"
#include "clang/AST/RecursiveASTVisitor.h"
#include "clang/AST/StmtCXX.h"
#include "clang/Frontend/CompilerInstance.h"
#include "clang/Frontend/FrontendAction.h"
#include "clang/Tooling/CommonOptionsParser.h"
#include "clang/Tooling/Tooling.h"
#include "llvm/Support/CommandLine.h"
#include "llvm/Support/JSON.h"
#include <deque>
#include <map>
#include <set>

using namespace clang;
using namespace clang::tooling;
namespace json = llvm::json;

static llvm::cl::OptionCategory Cat("nopx");
static llvm::cl::list<std::string> Roots("root", llvm::cl::desc("path substring selecting analysed sources"), llvm::cl::cat(Cat));
static llvm::cl::opt<std::string> OutFile("o", llvm::cl::desc("output file"), llvm::cl::init("-"), llvm::cl::cat(Cat));

namespace {

class Emitter {
 public:
  explicit Emitter(ASTContext& C) : Ctx(C), SM(C.getSourceManager()), PP(C.getPrintingPolicy()) {
    PP.SuppressTagKeyword = true;
    PP.FullyQualifiedName = true;
    PP.PrintCanonicalTypes = true;
  }

  bool inRoots(SourceLocation L) {
    if (L.isInvalid()) return false;
    StringRef f = SM.getFilename(SM.getExpansionLoc(L));
    for (auto& r : Roots)
      if (f.contains(r)) return true;
    return false;
  }

  std::string typeStr(QualType T) {
    if (T.isNull()) return "";
    return T.getAsString(PP);
  }

  json::Value loc(SourceLocation L) {
    if (L.isInvalid()) return nullptr;
    SourceLocation E = SM.getExpansionLoc(L);
    std::string f = SM.getFilename(E).str();
    return json::Object{{"f", fileId(f)}, {"l", (int64_t)SM.getExpansionLineNumber(E)}, {"c", (int64_t)SM.getExpansionColumnNumber(E)}};
  }

  int64_t fileId(const std::string& f) {
    auto it = FileIds.find(f);
    if (it != FileIds.end()) return it->second;
    int64_t id = Files.size();
    FileIds[f] = id;
    Files.push_back(f);
    return id;
  }

  std::string qname(const NamedDecl* D) {
    std::string s;
    llvm::raw_string_ostream os(s);
    D->getNameForDiagnostic(os, PP, true);
    return os.str();
  }

  int64_t funcId(const FunctionDecl* F) {
    const FunctionDecl* C = F->getCanonicalDecl();
    auto it = FuncIds.find(C);
    if (it != FuncIds.end()) return it->second;
    int64_t id = FuncIds.size();
    FuncIds[C] = id;
    return id;
  }

  int64_t declId(const Decl* D) {
    const Decl* C = D->getCanonicalDecl();
    auto it = DeclIds.find(C);
    if (it != DeclIds.end()) return it->second;
    int64_t id = DeclIds.size();
    DeclIds[C] = id;
    return id;
  }

  // The pattern (as written) a function instance was instantiated from.
  const FunctionDecl* patternOf(const FunctionDecl* F) {
    if (const FunctionDecl* P = F->getTemplateInstantiationPattern()) return P;
    return F;
  }

  // exception specification as written / computed: "yes" (cannot throw), "no" (may throw), "?" (not evaluated yet)
  static const char* nothrowOf(const FunctionDecl* D) {
    const auto* FPT = D->getType()->getAs<FunctionProtoType>();
    if (!FPT) return "?";
    switch (FPT->getExceptionSpecType()) {
      case EST_BasicNoexcept: case EST_NoexceptTrue: case EST_DynamicNone: case EST_NoThrow: return "yes";
      case EST_None: case EST_NoexceptFalse: case EST_Dynamic: case EST_MSAny: return "no";
      default: return "?";
    }
  }
  static bool explicitNoexcept(const FunctionDecl* D) {
    const auto* FPT = D->getType()->getAs<FunctionProtoType>();
    if (!FPT) return false;
    auto t = FPT->getExceptionSpecType();
    return (t == EST_BasicNoexcept || t == EST_NoexceptTrue) && !D->isImplicit() && !isa<CXXDestructorDecl>(D);
  }

  json::Value calleeInfo(const FunctionDecl* D) {
    json::Object o;
    o["nx"] = nothrowOf(D);
    o["q"] = qname(D);
    o["n"] = D->getDeclName().getAsString();
    if (auto* M = dyn_cast<CXXMethodDecl>(D)) {
      o["rec"] = qname(M->getParent());
      if (auto* S = dyn_cast<ClassTemplateSpecializationDecl>(M->getParent()))
        o["rect"] = S->getSpecializedTemplate()->getQualifiedNameAsString();
      else
        o["rect"] = M->getParent()->getQualifiedNameAsString();
      o["static"] = M->isStatic();
      if (M->isCopyAssignmentOperator()) o["copyassign"] = true;
      if (M->isMoveAssignmentOperator()) o["moveassign"] = true;
    }
    const FunctionDecl* P = patternOf(D);
    const FunctionDecl* Def = nullptr;
    if (P->hasBody(Def)) P = Def;
    o["pat"] = loc(P->getLocation());
    o["nop"] = inRoots(P->getLocation());
    o["ret"] = typeStr(D->getReturnType());
    if (inRoots(P->getLocation())) {
      o["fid"] = funcId(D);
      Work.push_back(D);
    }
    if (D->getBuiltinID()) o["builtin"] = true;
    return std::move(o);
  }

  void addConst(json::Object& o, const Expr* E) {
    if (E->isValueDependent() || E->isTypeDependent()) return;
    QualType T = E->getType();
    if (T.isNull() || !(T->isIntegralOrEnumerationType())) return;
    Expr::EvalResult R;
    if (E->EvaluateAsInt(R, Ctx, Expr::SE_NoSideEffects)) {
      llvm::SmallString<32> s;
      R.Val.getInt().toString(s, 10);
      o["cv"] = std::string(s.str());
    }
  }

  json::Value expr(const Expr* E) {
    if (!E) return nullptr;
    // Transparent wrappers.
    if (auto* X = dyn_cast<ParenExpr>(E)) return expr(X->getSubExpr());
    if (auto* X = dyn_cast<ExprWithCleanups>(E)) return expr(X->getSubExpr());
    if (auto* X = dyn_cast<MaterializeTemporaryExpr>(E)) return expr(X->getSubExpr());
    if (auto* X = dyn_cast<CXXBindTemporaryExpr>(E)) return expr(X->getSubExpr());
    if (auto* X = dyn_cast<ConstantExpr>(E)) return expr(X->getSubExpr());
    if (auto* X = dyn_cast<SubstNonTypeTemplateParmExpr>(E)) return expr(X->getReplacement());
    if (auto* X = dyn_cast<CXXDefaultArgExpr>(E)) return expr(X->getExpr());
    if (auto* X = dyn_cast<CXXDefaultInitExpr>(E)) return expr(X->getExpr());
    if (auto* X = dyn_cast<CXXStdInitializerListExpr>(E)) return expr(X->getSubExpr());

    json::Object o;
    if (auto* X = dyn_cast<CastExpr>(E)) {
      CastKind K = X->getCastKind();
      bool implicit = isa<ImplicitCastExpr>(X);
      if (implicit && (K == CK_LValueToRValue || K == CK_NoOp || K == CK_FunctionToPointerDecay ||
                       K == CK_BuiltinFnToFnPtr))
        return expr(X->getSubExpr());
      o["k"] = implicit ? "icast" : "cast";
      o["ck"] = CastExpr::getCastKindName(K);
      o["from"] = typeStr(X->getSubExpr()->getType());
      o["to"] = typeStr(X->getType());
      o["e"] = expr(X->getSubExpr());
      addConst(o, E);
      return std::move(o);
    }
    if (auto* X = dyn_cast<DeclRefExpr>(E)) {
      const ValueDecl* D = X->getDecl();
      o["k"] = "ref";
      o["n"] = D->getNameAsString();
      if (isa<ParmVarDecl>(D)) { o["dk"] = "param"; o["id"] = declId(D); }
      else if (auto* V = dyn_cast<VarDecl>(D)) {
        o["dk"] = V->isLocalVarDecl() ? "local" : "var";
        o["id"] = declId(D);
        if (!V->isLocalVarDecl()) o["q"] = qname(V);
      } else if (isa<EnumConstantDecl>(D)) { o["dk"] = "enum"; o["q"] = qname(D); }
      else if (auto* F = dyn_cast<FunctionDecl>(D)) { o["dk"] = "func"; o["callee"] = calleeInfo(F); }
      else if (isa<FieldDecl>(D)) { o["dk"] = "field"; }
      else o["dk"] = "other";
      o["t"] = typeStr(X->getType());
      addConst(o, E);
      return std::move(o);
    }
    if (auto* X = dyn_cast<MemberExpr>(E)) {
      o["k"] = "mem";
      o["n"] = X->getMemberDecl()->getNameAsString();
      o["arrow"] = X->isArrow();
      o["b"] = expr(X->getBase());
      o["t"] = typeStr(X->getType());
      if (auto* F = dyn_cast<FieldDecl>(X->getMemberDecl())) {
        o["rec"] = qname(F->getParent());
        o["fidx"] = (int64_t)F->getFieldIndex();
      }
      addConst(o, E);
      return std::move(o);
    }
    if (isa<CXXThisExpr>(E)) {
      o["k"] = "this";
      o["t"] = typeStr(E->getType());
      return std::move(o);
    }
    if (auto* X = dyn_cast<CXXPseudoDestructorExpr>(E)) {
      o["k"] = "pdtor";
      o["b"] = expr(X->getBase());
      o["t"] = typeStr(X->getDestroyedType());
      return std::move(o);
    }
    if (auto* X = dyn_cast<CallExpr>(E)) {
      o["k"] = "call";
      o["t"] = typeStr(X->getType());
      o["loc"] = loc(X->getExprLoc());
      const FunctionDecl* D = X->getDirectCallee();
      if (auto* MC = dyn_cast<CXXMemberCallExpr>(X)) {
        o["ck"] = "member";
        o["obj"] = expr(MC->getImplicitObjectArgument());
        if (auto* ME = dyn_cast<MemberExpr>(MC->getCallee()->IgnoreParens())) o["arrow"] = ME->isArrow();
        if (D && isa<CXXDestructorDecl>(D)) o["dtor"] = true;
      } else if (auto* OC = dyn_cast<CXXOperatorCallExpr>(X)) {
        o["ck"] = "op";
        o["op"] = getOperatorSpelling(OC->getOperator());
      } else if (isa<CXXPseudoDestructorExpr>(X->getCallee()->IgnoreParens())) {
        o["ck"] = "pdtor";
        o["fn"] = expr(X->getCallee());
      } else {
        o["ck"] = "free";
      }
      if (D) o["callee"] = calleeInfo(D);
      else if (!o.get("fn")) o["fn"] = expr(X->getCallee());
      json::Array args;
      for (const Expr* A : X->arguments()) args.push_back(expr(A));
      o["args"] = std::move(args);
      addConst(o, E);
      return std::move(o);
    }
    if (auto* X = dyn_cast<CXXConstructExpr>(E)) {
      o["k"] = "ctor";
      o["t"] = typeStr(X->getType());
      o["loc"] = loc(X->getExprLoc());
      o["callee"] = calleeInfo(X->getConstructor());
      if (X->isElidable()) o["elide"] = true;
      if (X->getConstructor()->isCopyOrMoveConstructor()) o["copymove"] = true;
      json::Array args;
      for (const Expr* A : X->arguments()) args.push_back(expr(A));
      o["args"] = std::move(args);
      return std::move(o);
    }
    if (auto* X = dyn_cast<CXXNewExpr>(E)) {
      o["k"] = "new";
      o["t"] = typeStr(X->getAllocatedType());
      o["loc"] = loc(X->getExprLoc());
      json::Array pl;
      for (unsigned i = 0; i < X->getNumPlacementArgs(); i++) pl.push_back(expr(X->getPlacementArg(i)));
      o["place"] = std::move(pl);
      if (X->getInitializer()) o["init"] = expr(X->getInitializer());
      if (X->isArray()) o["array"] = true;
      return std::move(o);
    }
    if (auto* X = dyn_cast<CXXDeleteExpr>(E)) {
      o["k"] = "delete";
      o["e"] = expr(X->getArgument());
      return std::move(o);
    }
    if (auto* X = dyn_cast<UnaryOperator>(E)) {
      o["k"] = "un";
      o["op"] = UnaryOperator::getOpcodeStr(X->getOpcode()).str();
      if (X->isPostfix()) o["post"] = true;
      o["e"] = expr(X->getSubExpr());
      o["t"] = typeStr(X->getType());
      addConst(o, E);
      return std::move(o);
    }
    if (auto* X = dyn_cast<BinaryOperator>(E)) {
      o["k"] = "bin";
      o["op"] = X->getOpcodeStr().str();
      o["l"] = expr(X->getLHS());
      o["r"] = expr(X->getRHS());
      o["t"] = typeStr(X->getType());
      o["loc"] = loc(X->getOperatorLoc());
      if (auto* CA = dyn_cast<CompoundAssignOperator>(X)) o["ct"] = typeStr(CA->getComputationResultType());
      addConst(o, E);
      return std::move(o);
    }
    if (auto* X = dyn_cast<ConditionalOperator>(E)) {
      o["k"] = "cond";
      o["c"] = expr(X->getCond());
      o["a"] = expr(X->getTrueExpr());
      o["b"] = expr(X->getFalseExpr());
      o["t"] = typeStr(X->getType());
      addConst(o, E);
      return std::move(o);
    }
    if (auto* X = dyn_cast<ArraySubscriptExpr>(E)) {
      o["k"] = "idx";
      o["b"] = expr(X->getBase());
      o["i"] = expr(X->getIdx());
      o["t"] = typeStr(X->getType());
      return std::move(o);
    }
    if (auto* X = dyn_cast<IntegerLiteral>(E)) {
      o["k"] = "int";
      llvm::SmallString<32> s;
      X->getValue().toString(s, 10, X->getType()->isSignedIntegerType());
      o["cv"] = std::string(s.str());
      o["t"] = typeStr(X->getType());
      return std::move(o);
    }
    if (auto* X = dyn_cast<CXXBoolLiteralExpr>(E)) {
      o["k"] = "bool";
      o["cv"] = X->getValue() ? "1" : "0";
      return std::move(o);
    }
    if (auto* X = dyn_cast<CharacterLiteral>(E)) {
      o["k"] = "int";
      o["cv"] = std::to_string(X->getValue());
      o["t"] = typeStr(X->getType());
      return std::move(o);
    }
    if (isa<FloatingLiteral>(E)) { o["k"] = "float"; return std::move(o); }
    if (auto* X = dyn_cast<StringLiteral>(E)) {
      o["k"] = "str";
      if (X->getCharByteWidth() == 1) o["v"] = X->getString().str();
      o["len"] = (int64_t)X->getLength();
      return std::move(o);
    }
    if (isa<CXXNullPtrLiteralExpr>(E) || isa<GNUNullExpr>(E)) { o["k"] = "null"; return std::move(o); }
    if (auto* X = dyn_cast<UnaryExprOrTypeTraitExpr>(E)) {
      o["k"] = "sizeof";
      o["of"] = X->isArgumentType() ? typeStr(X->getArgumentType()) : typeStr(X->getArgumentExpr()->getType());
      addConst(o, E);
      return std::move(o);
    }
    if (auto* X = dyn_cast<SizeOfPackExpr>(E)) {
      o["k"] = "int";
      o["cv"] = std::to_string(X->getPackLength());
      return std::move(o);
    }
    if (auto* X = dyn_cast<InitListExpr>(E)) {
      if (X->isSemanticForm() == false && X->getSemanticForm()) X = X->getSemanticForm();
      o["k"] = "ilist";
      o["t"] = typeStr(X->getType());
      json::Array el;
      for (const Expr* I : X->inits()) el.push_back(expr(I));
      o["el"] = std::move(el);
      if (X->getType()->isUnionType() && X->getInitializedFieldInUnion())
        o["ufield"] = X->getInitializedFieldInUnion()->getNameAsString();
      return std::move(o);
    }
    if (auto* X = dyn_cast<LambdaExpr>(E)) {
      o["k"] = "lambda";
      o["rec"] = qname(X->getLambdaClass());
      o["loc"] = loc(X->getBeginLoc());
      json::Array caps;
      for (const LambdaCapture& C : X->captures()) {
        json::Object c;
        if (C.capturesThis()) c["n"] = "this";
        else if (C.capturesVariable()) { c["n"] = C.getCapturedVar()->getNameAsString(); c["id"] = declId(C.getCapturedVar()); }
        c["byref"] = C.getCaptureKind() == LCK_ByRef;
        caps.push_back(std::move(c));
      }
      o["caps"] = std::move(caps);
      if (!X->getLambdaClass()->isGenericLambda()) {
        o["op"] = calleeInfo(X->getCallOperator());
      }
      return std::move(o);
    }
    if (isa<ImplicitValueInitExpr>(E) || isa<CXXScalarValueInitExpr>(E)) {
      o["k"] = "zero";
      o["t"] = typeStr(E->getType());
      return std::move(o);
    }
    if (auto* X = dyn_cast<CXXInheritedCtorInitExpr>(E)) {
      o["k"] = "inhctor";
      o["t"] = typeStr(X->getType());
      o["callee"] = calleeInfo(X->getConstructor());
      return std::move(o);
    }
    if (auto* X = dyn_cast<CXXThrowExpr>(E)) { o["k"] = "throw"; (void)X; return std::move(o); }
    if (auto* X = dyn_cast<OpaqueValueExpr>(E)) return expr(X->getSourceExpr());
    if (auto* X = dyn_cast<BinaryConditionalOperator>(E)) {
      o["k"] = "cond"; o["c"] = expr(X->getCommon()); o["a"] = expr(X->getCommon()); o["b"] = expr(X->getFalseExpr());
      return std::move(o);
    }
    o["k"] = "unknown";
    o["cls"] = E->getStmtClassName();
    o["loc"] = loc(E->getExprLoc());
    addConst(o, E);
    return std::move(o);
  }

  json::Value var(const VarDecl* V) {
    json::Object o;
    o["n"] = V->getNameAsString();
    o["id"] = declId(V);
    o["t"] = typeStr(V->getType());
    if (V->hasInit()) o["init"] = expr(V->getInit());
    if (V->isStaticLocal()) o["static"] = true;
    if (V->getTLSKind() != VarDecl::TLS_None) o["tls"] = true;
    if (V->isConstexpr()) o["constexpr"] = true;
    return std::move(o);
  }

  json::Value stmt(const Stmt* S) {
    if (!S) return nullptr;
    json::Object o;
    o["loc"] = loc(S->getBeginLoc());
    if (auto* X = dyn_cast<CompoundStmt>(S)) {
      o["k"] = "block";
      json::Array b;
      for (const Stmt* C : X->body()) b.push_back(stmt(C));
      o["body"] = std::move(b);
      return std::move(o);
    }
    if (auto* X = dyn_cast<DeclStmt>(S)) {
      o["k"] = "decl";
      json::Array vs;
      for (const Decl* D : X->decls()) {
        if (auto* V = dyn_cast<VarDecl>(D)) vs.push_back(var(V));
        else { json::Object d; d["other"] = D->getDeclKindName(); vs.push_back(std::move(d)); }
      }
      o["vars"] = std::move(vs);
      return std::move(o);
    }
    if (auto* X = dyn_cast<IfStmt>(S)) {
      o["k"] = "if";
      if (X->getInit()) o["init"] = stmt(X->getInit());
      o["cond"] = expr(X->getCond());
      o["then"] = stmt(X->getThen());
      if (X->getElse()) o["else"] = stmt(X->getElse());
      if (const DeclStmt* CV = X->getConditionVariableDeclStmt()) {
        // `if (T v = init) ...` is emitted as `{ T v = init; if (v) ... }` so every engine sees the declaration
        json::Object blk;
        blk["k"] = "block";
        blk["loc"] = loc(S->getBeginLoc());
        json::Array body;
        body.push_back(stmt(CV));
        body.push_back(std::move(o));
        blk["body"] = std::move(body);
        return std::move(blk);
      }
      return std::move(o);
    }
    if (auto* X = dyn_cast<ForStmt>(S)) {
      o["k"] = "for";
      if (X->getInit()) o["init"] = stmt(X->getInit());
      if (X->getCond()) o["cond"] = expr(X->getCond());
      if (X->getInc()) o["inc"] = expr(X->getInc());
      o["body"] = stmt(X->getBody());
      return std::move(o);
    }
    if (auto* X = dyn_cast<CXXForRangeStmt>(S)) {
      o["k"] = "rfor";
      o["var"] = var(X->getLoopVariable());
      o["range"] = expr(X->getRangeInit());
      o["body"] = stmt(X->getBody());
      return std::move(o);
    }
    if (auto* X = dyn_cast<WhileStmt>(S)) {
      o["k"] = "while";
      o["cond"] = expr(X->getCond());
      o["body"] = stmt(X->getBody());
      return std::move(o);
    }
    if (auto* X = dyn_cast<DoStmt>(S)) {
      o["k"] = "do";
      o["cond"] = expr(X->getCond());
      o["body"] = stmt(X->getBody());
      return std::move(o);
    }
    if (auto* X = dyn_cast<SwitchStmt>(S)) {
      o["k"] = "switch";
      o["cond"] = expr(X->getCond());
      o["body"] = stmt(X->getBody());
      return std::move(o);
    }
    if (auto* X = dyn_cast<CaseStmt>(S)) {
      o["k"] = "case";
      o["v"] = expr(X->getLHS());
      o["sub"] = stmt(X->getSubStmt());
      return std::move(o);
    }
    if (auto* X = dyn_cast<DefaultStmt>(S)) {
      o["k"] = "default";
      o["sub"] = stmt(X->getSubStmt());
      return std::move(o);
    }
    if (auto* X = dyn_cast<ReturnStmt>(S)) {
      o["k"] = "ret";
      if (X->getRetValue()) o["e"] = expr(X->getRetValue());
      return std::move(o);
    }
    if (isa<BreakStmt>(S)) { o["k"] = "break"; return std::move(o); }
    if (isa<ContinueStmt>(S)) { o["k"] = "continue"; return std::move(o); }
    if (isa<NullStmt>(S)) { o["k"] = "null"; return std::move(o); }
    if (auto* X = dyn_cast<AttributedStmt>(S)) return stmt(X->getSubStmt());
    if (auto* X = dyn_cast<Expr>(S)) {
      o["k"] = "expr";
      o["e"] = expr(X);
      return std::move(o);
    }
    o["k"] = "unknown";
    o["cls"] = S->getStmtClassName();
    return std::move(o);
  }

  json::Value templArgs(const TemplateArgumentList* L) {
    json::Array a;
    if (!L) return std::move(a);
    for (const TemplateArgument& A : L->asArray()) {
      std::string s;
      llvm::raw_string_ostream os(s);
      A.print(PP, os, true);
      a.push_back(os.str());
    }
    return std::move(a);
  }

  json::Value function(const FunctionDecl* F) {
    const FunctionDecl* Def = nullptr;
    F->hasBody(Def);
    json::Object o;
    o["fid"] = funcId(F);
    o["q"] = qname(F);
    o["n"] = F->getDeclName().getAsString();
    o["ret"] = typeStr(F->getReturnType());
    const FunctionDecl* P = patternOf(F);
    const FunctionDecl* PD = nullptr;
    if (P->hasBody(PD)) P = PD;
    o["pat"] = loc(P->getLocation());
    o["inst"] = (P->getCanonicalDecl() != F->getCanonicalDecl());
    if (auto* M = dyn_cast<CXXMethodDecl>(F)) {
      const CXXRecordDecl* R = M->getParent();
      o["rec"] = qname(R);
      if (auto* S = dyn_cast<ClassTemplateSpecializationDecl>(R)) {
        o["rect"] = S->getSpecializedTemplate()->getQualifiedNameAsString();
        o["recargs"] = templArgs(&S->getTemplateArgs());
      } else {
        o["rect"] = R->getQualifiedNameAsString();
      }
      o["static"] = M->isStatic();
      o["const"] = M->isConst();
      if (R->isLambda()) o["lambda"] = true;
      if (isa<CXXConstructorDecl>(M)) o["ctor"] = true;
      if (isa<CXXDestructorDecl>(M)) o["dtor"] = true;
      switch (M->getAccess()) {
        case AS_public: o["access"] = "public"; break;
        case AS_protected: o["access"] = "protected"; break;
        case AS_private: o["access"] = "private"; break;
        default: break;
      }
      if (M->isCopyAssignmentOperator()) o["copyassign"] = true;
      if (M->isMoveAssignmentOperator()) o["moveassign"] = true;
      if (auto* CD = dyn_cast<CXXConstructorDecl>(M)) {
        if (CD->isCopyConstructor()) o["copyctor"] = true;
        if (CD->isMoveConstructor()) o["movector"] = true;
        if (CD->isDefaultConstructor()) o["defaultctor"] = true;
      }
    }
    if (F->getTemplateSpecializationArgs()) o["targs"] = templArgs(F->getTemplateSpecializationArgs());
    o["constexpr"] = F->isConstexpr();
    if (F->isDefaulted()) o["defaulted"] = true;
    if (explicitNoexcept(F)) o["noexcept"] = true;
    json::Array ps;
    for (const ParmVarDecl* V : F->parameters()) {
      json::Object p;
      p["n"] = V->getNameAsString();
      p["id"] = declId(V);
      p["t"] = typeStr(V->getType());
      {
        QualType NT = V->getType().getNonReferenceType();
        if (NT->isEnumeralType()) p["enum"] = true;
        if (NT->isScalarType()) p["scalar"] = true;
        if (NT->isIntegralOrEnumerationType()) p["integral"] = true;
        if (const CXXRecordDecl* PR = NT->getAsCXXRecordDecl()) p["rec"] = qname(PR);
      }
      ps.push_back(std::move(p));
    }
    o["params"] = std::move(ps);
    if (auto* C = dyn_cast<CXXConstructorDecl>(Def ? Def : F)) {
      json::Array inits;
      for (const CXXCtorInitializer* I : C->inits()) {
        json::Object i;
        if (I->isAnyMemberInitializer()) { i["field"] = I->getAnyMember()->getNameAsString(); }
        else if (I->isBaseInitializer()) { i["base"] = typeStr(QualType(I->getBaseClass(), 0)); }
        else if (I->isDelegatingInitializer()) { i["delegating"] = true; }
        i["written"] = I->isWritten();
        i["e"] = expr(I->getInit());
        inits.push_back(std::move(i));
      }
      o["inits"] = std::move(inits);
    }
    if (Def && Def->getBody()) o["body"] = stmt(Def->getBody());
    return std::move(o);
  }

  json::Value record(const CXXRecordDecl* R) {
    json::Object o;
    o["q"] = qname(R);
    o["loc"] = loc(R->getLocation());
    o["union"] = R->isUnion();
    if (auto* S = dyn_cast<ClassTemplateSpecializationDecl>(R)) {
      o["rect"] = S->getSpecializedTemplate()->getQualifiedNameAsString();
      o["recargs"] = templArgs(&S->getTemplateArgs());
    }
    json::Array fs;
    for (const FieldDecl* F : R->fields()) {
      json::Object f;
      f["n"] = F->getNameAsString();
      f["t"] = typeStr(F->getType());
      f["idx"] = (int64_t)F->getFieldIndex();
      if (F->isAnonymousStructOrUnion()) f["anon"] = true;
      if (F->getType()->isScalarType()) f["scalar"] = true;
      if (F->getType()->isEnumeralType()) f["enum"] = true;
      if (const CXXRecordDecl* FR = F->getType()->getAsCXXRecordDecl()) {
        f["rec"] = qname(FR);
        if (FR->isUnion()) f["recunion"] = true;
      }
      if (F->isMutable()) f["mutable"] = true;
      if (F->hasInClassInitializer() && F->getInClassInitializer()) f["init"] = expr(F->getInClassInitializer());
      fs.push_back(std::move(f));
    }
    o["fields"] = std::move(fs);
    json::Array bs;
    for (const CXXBaseSpecifier& B : R->bases()) bs.push_back(typeStr(B.getType()));
    o["bases"] = std::move(bs);
    json::Array ms;
    for (const Decl* D : R->decls()) {
      const FunctionDecl* M = dyn_cast<FunctionDecl>(D);
      if (auto* FT = dyn_cast<FunctionTemplateDecl>(D)) M = FT->getTemplatedDecl();
      if (!M) continue;
      json::Object m;
      m["n"] = M->getDeclName().getAsString();
      m["sig"] = typeStr(M->getType());
      if (M->isDeleted()) m["deleted"] = true;
      if (M->isDefaulted()) m["defaulted"] = true;
      if (M->isImplicit()) m["implicit"] = true;
      if (isa<FunctionTemplateDecl>(D)) m["template"] = true;
      ms.push_back(std::move(m));
    }
    o["methods"] = std::move(ms);
    return std::move(o);
  }

  ASTContext& Ctx;
  SourceManager& SM;
  PrintingPolicy PP;
  std::map<std::string, int64_t> FileIds;
  std::vector<std::string> Files;
  std::map<const FunctionDecl*, int64_t> FuncIds;
  std::map<const Decl*, int64_t> DeclIds;
  std::deque<const FunctionDecl*> Work;
};

class Collector : public RecursiveASTVisitor<Collector> {
 public:
  Collector(Emitter& E) : Em(E) {}
  bool shouldVisitTemplateInstantiations() const { return true; }
  bool shouldVisitImplicitCode() const { return false; }

  bool VisitFunctionDecl(FunctionDecl* F) {
    if (!F->doesThisDeclarationHaveABody()) return true;
    if (!Em.inRoots(F->getLocation())) {
      // "driver" code: the non-template functions of a probe translation unit itself.  Their bodies are emitted separately so
      // that rules can read which library function each call / construction in the probe RESOLVES to (overload resolution).
      SourceLocation L = Em.SM.getExpansionLoc(F->getLocation());
      if (Em.SM.isInMainFile(L) && !F->isDependentContext() && Em.SM.getFilename(L).contains("probes/"))
        Drivers.push_back(F);
      return true;
    }
    if (F->isDependentContext()) {
      Patterns.push_back(F);
      return true;
    }
    Funcs.push_back(F);
    return true;
  }
  bool VisitVarDecl(VarDecl* V) {
    if (isa<ParmVarDecl>(V)) return true;
    if (!Em.inRoots(V->getLocation())) return true;
    if (V->hasGlobalStorage()) Statics.push_back(V);
    return true;
  }
  bool VisitStaticAssertDecl(StaticAssertDecl* D) {
    if (Em.inRoots(D->getLocation())) Asserts.push_back(D);
    return true;
  }
  bool VisitEnumDecl(EnumDecl* D) {
    if (D->isCompleteDefinition() && !D->isDependentContext() &&
        (Em.inRoots(D->getLocation()) || !Em.SM.isInSystemHeader(Em.SM.getExpansionLoc(D->getLocation()))))
      Enums.push_back(D);
    return true;
  }
  bool VisitCXXRecordDecl(CXXRecordDecl* R) {
    if (!R->isCompleteDefinition() || !Em.inRoots(R->getLocation())) return true;
    if (R->isDependentContext() || R->isLambda()) return true;
    Records.push_back(R);
    return true;
  }
  Emitter& Em;
  std::vector<const FunctionDecl*> Funcs, Patterns, Drivers;
  std::vector<const VarDecl*> Statics;
  std::vector<const EnumDecl*> Enums;
  std::vector<const CXXRecordDecl*> Records;
  std::vector<const StaticAssertDecl*> Asserts;
};

class Consumer : public ASTConsumer {
 public:
  explicit Consumer(std::string In) : InFile(std::move(In)) {}
  void HandleTranslationUnit(ASTContext& Ctx) override {
    if (Ctx.getDiagnostics().hasErrorOccurred()) {
      llvm::errs() << "nopx: compile errors in " << InFile << "\n";
    }
    Emitter Em(Ctx);
    Collector Col(Em);
    Col.TraverseDecl(Ctx.getTranslationUnitDecl());

    std::error_code EC;
    std::unique_ptr<llvm::raw_fd_ostream> file;
    llvm::raw_ostream* osp = &llvm::outs();
    if (OutFile != "-") {
      file = std::make_unique<llvm::raw_fd_ostream>(OutFile, EC);
      osp = file.get();
    }
    llvm::raw_ostream& os = *osp;
    // Functions are streamed one by one: the DOM of a whole TU costs gigabytes.
    // driver bodies first (into a buffer): emitting them may queue library callees, which the loop below then emits
    std::vector<std::string> driverJson;
    for (const FunctionDecl* F : Col.Drivers) {
      std::string buf;
      llvm::raw_string_ostream ss(buf);
      ss << Em.function(F);
      driverJson.push_back(ss.str());
    }
    os << "{\"tu\":" << json::Value(InFile) << ",\n\"functions\":[\n";
    std::set<const FunctionDecl*> done;
    bool first = true;
    for (const FunctionDecl* F : Col.Funcs) Em.Work.push_back(F);
    while (!Em.Work.empty()) {
      const FunctionDecl* F = Em.Work.front();
      Em.Work.pop_front();
      const FunctionDecl* C = F->getCanonicalDecl();
      if (done.count(C)) continue;
      done.insert(C);
      const FunctionDecl* Def = nullptr;
      if (!F->hasBody(Def)) continue;
      if (Def->isDependentContext()) continue;
      if (!first) os << ",\n";
      first = false;
      os << Em.function(Def);
    }
    os << "],\n\"drivers\":[\n";
    for (size_t i = 0; i < driverJson.size(); i++) os << (i ? ",\n" : "") << driverJson[i];
    os << "],\n";
    json::Array pats;
    for (const FunctionDecl* P : Col.Patterns) {
      json::Object o;
      o["q"] = P->getQualifiedNameAsString();
      o["loc"] = Em.loc(P->getLocation());
      pats.push_back(std::move(o));
    }
    json::Array statics;
    for (const VarDecl* V : Col.Statics) {
      json::Object o;
      o["q"] = Em.qname(V);
      o["loc"] = Em.loc(V->getLocation());
      o["t"] = Em.typeStr(V->getType());
      o["tls"] = V->getTLSKind() != VarDecl::TLS_None;
      o["constexpr"] = V->isConstexpr();
      o["const"] = V->getType().isConstQualified();
      o["local"] = V->isStaticLocal();
      o["member"] = V->isStaticDataMember();
      o["dependent"] = V->getDeclContext()->isDependentContext();
      if (auto* PF = dyn_cast_or_null<FunctionDecl>(V->getParentFunctionOrMethod())) {
        o["fn"] = Em.qname(PF);
        if (auto* M = dyn_cast<CXXMethodDecl>(PF)) {
          o["fn_static"] = M->isStatic();
          if (auto* S = dyn_cast<ClassTemplateSpecializationDecl>(M->getParent()))
            o["rect"] = S->getSpecializedTemplate()->getQualifiedNameAsString();
          else
            o["rect"] = M->getParent()->getQualifiedNameAsString();
        }
      } else if (auto* R = dyn_cast<CXXRecordDecl>(V->getDeclContext())) {
        o["rec"] = Em.qname(R);
      }
      if (const CXXRecordDecl* TR = V->getType().getNonReferenceType()->getBaseElementTypeUnsafe()->getAsCXXRecordDecl())
        if (TR->hasDefinition()) o["has_mutable"] = TR->hasMutableFields();
      statics.push_back(std::move(o));
    }
    json::Array enums;
    for (const EnumDecl* D : Col.Enums) {
      json::Object o;
      o["q"] = Em.qname(D);
      o["loc"] = Em.loc(D->getLocation());
      json::Array es;
      for (const EnumConstantDecl* E : D->enumerators()) {
        llvm::SmallString<32> s;
        E->getInitVal().toString(s, 10);
        es.push_back(json::Object{{"n", E->getNameAsString()}, {"v", std::string(s.str())}});
      }
      o["enumerators"] = std::move(es);
      o["underlying"] = Em.typeStr(D->getIntegerType().getCanonicalType());
      o["scoped"] = D->isScoped();
      enums.push_back(std::move(o));
    }
    json::Array asserts;
    for (const StaticAssertDecl* D : Col.Asserts) {
      json::Object o;
      o["loc"] = Em.loc(D->getLocation());
      if (D->getMessage()) o["msg"] = D->getMessage()->getString().str();
      o["dependent"] = D->getDeclContext()->isDependentContext();
      o["failed"] = D->isFailed();
      asserts.push_back(std::move(o));
    }
    os << "\"static_asserts\":" << json::Value(std::move(asserts)) << ",\n";
    os << "\"patterns\":" << json::Value(std::move(pats)) << ",\n";
    os << "\"statics\":" << json::Value(std::move(statics)) << ",\n";
    os << "\"enums\":" << json::Value(std::move(enums)) << ",\n";
    os << "\"records\":[\n";
    first = true;
    for (const CXXRecordDecl* R : Col.Records) {
      if (!first) os << ",\n";
      first = false;
      os << Em.record(R);
    }
    os << "],\n";
    json::Array files;
    for (auto& f : Em.Files) files.push_back(f);
    os << "\"files\":" << json::Value(std::move(files)) << ",\n";
    os << "\"errors\":" << (Ctx.getDiagnostics().hasErrorOccurred() ? "true" : "false") << "}\n";
  }
  std::string InFile;
};

class Action : public ASTFrontendAction {
 public:
  std::unique_ptr<ASTConsumer> CreateASTConsumer(CompilerInstance&, StringRef In) override {
    return std::make_unique<Consumer>(In.str());
  }
};

}  // namespace

int main(int argc, const char** argv) {
  auto P = CommonOptionsParser::create(argc, argv, Cat);
  if (!P) {
    llvm::errs() << P.takeError();
    return 2;
  }
  if (Roots.empty()) Roots.push_back("/include/nop/");
  ClangTool T(P->getCompilations(), P->getSourcePathList());
  return T.run(newFrontendActionFactory<Action>().get());
}
