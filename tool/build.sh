#!/bin/sh
# Builds the libTooling fact extractor (nopx) from files on disk only.
set -e
here="$(cd "$(dirname "$0")" && pwd)"
out="$here/../.build"
mkdir -p "$out"
if [ ! -x "$out/nopx" ] || [ "$here/nopx.cc" -nt "$out/nopx" ]; then
  clang++ $(llvm-config-14 --cxxflags) -fno-rtti -O1 "$here/nopx.cc" -o "$out/nopx.tmp.$$" \
    /usr/lib/llvm-14/lib/libclang-cpp.so.14 /usr/lib/llvm-14/lib/libLLVM-14.so
  mv "$out/nopx.tmp.$$" "$out/nopx"
fi
echo "nopx built: $out/nopx"
