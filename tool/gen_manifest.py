#!/usr/bin/env python3
"""Writes MANIFEST.json from the table below (single source of truth for claims)."""
import json, os
VERIF = os.path.dirname(os.path.dirname(os.path.abspath(__file__)))
ASSUME = ('Instances of each function pattern in the probe catalogue (and, thorough tier, the repository tests/examples) stand for all '
          'instantiations; LP64 little-endian host; clang 14 front end; library models in DESIGN §7.')
CLAIMS = {
 'C01': dict(technique='per-kind symbolic path comparison of every writer and reader with the documented layout; interval analysis of the integer layer; role specification of I/O primitives',
             text='Decides the structural conditions of round-tripping, not run-time value equality: for every encoder kind the writer and the reader are '
                  'each compared (all symbolic paths) with the documented layout, hence agree on integer types of length fields, byte-vs-element '
                  'quantities, element order and count; the integer layer (class selection, payload types, fixint decode) is decided for all values; '
                  'no length is narrowed; reader/writer primitives move exactly the requested bytes; table frames are exactly consumed.',
             ref='§4 C01'),
 'C02': dict(technique='guard/dominance rules on symbolic paths of reader primitives and decoders; Ensure-before-allocation; narrowing scan; loop termination rule',
             text='Necessary conditions for memory safety and bounded allocation: bounded-reader primitives guard every transfer (overflow-safe); a decoded '
                  'length reaches resize() only after a successful Ensure of that many bytes and is followed by a raw read of exactly that size; fixed '
                  'storage is written only under the exact-length/capacity guard evaluated on the full 64-bit length; decoder loops are input-consuming '
                  'or constant-bounded. Freedom from undefined behaviour in general is not decided. BufferReader is the recorded finding F-A.',
             ref='§4 C02'),
 'C03': dict(technique='interval analysis of Prefix over all values; symbolic path comparison of every WritePayload with the documented layout; doc-table parse',
             text='Integer layer complete: minimal class for every value of the nine integer encoders, payload type per class, prefix byte values equal the '
                  'table parsed from docs/format.md. Container layer: every WritePayload kind emits the documented length type and quantity and its '
                  'elements in order; wrapper kinds (optional, result, enum, variant, value/reference wrapper) are composed of exactly the documented component '
                  'encodings; table layout and entry framing. Float payload bytes and host endianness are assumed (native copy on a little-endian host).',
             ref='§4 C03'),
 'C04': dict(technique='exhaustive evaluation of Match over 256 prefixes; guard-to-error rules on symbolic paths of every ReadPayload',
             text='Integer layer complete: accepted prefix set per destination width/signedness, payload type per class, fixint decode. Container layer: each '
                  'documented validation (exact fixed lengths, byte-length multiples, member counts, logical-buffer capacity, variant index range, handle '
                  'type) is present with its documented error category and dominates every element read; no narrowing hides part of a length from the guard; '
                  'wrapper decoders use the documented component encodings; Ensure of the buffer and bounded readers is exact and overflow-safe (ReadLimitReached).',
             ref='§4 C04'),
 'C05': dict(technique='role specification of every reader primitive (symbolic effect summaries) + status discipline + skip/padding rules',
             text='Compositional: every reader primitive of the five library readers fails when asked for more than remains (stream/fd behaviour modelled), '
                  'decoders demand bytes only through those primitives including skipped table entries and padding, and the status discipline carries the '
                  'failure to the caller. BufferReader is the recorded finding F-A.',
             ref='§4 C05'),
 'C06': dict(technique='term-by-term comparison of every Size() with the symbolic summary of its WritePayload; Prepare-first rule; writer guard rules',
             text='Size() of each encoder kind counts the prefix once, sizes the length field for the writer\'s own length expression, and counts the same '
                  'payload (raw bytes or the same element/member list) in size_t arithmetic; Handle over-estimates with I64; the serializer Prepares '
                  'Size(value) before writing; checked writers and the bounded writer refuse exactly what exceeds their capacity; a table entry\'s '
                  'declared size, frame limit and Size(value) are one quantity.',
             ref='§4 C06'),
 'C07': dict(technique='symbolic summaries of all Encoding<Table> members per probe table with Index<N> recursion flattened; compile-fail witnesses',
             text='The reader\'s behaviour depends only on the id->entry map of the reading definition; the rules cover every declared id: cleared first, '
                  'dispatched to the entry declared with that id, skipped by exactly its size when unknown or deleted, framed and padded when read; the '
                  'writer omits empty/deleted entries and counts exactly the written ones. Per-entry value preservation reduces to C01/C09.',
             ref='§4 C07'),
 'C08': dict(technique='guard-to-error and framing rules on symbolic paths of the table decoder; status discipline; bounded-reader step rules',
             text='Hash validated before entries (InvalidTableHash), duplicate detection on an entry list that is cleared first (DuplicateTableEntry), value '
                  'decoded inside a frame of exactly the declared size with the padding status returned, id dispatch independent of order, inner errors '
                  'propagate (status discipline).',
             ref='§4 C08'),
 'C11': dict(technique='reset/overwrite/coverage rule on every successful symbolic path of every ReadPayload; abstract-state exploration of the re-seating operations',
             text='Every destination kind is reset or completely overwritten on every successful path (including empty-input paths): clear(), resize plus raw '
                  'read of exactly the resized range, full element coverage of fixed-size destinations, re-seating of Optional/Result/Variant, ClearEntries '
                  'of all declared table entries, size member of logical buffers; the re-seating operations themselves (Result/Optional assignment and clear, Variant '
                  'Become/assignment, arities 1-4) are explored from every reachable prior state. Equality with the fresh-object result as values is not decided.',
             ref='§4 C11'),
 'C09': dict(technique='compiler-evaluated trait table over a generated type catalogue (static_asserts) + documented-layout compatibility relation; must-fail witnesses',
             text='clang evaluates IsFungible for every ordered pair of a generated catalogue (about 70 types over every type constructor the trait knows, '
                  '~5000 pairs): reflexivity, symmetry and the documented pairs are read off, every accepted pair is checked against the documented wire '
                  'layouts of both types, and Protocol<P> gating is witnessed by must-fail/must-compile snippets. Encoders emitting those layouts is C03/C04; '
                  'length-prefix type and narrowing rules on the sequence encoders are repeated here. Per-value re-encoding is not decided.',
             ref='§4 C09'),
 'C10': dict(technique='abstract interpretation of status locals (Untested/Ok/Failed) over every function instance; rules SD1-SD4',
             text='Every status-producing call site under include/nop (about 240 file:line:col sites) is a fault position; the interpreter proves per pattern '
                  'that the status is consumed, tested before the next I/O step, that the operation stops on failure and that the failure is returned '
                  'verbatim. Pattern-level verdicts do not depend on the instantiation, so nested containers, later elements, padding and every type '
                  'combination are covered. Prepare-failure => nothing written is SD2 on SerializerCommon::Write.',
             ref='§3 E3, §4 C10'),
 'C12': dict(technique='exhaustive abstract-state exploration (abstract execution over flag cells and dead/live storage cells) of Variant/Union',
             text='All reachable abstract states of Variants of arity 1, 2, 3 and 4 with non-trivially destructible alternatives, every constructor and public '
                  'operation (copy/move/element/converting/EmptyVariant assignment, converting construction from another instantiation, Become for every index in [-2,N+1], Visit, get) from every state, a second Variant in '
                  'every state and self-aliasing: lifetime legality, index <=> live alternative, construct-only-while-empty ordering, copy/const rules, '
                  'destructor, postconditions; plus tagged construction in Union::Become and member declaration order. Equality of copies as values is not decided.',
             ref='§4 C12'),
 'C13': dict(technique='exhaustive abstract-state exploration of Result/Optional; abstract evaluation of the comparison operators; switch/enumerator inventory',
             text='Reachable-state fixpoint of Result<E,T> (also for an enum whose None is not zero) and Optional<T> (T non-trivially destructible) over all constructors/operations/argument choices '
                  '(value, every error code, second object in every reachable state incl. other instantiations, self): lifetime legality, accessor-visible state '
                  '<=> live storage, ordering, copy/move/const rules, postconditions; Entry is shown to add nothing to Optional; every instantiated Optional '
                  'comparison operator (also with Entry operands) is evaluated over all operand emptiness/order combinations against the total order; '
                  'GetErrorMessage covers every enumerator.',
             ref='§4 C13'),
 'C14': dict(technique='event-order and def-use rules on symbolic paths of the dispatch layer; narrowing scan; compile-fail witnesses',
             text='Dispatch table (recursion flattened, 1/2/5 bindings): every binding tried, the matching binding dispatched, otherwise InvalidInterfaceMethod '
                  'without touching the receiver; Helper::Dispatch: GetArgs, one Call, one SendReturn of its result; Call forwards pass-through then get<0..N-1>; '
                  'sender/receiver primitives of every instantiation (zero-argument methods included) each perform exactly their transfer; Invoke sends its own selector; no selector is narrowed; static uniqueness and '
                  'compatibility checks witnessed. Argument value equality reduces to C01.',
             ref='§4 C14'),
 'C15': dict(technique='event order/def-use on symbolic paths of the handle encoder; abstract execution of UniqueHandle over all ownership scenarios; witnesses',
             text='Handle writer: tag, exactly one PushHandle(value), exactly the returned reference; reader: tag validated, decoded reference resolved, errors via '
                  '.error(); Size upper bound; bounded wrappers forward; handles inside table entries compile and are framed; every UniqueHandle member executed '
                  'abstractly over empty/owning/second-handle/self scenarios with Policy::Close recorded (closed exactly once, never after release/move-away, '
                  'unique ownership); copying deleted. Identity of external resources is the user channel\'s business.',
             ref='§4 C15'),
 'C16': dict(technique='symbolic effect summaries (all paths, polynomial guards) of every BoundedReader/BoundedWriter member; inductive step on pos <= limit',
             text='Complete for the two classes: each of the 12 primitives is an inductive step on pos <= limit, with the byte count derived from the '
                  'signature. Guard (overflow-safe normal form), refusal category and effect-freeness, single delegation with the caller\'s arguments, '
                  'exact counting only after wrapped success, padding to exactly the limit, handle forwarding and the initial state are each decided '
                  'on all paths of the instantiated bodies.',
             ref='§4 C16'),
 'C17': dict(technique='symbolic effect summaries of every reader/writer primitive compared with one role specification; byte-lane terms; primitive inventory',
             text='Each primitive of the 5 buffer-family, 2 stream and 2 fd classes is compared, on all paths, with the single specification of its role '
                  '(limit test, guard, refusal, bytes moved, position update, observable stream operations, syscall result tests); the constexpr '
                  'writer\'s byte lanes are compared with the little-endian layout; the primitive inventory covers all 11 classes. Classes meeting '
                  'one specification agree with each other up to the first failing call. Library semantics of iostream/read(2) are modelled, not analysed.',
             ref='§4 C17'),
 'C18': dict(technique='term-domain evaluation of SipHash::Compute compared with reference SipHash-2-4 terms; compile-time (static_assert) wiring witnesses',
             text='Dataflow identity, for all inputs, keys and lengths, between the library code (helpers inlined, canonical hash-consed terms) and the '
                  'SipHash-2-4 construction written from the specification: initial state, block loop bounds, compression step, all 8 tail residues, '
                  'finalisation, zero-extension of input bytes - for the BlockReader overloads and the generic-container overload (std::string, vector<char>, ...); '
                  'additionally the whole function evaluated with concrete control flow for fixed lengths over symbolic bytes and keys. The macro wiring (NOP_TABLE_NS, NOP_INTERFACE(32), NOP_METHOD), the name terminator '
                  'and the four published key constants are tied down by static_asserts that clang evaluates against an independent constexpr reference.',
             ref='§4 C18'),
 'C19': dict(technique='static inventory of static-storage objects + structural rules (clang AST of patterns and instances)',
             text='Complete for the stated clause set: every object with static storage duration under include/nop is enumerated from the AST '
                  'and must be thread_local or immutable; ThreadLocal storage/first-init/Clear and encoder statelessness are checked on every '
                  'instance. A race between operations on distinct objects needs shared mutable state, of which the inventory shows none.',
             ref='§4 C19'),
 'C20': dict(technique='byte-lane term extraction from the instantiated pack expansions + call-graph binding of public functions to helpers',
             text='Complete for the conversion logic: each helper instance (widths 1,2,4,8, signed/unsigned) must be exactly the little or the big lane map, '
                  'each public From*/To* of each of the 11 specialisations must reach helpers of its own endianness only, sizes and the union '
                  'punning structure are checked, so the float/double specialisation cannot forward to the wrong helper or a narrower integral type.',
             ref='§4 C20'),
}
NA = {}
props = [json.loads(l) for l in open(os.path.join(VERIF, 'properties.jsonl'))]
checks = []
na = []
for p in props:
    pid = p['id']
    if pid in CLAIMS:
        c = CLAIMS[pid]
        checks.append({
            'property_id': pid,
            'quick_cmd': 'python3 checks/run.py %s --tier quick' % pid,
            'thorough_cmd': 'python3 checks/run.py %s --tier thorough' % pid,
            'evidence_file': 'evidence/%s.json' % pid,
            'replay_cmd_template': 'cat {path}',
            'engine': 'nopsa',
            'level_claimed': {'category': 'other', 'text': c['text'], 'design_ref': 'DESIGN.md ' + c['ref']},
            'level_note': c.get('note', ASSUME),
            'technique': c['technique'],
        })
    else:
        na.append({'property_id': pid, 'reason': NA.get(pid, 'static check for this property is not built yet in this revision (see DESIGN.md §10 build order); nothing is claimed')})
m = {
 'version': 1,
 'setup_cmd': 'tool/build.sh',
 'hooks': {'guard': 'NOP_VERIF', 'enable': 'no hooks are used: the analyses read the unmodified sources; -DNOP_VERIF is reserved and unused',
           'baseline_off_cmd': 'cd /repo && make -j16 out/test && out/test', 'source_commits': [], 'add_only': True},
 'engines': [{'name': 'nopsa', 'path': 'checks/run.py', 'serves_properties': [c['property_id'] for c in checks],
              'kind_free_text': 'custom static analyser: clang-14 libTooling extractor (tool/nopx.cc) emitting a resolved IR of every function instance under include/nop, and Python rules (nopsa/) over it: inventories, guard/dominance queries, status-discipline abstract interpretation, interval and term domains, typestate, compile-time witnesses'}],
 'checks': checks,
 'not_applicable': na,
 'notes': 'All checks decide from the current /repo working tree without executing it. Exit 0 pass / 1 VIOLATION / 2 ANALYSIS-BROKEN. Genuine defects found are fixed by fix: commits in /repo or listed in known_findings.json.',
}
json.dump(m, open(os.path.join(VERIF, 'MANIFEST.json'), 'w'), indent=1)
print('claimed', [c['property_id'] for c in checks], 'na', len(na))
