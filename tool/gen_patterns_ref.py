#!/usr/bin/env python3
"""Writes nopsa/spec/patterns_ref.json: the inventory (file, qualified name -> count) of dependent function patterns under
include/nop on the REFERENCE tree (the pinned commit plus the fix: commits).  Run only on a tree on which all checks pass.

The inventory is used by the coverage gate to tell two situations apart when a pattern has no analysed instance:
  * the pattern is in the inventory  -> the probes used to reach it and no longer do (signature changed, overload set
                                        changed, probe broken): ANALYSIS-BROKEN (exit 2), as before;
  * the pattern is NOT in the inventory -> new, purely additive code that nothing analysed reaches: it is listed in the
                                        evidence (`uncovered_new_patterns`) and in a NOTE line, and does not fail the check -
                                        the check makes no claim about it.
It never produces or suppresses a violation."""
import json, os, sys
sys.path.insert(0, os.path.join(os.path.dirname(os.path.abspath(__file__)), '..'))
from nopsa import facts

db = facts.load()
ref = {}
for (file, line), q in db.patterns.items():
    k = '%s|%s' % (file, q)
    ref[k] = ref.get(k, 0) + 1
out = os.path.join(facts.VERIF, 'nopsa', 'spec', 'patterns_ref.json')
json.dump(ref, open(out, 'w'), indent=0, sort_keys=True)
print('wrote', out, len(ref), 'names,', sum(ref.values()), 'patterns')
