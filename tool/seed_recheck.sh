#!/bin/sh
# Re-runs every claimed check against every stored seeded change (in parallel) and prints a summary table.
cd "$(dirname "$0")/.."
ls seeded | xargs -P 8 -I{} sh -c 'id={}; prop=${id%%-*}; n=${id#*-}; python3 tool/seed_intake.py seeded/$id $prop $n --recheck 2>&1 | tail -1'
