#!/bin/sh
# usage: tool/with_patch.sh <patch.diff> <command...>   - runs the command against a scratch copy of /repo with the patch applied
set -e
patch="$(readlink -f "$1")"; shift
tmp="$(mktemp -d /tmp/wp_XXXXXX)"
trap 'rm -rf "$tmp"' EXIT
mkdir -p "$tmp/repo"
cp -r /repo/include /repo/test /repo/examples /repo/docs "$tmp/repo/"
(cd "$tmp/repo" && patch -s -p1 < "$patch")
NOPSA_REPO="$tmp/repo" NOPSA_OUT="$tmp/o" "$@"
