#!/usr/bin/env python3
"""Intake of an independently written breaking change (from a sub-agent's scratch worktree).

usage: tool/seed_intake.py <seed_dir> <Cxx> <n> [--name short_name]
   <seed_dir>/patch<n>.diff, demo<n>.cpp, notes.md

Confirms in a fresh scratch worktree of /repo (outside /repo and /verif, removed
afterwards): the patch applies to HEAD, the tree builds with the repo's flags, the
unedited suite passes 315/315 with the patch, the demonstration FAILS with the patch
and PASSES without it.  Then stores /verif/seeded/<id>/{patch.diff, demo.cpp,
meta.json} and runs every claimed check against a patched copy, recording which
detect it.
"""
import argparse, json, os, re, shutil, subprocess, sys, tempfile, time

VERIF = os.path.dirname(os.path.dirname(os.path.abspath(__file__)))


def sh(cmd, cwd=None, timeout=1800, env=None):
    r = subprocess.run(cmd, shell=True, cwd=cwd, stdout=subprocess.PIPE, stderr=subprocess.STDOUT, timeout=timeout, env=env)
    return r.returncode, r.stdout.decode(errors='replace')


def demo_cmd(demo_src, root, out):
    head = open(demo_src).read(3000)
    san = '-fsanitize=address,undefined' if 'fsanitize' in head else ''
    if 'fno-sanitize-recover' in head:
        san += ' -fno-sanitize-recover=all'
    return 'g++ -std=c++14 -O1 -g %s -I %s/include -I %s/test %s -o %s -lpthread' % (san, root, root, demo_src, out)


def claimed():
    m = json.load(open(os.path.join(VERIF, 'MANIFEST.json')))
    return [c['property_id'] for c in m['checks']]


def run_checks(root, props, tmp):
    env = dict(os.environ, NOPSA_REPO=root, NOPSA_OUT=os.path.join(tmp, 'o'))
    res = {}
    for p in props:
        rc, out = sh('%s %s %s --tier quick' % (sys.executable, os.path.join(VERIF, 'checks', 'run.py'), p), env=env)
        rules = sorted({l.split()[1] for l in out.splitlines() if l.startswith('  rule ')})
        first = next((l.strip() for l in out.splitlines() if l.startswith('  rule ')), '')
        res[p] = {'rc': rc, 'rules': rules, 'first': first[:300]}
    return res


def main():
    ap = argparse.ArgumentParser()
    ap.add_argument('seed_dir')
    ap.add_argument('prop')
    ap.add_argument('n')
    ap.add_argument('--name', default='')
    ap.add_argument('--as', dest='as_n', default='', help='store under this number instead of <n>')
    ap.add_argument('--recheck', action='store_true', help='only re-run the checks for an already stored seed')
    a = ap.parse_args()
    sid = '%s-%s%s' % (a.prop, a.as_n or a.n, ('-' + a.name) if a.name else '')
    dest = os.path.join(VERIF, 'seeded', sid)
    tmp = tempfile.mkdtemp(prefix='seedchk_')
    wt = os.path.join(tmp, 'wt')
    meta = {'id': sid, 'property': a.prop}
    try:
        if a.recheck:
            patch = os.path.join(dest, 'patch.diff')
            meta = json.load(open(os.path.join(dest, 'meta.json')))
        else:
            patch = os.path.join(a.seed_dir, 'patch%s.diff' % a.n)
            demo = os.path.join(a.seed_dir, 'demo%s.cpp' % a.n)
        rc, out = sh('git -C /repo worktree add --detach %s HEAD' % wt)
        assert rc == 0, out
        if not a.recheck:
            d = os.path.join(tmp, 'demo.cpp')
            shutil.copy(demo, d)
            # baseline demo
            rc, out = sh(demo_cmd(d, wt, os.path.join(tmp, 'demo_base')))
            assert rc == 0, 'demo does not build on the clean tree: ' + out[-800:]
            rc_base, out_base = sh(os.path.join(tmp, 'demo_base'), timeout=600)
            meta['demo_clean'] = {'rc': rc_base, 'tail': out_base[-300:]}
            rc, out = sh('git apply %s' % os.path.abspath(patch), cwd=wt)
            assert rc == 0, 'patch does not apply: ' + out
            rc, out = sh('make -j16 out/test >/dev/null 2>&1; out/test 2>&1 | tail -3', cwd=wt)
            meta['suite_with_patch'] = out.strip().splitlines()[-1] if out.strip() else 'no output'
            rc, out = sh(demo_cmd(d, wt, os.path.join(tmp, 'demo_mut')))
            assert rc == 0, 'demo does not build on the patched tree: ' + out[-800:]
            rc_mut, out_mut = sh(os.path.join(tmp, 'demo_mut'), timeout=600)
            meta['demo_patched'] = {'rc': rc_mut, 'tail': out_mut[-300:]}
            ok = rc_base == 0 and rc_mut != 0 and '315 tests' in meta['suite_with_patch'] and 'PASSED' in meta['suite_with_patch']
            meta['confirmed'] = ok
            print('suite:', meta['suite_with_patch'], '| demo clean rc', rc_base, '| demo patched rc', rc_mut, '| confirmed', ok)
            if not ok:
                print(json.dumps(meta, indent=1))
                return 1
            os.makedirs(dest, exist_ok=True)
            shutil.copy(patch, os.path.join(dest, 'patch.diff'))
            shutil.copy(demo, os.path.join(dest, 'demo.cpp'))
            notes = os.path.join(a.seed_dir, 'notes.md')
            if os.path.exists(notes):
                shutil.copy(notes, os.path.join(dest, 'notes_from_author.md'))
            meta['files_changed'] = sorted(set(re.findall(r'^\+\+\+ b/(.*)$', open(patch).read(), re.M)))
            meta['ran'] = ['git worktree add (scratch) ; git apply patch.diff ; make -j16 out/test && out/test ; build+run demo with and without the patch']
        else:
            rc, out = sh('git apply %s' % os.path.abspath(patch), cwd=wt)
            assert rc == 0, 'patch does not apply: ' + out
        props = claimed()
        res = run_checks(wt, props, tmp)
        meta['checks'] = {p: r for p, r in res.items() if r['rc'] != 0}
        meta['detected_by'] = sorted(p for p, r in res.items() if r['rc'] == 1)
        meta['checks_run'] = props
        meta['checked_at_verif_commit'] = sh('git -C %s rev-parse --short HEAD' % VERIF)[1].strip()
        json.dump(meta, open(os.path.join(dest, 'meta.json'), 'w'), indent=1)
        print(sid, 'detected by', meta['detected_by'], {p: r['rules'] for p, r in meta['checks'].items()})
    finally:
        sh('git -C /repo worktree remove --force %s' % wt)
        shutil.rmtree(tmp, ignore_errors=True)
    return 0


if __name__ == '__main__':
    sys.exit(main())
