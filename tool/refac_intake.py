#!/usr/bin/env python3
"""Runs every claimed check against a behaviour-preserving refactoring of /repo.
usage: tool/refac_intake.py <patch.diff> <id> [--validate]
Any check that exits non-zero on such a patch is a FALSE ALARM (exit 1) or too brittle (exit 2) and must be fixed in the rule.
With --validate the patch is also applied in a scratch worktree and the unedited suite is run (must be 315 passed).
The patch is stored under /verif/refactors/<id>.diff with <id>.json (results)."""
import json, os, shutil, subprocess, sys, tempfile
from concurrent.futures import ThreadPoolExecutor

VERIF = os.path.dirname(os.path.dirname(os.path.abspath(__file__)))


def sh(cmd, cwd=None, env=None):
    r = subprocess.run(cmd, shell=True, cwd=cwd, stdout=subprocess.PIPE, stderr=subprocess.STDOUT, env=env)
    return r.returncode, r.stdout.decode(errors='replace')


def main():
    patch, rid = os.path.abspath(sys.argv[1]), sys.argv[2]
    validate = '--validate' in sys.argv
    tmp = tempfile.mkdtemp(prefix='refac_')
    meta = {'id': rid}
    try:
        root = os.path.join(tmp, 'repo')
        os.makedirs(root)
        for d in ('include', 'test', 'examples', 'docs', 'build'):
            shutil.copytree(os.path.join('/repo', d), os.path.join(root, d))
        shutil.copy('/repo/Makefile', root)
        rc, out = sh('patch -s -p1 < %s' % patch, cwd=root)
        if rc != 0:
            print(rid, 'PATCH DOES NOT APPLY', out[:200])
            return 2
        if validate:
            rc, out = sh('make -j8 out/test >/dev/null 2>&1; out/test 2>&1 | tail -1', cwd=root)
            meta['suite'] = out.strip()[-60:]
        props = [c['property_id'] for c in json.load(open(os.path.join(VERIF, 'MANIFEST.json')))['checks']]
        env = dict(os.environ, NOPSA_REPO=root, NOPSA_OUT=os.path.join(tmp, 'o'))

        def one(p):
            rc, out = sh('%s %s %s --tier quick' % (sys.executable, os.path.join(VERIF, 'checks', 'run.py'), p), env=env)
            lines = [l.strip() for l in out.splitlines() if l.startswith('  rule ') or l.startswith('ANALYSIS-BROKEN')]
            return p, rc, lines[:4]
        with ThreadPoolExecutor(max_workers=8) as ex:
            res = list(ex.map(one, props))
        alarms = {p: {'rc': rc, 'lines': lines} for p, rc, lines in res if rc != 0}
        meta['alarms'] = alarms
        os.makedirs(os.path.join(VERIF, 'refactors'), exist_ok=True)
        dst = os.path.join(VERIF, 'refactors', rid + '.diff')
        if os.path.abspath(patch) != dst:
            shutil.copy(patch, dst)
        json.dump(meta, open(os.path.join(VERIF, 'refactors', rid + '.json'), 'w'), indent=1)
        print(rid, meta.get('suite', ''), 'ALARMS' if alarms else 'silent', json.dumps(alarms)[:600] if alarms else '')
        return 1 if alarms else 0
    finally:
        shutil.rmtree(tmp, ignore_errors=True)


if __name__ == '__main__':
    sys.exit(main())
