#!/usr/bin/env python3
"""Writes the prompts of a seeding round: one per property, each containing ONLY the property record, the task text and the
list of ideas already tried for that property (parsed from the seed tables of DESIGN.md section 8) - nothing else from /verif.

usage: gen_seed_prompts.py <round dir, e.g. /tmp/seed6> [--steer "extra sentence"]"""
import json, os, re, sys

VERIF = os.path.dirname(os.path.dirname(os.path.abspath(__file__)))

TASK = '''You are working alone in a scratch git worktree of google/libnop (a header-only C++14 serialization library: documented binary format, versioned tables, variants, a small RPC dispatch layer) at {wt}. Work ONLY inside {wt} (and /tmp files you create yourself under {wt}). Never read or write /repo, /verif or other {root}/* directories. There is no network.

Here is a semantic property of the library that is supposed to hold (JSON record; read its statement, quantifier and anchors carefully):

{prop}

Your task: produce THREE independent, realistic changes to the library sources (files under {wt}/include/nop) that each BREAK this property, such that for each change
 (1) the tree still compiles with the repository's own build (flags -std=c++14 -Wall -Wextra -Werror) and
 (2) the existing test suite, unedited, still passes completely: `cd {wt} && make -j8 out/test >/dev/null && out/test | tail -3` must report 315 tests PASSED.
The changes should look like slips a maintainer could plausibly make during a refactoring, optimisation or "cleanup" (an off-by-one in a bound, a dropped check, a swapped argument, a wrong integer type, a missing reset, a reordered pair of statements, two sites that each look fine alone...), and they should be SUBTLE: each must need something specific to manifest (an unusual input or value range, a particular sequence of operations, a fault or truncation at a particular point, a particular template instantiation or reader/writer class), rather than being exposed at once by ordinary use. The three must be at different code sites and of different kinds. At least ONE of them must consist of two small edits at two cooperating sites that each look harmless alone (for example a helper changed together with one of its callers, or a writer and a reader changed consistently so that they still agree with each other but no longer with the documented behaviour). At least ONE must be outside the single most obvious file for this property (for example in a helper header, a traits header, a utility reader/writer, or a type the property only depends on indirectly). Avoid the most obvious single-token slips (a dropped status check directly after a call, a plain off-by-one in the main bounds check): go for something a careful reviewer could still miss. Do not add new files to the library, do not touch tests, and keep each change small (a few lines).

For each change also write a demonstration: a small standalone C++ program that includes the library headers (compile e.g. with `g++ -std=c++14 -I {wt}/include -I {wt}/test demo.cpp -o demo -lpthread`; you may use {wt}/test/test_reader.h / test_writer.h helpers) and that exits 0 printing PASS on the UNMODIFIED library and exits non-zero printing FAIL when your change is applied. (If the natural demonstration is a sanitizer report, build the demo with -fsanitize=address,undefined -fno-sanitize-recover=all and make it fail through the sanitizer; say so in the first lines of the demo.) The demonstration must be a single translation unit.

Deliverables, in {wt}/_seed/ (create it):
  patch1.diff, patch2.diff, patch3.diff  - `git diff` of the library for each change ALONE (each must apply with `git apply` to a clean checkout of the worktree's HEAD)
  demo1.cpp, demo2.cpp, demo3.cpp      - the demonstrations (with the exact compile command in a comment at the top)
  notes.md                  - for each change: what it breaks and why the property no longer holds, what it needs in order to manifest, and the exact commands you ran with their observed results (suite result with the change; demo result with and without the change). If, while reading the code, you notice that the UNMODIFIED library already violates the property for some input, describe that separately at the end of notes.md (input, observed behaviour) - do not use it as one of the three changes.
Leave the worktree's tracked files UNMODIFIED at the end (git checkout -- . ), with only the untracked _seed/ directory added (build outputs under out/ may remain).

Verify everything yourself before finishing: apply each patch alone to the clean tree, run the suite (must be 315 passed), build and run the demo (must FAIL), revert, build and run the demo again (must PASS). Keep your final report short: three or four lines per change.


IMPORTANT - the following ideas have ALREADY been tried by others for this property; do NOT repeat them or close variants of them. Look for NEW territory. {steer} Prefer changes whose wrong behaviour is a plausible consequence of an honest refactoring:
{tried}
'''

STEER = ('Read docs/getting-started.md, docs/format.md and examples/*.cpp to see how users drive the library, and consider in particular: '
         'overload resolution and implicit conversions (integral promotion of bool / character types / unscoped enums, const vs non-const overloads, '
         'template vs non-template overloads, forwarding references that hijack copy operations), exception specifications and exception paths '
         '(a throwing element constructor, copy or visitor at every point of an operation), cv / reference / array decay in traits, default member '
         'initialisers and aggregate initialisation, zero-length and null ranges, values at the boundary of each integer class, objects that are reused, '
         'moved-from or self-assigned, template instantiations the tests never use (wide characters, bool elements, nested containers, enums with a '
         'non-default underlying type, user types with unusual members), and the less common public entry points (nop/protocol.h, nop/value.h, '
         'NOP_EXTERNAL_* macros, Serializer/Deserializer over pointers and unique_ptr, nop/utility/die.h, nop/traits/*.h).')


def tried_for(pid, design):
    out = []
    sec = design[design.index('## 8.'):]
    for line in sec.splitlines():
        if not line.startswith('|'):
            continue
        cells = [c.strip() for c in line.strip().strip('|').split('|')]
        if len(cells) < 2:
            continue
        ids = re.findall(r'\bC\d\d-\d+\b', cells[0])
        if any(i.startswith(pid + '-') for i in ids):
            out.append(re.sub(r'`', '', cells[1]))
    return out


def main():
    root = sys.argv[1]
    steer = STEER
    if '--steer' in sys.argv:
        steer = sys.argv[sys.argv.index('--steer') + 1]
    design = open(os.path.join(VERIF, 'DESIGN.md')).read()
    os.makedirs(root, exist_ok=True)
    for line in open(os.path.join(VERIF, 'properties.jsonl')):
        p = json.loads(line)
        pid = p['id']
        wt = os.path.join(root, pid)
        tried = tried_for(pid, design)
        txt = TASK.format(wt=wt, root=root, prop=json.dumps(p, indent=1), steer=steer, tried='\n'.join(' - ' + t for t in tried))
        with open(os.path.join(root, pid + '.prompt.txt'), 'w') as f:
            f.write(txt)
        print(pid, len(tried), 'ideas already tried')


if __name__ == '__main__':
    main()
