// Replay F-S: a Variant whose alternative is itself a Variant.  Assigning a value of the inner Variant type (directly, or through
// the Outer move assignment, which forwards `*this = std::move(value)` from its visitor) selected the cross-Variant template
// operator=(Variant<Other...>&&) - more specialised than the element assignment operator=(T&&) - which UNWRAPS the inner
// variant: its int lands in Outer's own int alternative (index 1) although construction from the same value gives index 0.
#include <cstdio>
#include <limits>
#include <new>
#include <string>
#include <nop/types/variant.h>
using Inner = nop::Variant<int, std::string>;
using Outer = nop::Variant<Inner, int>;
int main() {
  const Inner cin{6};
  Outer constructed{Inner{5}};
  Outer d; d = Inner{5};
  Outer e; e = cin;
  Outer f{7}; f = Outer{Inner{5}};
  std::printf("constructed from Inner: index %d | assigned Inner&&: %d | assigned const Inner&: %d | move-assigned Outer holding Inner: %d\n",
              constructed.index(), d.index(), e.index(), f.index());
  bool ok = constructed.index() == 0 && d.index() == 0 && e.index() == 0 && f.index() == 0;
  std::puts(ok ? "PASS" : "FAIL: assignment stores a different alternative than construction from the same value");
  return !ok;
}
