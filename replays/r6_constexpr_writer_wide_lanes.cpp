// Replay F-M: ConstexprBufferWriter::Write<char16_t> stores 4 bytes per 2-byte element (overload resolution promotes char16_t to int),
// so the last element is stored 2 bytes past the range the capacity check admitted.
#include <array>
#include <cstdio>
#include <cstring>
#include <nop/serializer.h>
#include <nop/utility/buffer_writer.h>
#include <nop/utility/constexpr_buffer_writer.h>
int main() {
  std::uint8_t store[8];
  std::memset(store, 0xAA, sizeof(store));
  nop::ConstexprBufferWriter w(store, 4);          // capacity: exactly the 4 bytes of two char16_t
  const char16_t data[2] = {0x0102, 0x0304};
  auto st = w.Write(data, data + 2);
  std::printf("status=%s size=%zu bytes:", st ? "ok" : "error", w.size());
  for (auto b : store) std::printf(" %02x", b);
  std::printf("\n");
  bool overflow = store[4] != 0xAA || store[5] != 0xAA;
  // through the serializer: std::array<char16_t,2> is a BIN container of 2+4 bytes
  std::uint8_t store2[10];
  std::memset(store2, 0xAA, sizeof(store2));
  nop::Serializer<nop::ConstexprBufferWriter> s{store2, 6};
  std::array<char16_t, 2> a{{0x0102, 0x0304}};
  auto st2 = s.Write(a);
  std::printf("serializer status=%s bytes:", st2 ? "ok" : "error");
  for (auto b : store2) std::printf(" %02x", b);
  std::printf("\n");
  overflow = overflow || store2[6] != 0xAA || store2[7] != 0xAA;
  std::puts(overflow ? "FAIL: bytes beyond the writer's capacity were overwritten" : "PASS");
  return overflow;
}
