#include <cstdio>
#include <cstdint>
#include <vector>
#include <limits>
#include <array>
#include <nop/serializer.h>
#include <nop/table.h>
#include <nop/types/optional.h>
#include <nop/utility/buffer_reader.h>
#include <nop/utility/pedantic_buffer_reader.h>
struct T1 { nop::Entry<nop::Optional<int>, 1> a; NOP_TABLE(T1, a); };
struct T2 { nop::Entry<int, 1> a; NOP_TABLE(T2, a); };
int main() {
  // table: b5, hash 0, count 2, entries: id 1 size 1 value 05 ; id 1 size 1 value 06
  const std::uint8_t bytes[] = {0xb5, 0x00, 0x02, 0x01, 0x01, 0x05, 0x01, 0x01, 0x06};
  {
    T1 t; nop::Deserializer<nop::PedanticBufferReader> d{bytes, sizeof(bytes)};
    auto s = d.Read(&t);
    std::printf("Entry<Optional<int>>: %s  value=%d\n", s ? "ACCEPTED" : s.GetErrorMessage(), (t.a && t.a.get()) ? t.a.get().get() : -1);
  }
  {
    T2 t; nop::Deserializer<nop::PedanticBufferReader> d{bytes, sizeof(bytes)};
    auto s = d.Read(&t);
    std::printf("Entry<int>: %s\n", s ? "ACCEPTED" : s.GetErrorMessage());
  }
}
