// Replay for F-K: a Handle inside a table entry must serialize through the
// BoundedWriter/BoundedReader that the table encoder wraps around each entry.
// On the unfixed tree this translation unit does not compile
// (BoundedWriter::PushHandle returns Status<HandleType>; BoundedReader::GetHandle
// cannot deduce HandleType).  On the fixed tree it prints "ok 7 7".
#include <cstdio>
#include <vector>
#include <nop/serializer.h>
#include <nop/table.h>
#include <nop/types/handle.h>
#include "../../repo/test/test_reader.h"
#include "../../repo/test/test_writer.h"
using namespace nop;
using IntHandle = Handle<DefaultHandlePolicy<int, -1>>;
struct T {
  Entry<IntHandle, 1> h;
  NOP_TABLE(T, h);
};
int main() {
  TestWriter w;
  Serializer<TestWriter*> s{&w};
  T t;
  t.h = IntHandle{7};
  auto st = s.Write(t);
  if (!st) { std::printf("write failed %s\n", st.GetErrorMessage()); return 1; }
  TestReader r;
  r.Set(w.data());
  r.SetHandles(w.handles());
  Deserializer<TestReader*> d{&r};
  T u;
  st = d.Read(&u);
  if (!st) { std::printf("read failed %s\n", st.GetErrorMessage()); return 1; }
  std::printf("ok %d %d\n", t.h.get().get(), u.h.get().get());
  return 0;
}
