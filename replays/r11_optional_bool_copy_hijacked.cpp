// Replay F-R: copying an Optional<bool> from a NON-const lvalue selects the converting constructor Optional(U&&) (bool is constructible
// from Optional<bool>& through the explicit conversion to bool): a copy of an empty Optional is non-empty, a copy of {false} is {true}.
#include <cstdio>
#include <new>
#include <limits>
#include <nop/types/optional.h>
int main() {
  nop::Optional<bool> e;              // empty
  nop::Optional<bool> c1{e};          // copy from a NON-const lvalue
  const nop::Optional<bool>& ce = e;
  nop::Optional<bool> c2{ce};         // copy from a const lvalue
  nop::Optional<bool> f{false};
  nop::Optional<bool> c3{f};
  std::printf("copy of empty (non-const source): empty=%d\n", c1.empty());
  std::printf("copy of empty (const source):     empty=%d\n", c2.empty());
  std::printf("copy of Optional{false}: empty=%d value=%d\n", c3.empty(), c3.empty() ? -1 : (int)c3.get());
  nop::Optional<int> ie; nop::Optional<int> ic{ie};
  std::printf("Optional<int> copy of empty: empty=%d\n", ic.empty());
  bool ok = c1.empty() && c2.empty() && !c3.empty() && c3.get() == false;
  std::puts(ok ? "PASS" : "FAIL");
  return !ok;
}
