// Replay F-Q: the integral std::array encoder forms its end pointer with std::array::operator[](Length), one past the last
// element: undefined behaviour (precondition n < size()), and an abort in every build with -D_GLIBCXX_ASSERTIONS (the default of
// several hardened distributions), for ANY valid input.
#include <array>
#include <cstdint>
#include <cstdio>
#include <nop/serializer.h>
#include <nop/utility/buffer_reader.h>
#include <nop/utility/buffer_writer.h>
int main() {
  std::uint8_t buf[32];
  nop::Serializer<nop::BufferWriter> s{buf, sizeof(buf)};
  std::array<std::int32_t, 3> a{{1, 2, 3}};
  auto ws = s.Write(a);
  nop::Deserializer<nop::BufferReader> d{buf, sizeof(buf)};
  std::array<std::int32_t, 3> b{};
  auto rs = d.Read(&b);
  std::printf("write %d read %d equal %d\n", (bool)ws, (bool)rs, a == b);
  std::puts((ws && rs && a == b) ? "PASS" : "FAIL");
  return !(ws && rs && a == b);
}
