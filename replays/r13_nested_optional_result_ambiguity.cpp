// Replay F-T (known finding): the documented format gives Optional a single "empty" marker (NIL) and Result a single error marker
// (ERR).  When the contained type can itself start with that marker the encoding is ambiguous and the round trip loses a state:
// an ENGAGED Optional<Optional<int>> holding an EMPTY inner Optional is written as NIL and reads back as an EMPTY outer Optional.
#include <array>
#include <cstdio>
#include <limits>
#include <nop/serializer.h>
#include <nop/types/optional.h>
#include <nop/types/result.h>
#include <nop/utility/buffer_reader.h>
#include <nop/utility/buffer_writer.h>
enum class E1 { None, A };
enum class E2 { None, B };
int main() {
  std::uint8_t buf[16];
  nop::Optional<nop::Optional<int>> in{nop::Optional<int>{}};      // engaged outer, empty inner
  nop::Serializer<nop::BufferWriter> s{buf, sizeof(buf)};
  auto ws = s.Write(in);
  nop::Deserializer<nop::BufferReader> d{buf, s.writer().size()};
  nop::Optional<nop::Optional<int>> out{nop::Optional<int>{7}};
  auto rs = d.Read(&out);
  std::printf("wrote %zu byte(s): %02x; in.empty()=%d out.empty()=%d\n", s.writer().size(), buf[0], in.empty(), out.empty());
  nop::Result<E1, nop::Result<E2, int>> rin{nop::Result<E2, int>{E2::B}};   // outer holds a value: an inner error
  nop::Serializer<nop::BufferWriter> s2{buf, sizeof(buf)};
  auto ws2 = s2.Write(rin);
  nop::Deserializer<nop::BufferReader> d2{buf, s2.writer().size()};
  nop::Result<E1, nop::Result<E2, int>> rout;
  auto rs2 = d2.Read(&rout);
  std::printf("Result: in.has_value()=%d out.has_value()=%d out.has_error()=%d\n", rin.has_value(), rout.has_value(), rout.has_error());
  bool ok = ws && rs && ws2 && rs2 && in.empty() == out.empty() && rin.has_value() == rout.has_value();
  std::puts(ok ? "PASS" : "FAIL: the value read back is in a different state than the value written");
  return !ok;
}
