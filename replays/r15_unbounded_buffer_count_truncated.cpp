// Replay F-V: an UNBOUNDED logical buffer (NOP_UNBOUNDED_BUFFER: the array member is a placeholder for a larger allocation) whose
// size member is narrower than the wire's count.  The decoder stores the decoded element count with
// static_cast<SizeMemberType>(size) and no range test: a BIN of 300 bytes is accepted with count = 44, only 44 bytes are consumed
// and the reader is left in the middle of the payload (the next value read is garbage).
#include <array>
#include <cstdint>
#include <cstdio>
#include <cstdlib>
#include <limits>
#include <new>
#include <vector>
#include <nop/serializer.h>
#include <nop/structure.h>
#include <nop/utility/buffer_reader.h>
#include <nop/utility/buffer_writer.h>
struct Packet {
  std::uint8_t count;
  std::uint8_t data[1];
  NOP_STRUCTURE(Packet, (data, count));
  NOP_UNBOUNDED_BUFFER(Packet);
};
struct Source { std::vector<std::uint8_t> data; NOP_STRUCTURE(Source, data); };   // the fungible sender-side type
int main() {
  Source payload{std::vector<std::uint8_t>(300, 0x11)};
  std::uint8_t buf[512];
  nop::Serializer<nop::BufferWriter> s{buf, sizeof(buf)};
  auto ws = s.Write(payload);                       // STRUCT(1){BIN 300}
  auto ws2 = s.Write(std::uint8_t{0x7f});           // the value that follows on the stream
  nop::Deserializer<nop::BufferReader> d{buf, s.writer().size()};
  Packet* p = static_cast<Packet*>(std::calloc(1, sizeof(Packet) + 512));
  auto rs = d.Read(p);
  std::uint8_t next = 0;
  auto rs2 = d.Read(&next);
  std::printf("read Packet: %s count=%u | next value: %s 0x%02x (0x7f was written)\n", rs ? "ok" : rs.GetErrorMessage(),
              (unsigned)p->count, rs2 ? "ok" : rs2.GetErrorMessage(), next);
  bool ok = !rs;                                     // 300 elements cannot be counted by a uint8_t: the read must be refused
  std::puts(ok ? "PASS" : "FAIL: 300 elements were accepted into a buffer whose size member can count 255");
  std::free(p);
  return !ok;
}
