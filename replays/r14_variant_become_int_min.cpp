// Replay F-U: Variant::Become(INT32_MIN) - an out-of-range index, which the documentation says leaves the Variant empty - walks
// the union with `target_index - 1` per level: signed overflow (undefined behaviour, UBSan) on the first decrement.
// build: g++ -std=c++14 -fsanitize=undefined -fno-sanitize-recover=all
#include <cstdint>
#include <cstdio>
#include <limits>
#include <new>
#include <string>
#include <nop/types/variant.h>
int main() {
  nop::Variant<int, std::string> v{std::string{"x"}};
  v.Become(std::numeric_limits<std::int32_t>::min());
  std::printf("index after Become(INT32_MIN) = %d\n", v.index());
  std::puts(v.empty() ? "PASS" : "FAIL");
  return !v.empty();
}
