#include <cstdio>
#include <cstring>
#include <memory>
#include <string>
#include <array>
#include <nop/serializer.h>
#include <nop/utility/buffer_reader.h>
#include <nop/utility/pedantic_buffer_reader.h>
using namespace nop;
int main(int argc, char** argv) {
  int which = argc > 1 ? atoi(argv[1]) : 0;
  if (which == 0) { // truncated U32: prefix only
    std::unique_ptr<std::uint8_t[]> b(new std::uint8_t[1]); b[0] = 0x82;
    Deserializer<BufferReader> d{b.get(), std::size_t{1}}; std::uint32_t v = 0; auto st = d.Read(&v);
    printf("truncated u32 via BufferReader -> %s remaining=%zu\n", st ? "OK(!)" : st.GetErrorMessage(), d.reader().remaining());
  } else if (which == 1) { // u16string: Ensure(size) under-ensures
    std::uint8_t enc[] = {0xbd, 8, 'a', 0, 'b', 0};  // claims 8 bytes, only 4 present
    std::unique_ptr<std::uint8_t[]> b(new std::uint8_t[sizeof enc]); memcpy(b.get(), enc, sizeof enc);
    Deserializer<BufferReader> d{b.get(), sizeof enc}; std::u16string s; auto st = d.Read(&s);
    printf("u16string -> %s\n", st ? "OK(!)" : st.GetErrorMessage());
  } else if (which == 2) { // std::array<int,4>: no Ensure
    std::uint8_t enc[] = {0xbc, 16, 1, 0, 0, 0};
    std::unique_ptr<std::uint8_t[]> b(new std::uint8_t[sizeof enc]); memcpy(b.get(), enc, sizeof enc);
    Deserializer<BufferReader> d{b.get(), sizeof enc}; std::array<int,4> a; auto st = d.Read(&a);
    printf("array<int,4> -> %s\n", st ? "OK(!)" : st.GetErrorMessage());
  } else if (which == 3) { // empty buffer
    std::unique_ptr<std::uint8_t[]> b(new std::uint8_t[1]);
    Deserializer<BufferReader> d{b.get(), std::size_t{0}}; bool v; auto st = d.Read(&v);
    printf("empty -> %s\n", st ? "OK(!)" : st.GetErrorMessage());
  }
}
