// Replay F-O: the container rules of IsFungible decay the element type, which turns an inner C array into a pointer, so
// arrays of C arrays with DIFFERENT inner extents are declared fungible although their encodings are incompatible.
#include <array>
#include <cstdio>
#include <cstdint>
#include <tuple>
#include <vector>
#include <nop/serializer.h>
#include <nop/protocol.h>
#include <nop/traits/is_fungible.h>
#include <nop/utility/buffer_reader.h>
#include <nop/utility/buffer_writer.h>
using A = std::array<std::int32_t[3], 2>;
using B = std::array<std::int32_t[4], 2>;
int main() {
  std::printf("IsFungible<int32[2][3], int32[2][4]> = %d\n", (int)nop::IsFungible<std::int32_t[2][3], std::int32_t[2][4]>::value);
  std::printf("IsFungible<array<int32[3],2>, array<int32[4],2>> = %d\n", (int)nop::IsFungible<A, B>::value);
  std::printf("IsFungible<vector<int32[3]>... skipped\n");
  std::uint8_t buf[128];
  nop::Serializer<nop::BufferWriter> s{buf, sizeof(buf)};
  A a{{{1, 2, 3}, {4, 5, 6}}};
  auto ws = s.Write(a);     // Protocol<B>::Write(&s, a) is admitted exactly when the trait is true
  std::printf("encoding an A value: %s, %zu bytes\n", ws ? "ok" : ws.GetErrorMessage(), s.writer().size());
  nop::Deserializer<nop::BufferReader> d{buf, s.writer().size()};
  B b{};
  auto rs = d.Read(&b);
  std::printf("decoding those bytes as B: %s\n", rs ? "ok" : rs.GetErrorMessage());
  bool tuple_trait = nop::IsFungible<std::tuple<std::int32_t[3]>, std::tuple<std::int32_t[4]>>::value;   // F-O2: same decay in the tuple / pair rules
  std::printf("IsFungible<tuple<int32[3]>, tuple<int32[4]>> = %d\n", (int)tuple_trait);
  bool trait = nop::IsFungible<A, B>::value || tuple_trait;
  bool fail = trait && !rs;
  std::puts(fail ? "FAIL: the trait declares the pair fungible but B cannot decode A's encoding" : "PASS");
  return fail;
}
