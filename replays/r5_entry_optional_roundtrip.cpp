#include <cstdio>
#include <cstdint>
#include <string>
#include <vector>
#include <limits>
#include <array>
#include <nop/serializer.h>
#include <nop/table.h>
#include <nop/types/optional.h>
#include <nop/utility/buffer_reader.h>
#include <nop/utility/buffer_writer.h>
#include <nop/utility/pedantic_buffer_reader.h>
struct T1 { nop::Entry<nop::Optional<std::string>, 1> a; NOP_TABLE(T1, a); };
int main() {
  std::uint8_t buf[256] = {};
  T1 w; w.a = nop::Optional<std::string>{std::string("hello world, a fairly long string to defeat SSO............")};
  nop::Serializer<nop::BufferWriter> ser{buf, sizeof(buf)};
  auto ws = ser.Write(w);
  std::printf("write: %s, %zu bytes\n", ws ? "ok" : ws.GetErrorMessage(), ser.writer().size());
  T1 r; nop::Deserializer<nop::PedanticBufferReader> d{buf, ser.writer().size()};
  auto s = d.Read(&r);
  std::printf("read: %s  entry empty=%d\n", s ? "ok" : s.GetErrorMessage(), (int)r.a.empty());
  if (!r.a.empty()) std::printf(" inner empty=%d value=%s\n", (int)r.a.get().empty(), r.a.get().empty() ? "" : r.a.get().get().c_str());
}
