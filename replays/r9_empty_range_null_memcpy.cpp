// Replay F-P: decoding an EMPTY integral vector passes the vector's null data pointer to memcpy (length 0):
// undefined behaviour by the library clause on null pointer arguments, reported by UBSan (nonnull attribute).
#include <array>
#include <cstdint>
#include <cstdio>
#include <vector>
#include <nop/serializer.h>
#include <nop/utility/buffer_reader.h>
#include <nop/utility/pedantic_buffer_reader.h>
// (BufferWriter / PedanticBufferWriter::Write have the same pattern on the encoding side, which no listed property covers.)
int main() {
  const std::uint8_t input[] = {0xbc, 0x00};      // BIN, 0 bytes: a valid empty std::vector<uint8_t>
  std::vector<std::uint8_t> v;
  nop::Deserializer<nop::PedanticBufferReader> d{input, sizeof(input)};
  auto rs = d.Read(&v);
  nop::Deserializer<nop::BufferReader> d2{input, sizeof(input)};
  auto rs2 = d2.Read(&v);
  std::printf("read %d %d\n", (bool)rs, (bool)rs2);
  std::puts("PASS");
  return 0;
}
