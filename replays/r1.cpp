#include <cstdio>
#include <cstring>
#include <sstream>
#include <vector>
#include <functional>
#include <nop/serializer.h>
#include <nop/structure.h>
#include <nop/value.h>
#include <nop/protocol.h>
#include <nop/utility/buffer_reader.h>
#include <nop/utility/buffer_writer.h>
#include <nop/utility/pedantic_buffer_reader.h>
#include <nop/utility/stream_reader.h>
#include <nop/utility/stream_writer.h>
#include <nop/utility/bounded_writer.h>
#include <nop/utility/endian.h>
#include <nop/utility/sip_hash.h>
#include <nop/traits/is_fungible.h>
using namespace nop;

struct TabA { Entry<std::string,1> a; NOP_TABLE(TabA, a); };
struct TabB { Entry<int,2> b; NOP_TABLE(TabB, b); };   // does not know id 1 -> skips
struct LB { std::uint32_t data[100]; std::uint8_t count; NOP_STRUCTURE(LB, (data, count)); };
struct LBI { int data[64]; int count; NOP_STRUCTURE(LBI, (data, count)); };
struct VI { std::vector<int> data; NOP_STRUCTURE(VI, data); };
template <typename T> struct Wrap { T v; NOP_VALUE(Wrap, v); };

int main() {
  // F4: StreamReader: table with unknown entry, truncated inside the skipped entry
  {
    Serializer<StreamWriter<std::stringstream>> s;
    TabA t; t.a = std::string(40, 'x');
    s.Write(t);
    std::string full = s.writer().stream().str();
    int accepted = 0; size_t firstk = 0;
    for (size_t k = 0; k < full.size(); k++) {
      Deserializer<StreamReader<std::stringstream>> d{full.substr(0, k)};
      TabB r;
      auto st = d.Read(&r);
      if (st) { if (!accepted) firstk = k; accepted++; }
    }
    printf("F4 stream: len=%zu truncated prefixes accepted=%d first=%zu\n", full.size(), accepted, firstk);
  }
  // F5: BoundedWriter::Prepare overflow
  {
    std::uint8_t buf[16]; BufferWriter w{buf, sizeof buf};
    BoundedWriter<BufferWriter> bw{&w, 8};
    bw.Write(std::uint8_t{1}); bw.Write(std::uint8_t{2});
    auto st = bw.Prepare(~std::size_t{0});
    printf("F5 BoundedWriter.Prepare(2^64-1) with 6 left -> %s\n", st ? "OK(!)" : st.GetErrorMessage());
    BufferWriter w2{buf, 4}; w2.Write(std::uint8_t{1});
    auto st2 = w2.Prepare(~std::size_t{0});
    printf("F5 BufferWriter.Prepare(2^64-1) -> %s\n", st2 ? "OK(!)" : st2.GetErrorMessage());
  }
  // F7: accumulate 0U truncation
  {
    std::vector<std::uint8_t> big(1u << 20);
    std::vector<std::reference_wrapper<std::vector<std::uint8_t>>> v;
    for (int i = 0; i < 4100; i++) v.push_back(std::ref(big));
    Serializer<BufferWriter> s;
    std::size_t sz = s.GetSize(v);
    unsigned long long expect = 1 + 3 + 4100ull * (1 + 5 + (1u << 20));
    printf("F7 GetSize=%zu expected>=%llu %s\n", sz, expect, sz < expect ? "UNDER-ESTIMATE" : "ok");
  }
  // F8: logical buffer narrow size type
  {
    LB x{}; x.count = 100; for (int i = 0; i < 100; i++) x.data[i] = i;
    Serializer<StreamWriter<std::stringstream>> s; auto st = s.Write(x);
    std::string bytes = s.writer().stream().str();
    Deserializer<StreamReader<std::stringstream>> d{bytes};
    LB y{}; auto st2 = d.Read(&y);
    printf("F8 LB<uint32[100],uint8>: write=%d size=%zu GetSize=%zu read=%s count=%d\n", (bool)st, bytes.size(), s.GetSize(x), st2 ? "ok" : st2.GetErrorMessage(), y.count);
    LBI a{}; a.count = 64;
    Serializer<StreamWriter<std::stringstream>> s2; s2.Write(a);
    std::string b2 = s2.writer().stream().str();
    printf("F8 LBI prefix bytes: %02x %02x %02x %02x %02x\n", (unsigned char)b2[0], (unsigned char)b2[1], (unsigned char)b2[2], (unsigned char)b2[3], (unsigned char)b2[4]);
    Deserializer<StreamReader<std::stringstream>> d2{b2};
    VI vi; auto st3 = d2.Read(&vi);
    printf("F8 IsFungible<LBI,VI>=%d read LBI bytes as VI -> %s\n", (int)IsFungible<LBI, VI>::value, st3 ? "ok" : st3.GetErrorMessage());
  }
  // F9: vector<int> vs vector<Wrap<int>>
  {
    printf("F9 IsFungible<vector<int>,vector<Wrap<int>>>=%d\n", (int)IsFungible<std::vector<int>, std::vector<Wrap<int>>>::value);
    Serializer<StreamWriter<std::stringstream>> s; s.Write(std::vector<int>{1,2,3});
    Deserializer<StreamReader<std::stringstream>> d{s.writer().stream().str()};
    std::vector<Wrap<int>> w; auto st = d.Read(&w);
    printf("F9 cross decode -> %s\n", st ? "ok" : st.GetErrorMessage());
  }
  // F10: endian float
  {
    float f = 1.0f; float g = HostEndian<float>::FromLittle(f); float h = HostEndian<float>::FromBig(f);
    std::uint32_t gi, hi; memcpy(&gi, &g, 4); memcpy(&hi, &h, 4);
    printf("F10 float FromLittle(1.0f) bits=%08x FromBig bits=%08x (host LE expects 3f800000 / 0000803f)\n", gi, hi);
    printf("F10 u32 FromLittle=%08x FromBig=%08x\n", HostEndian<std::uint32_t>::FromLittle(0x3f800000u), HostEndian<std::uint32_t>::FromBig(0x3f800000u));
  }
  // F11: SipHash signed char
  {
    const char c[] = {'\xe9', 'a', 'b', 'c', 'd', 'e', 'f', 'g', 'h'};
    const std::uint8_t u[] = {0xe9, 'a', 'b', 'c', 'd', 'e', 'f', 'g', 'h'};
    printf("F11 siphash char=%016llx uint8=%016llx\n", (unsigned long long)SipHash::Compute(c, 1, 2), (unsigned long long)SipHash::Compute(u, 1, 2));
  }
  return 0;
}
