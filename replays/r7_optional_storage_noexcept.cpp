// Replay F-N: Optional<T>::Storage's forwarding constructor is declared noexcept unconditionally although it constructs T from
// arbitrary arguments.  When T's constructor throws, std::terminate is called instead of the exception propagating, so the values
// contained in other live Optionals are never destroyed (constructed / destroyed pairs do not match).
#include <array>
#include <cstdio>
#include <cstdlib>
#include <exception>
#include <stdexcept>
#include <nop/types/optional.h>
static int constructed = 0, destroyed = 0;
struct Tracked {
  Tracked() { constructed++; }
  Tracked(const Tracked&) { constructed++; }
  ~Tracked() { destroyed++; }
};
struct Thrower {
  explicit Thrower(int v) { if (v < 0) throw std::runtime_error("negative"); }
  Thrower(const Thrower&) = default;
  ~Thrower() {}
};
static void report_terminate() {
  std::printf("std::terminate called; contained values constructed=%d destroyed=%d\nFAIL\n", constructed, destroyed);
  std::fflush(stdout);
  std::_Exit(1);
}
int main() {
  std::set_terminate(report_terminate);
  try {
    nop::Optional<Tracked> held{Tracked{}};
    nop::Optional<Thrower> t{-1};          // T's constructor throws
    (void)t;
  } catch (const std::exception& e) {
    std::printf("exception propagated (%s); contained values constructed=%d destroyed=%d\n", e.what(), constructed, destroyed);
    std::puts(constructed == destroyed ? "PASS" : "FAIL");
    return constructed == destroyed ? 0 : 1;
  }
  std::puts("FAIL: no exception");
  return 1;
}
