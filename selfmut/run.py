#!/usr/bin/env python3
"""Both-ways test of the rules: applies each hand-written single-edit variant of
google/libnop (selfmut/catalogue.py) to a scratch copy of /repo's sources outside
/repo and /verif, runs the named checks against the copy (NOPSA_REPO) and expects
exit 1 with a VIOLATION line.  With --validate the variant is also built with the
repository's own flags and the unedited test suite is run: a variant only counts
as 'invisible to the tests' if it compiles and passes 315/315.

usage: selfmut/run.py [--validate] [--only NAME-substring] [--prop Cxx]
"""
import argparse, json, os, shutil, subprocess, sys, tempfile, time
from concurrent.futures import ThreadPoolExecutor

VERIF = os.path.dirname(os.path.dirname(os.path.abspath(__file__)))
sys.path.insert(0, VERIF)
from selfmut.catalogue import MUTANTS  # noqa


def make_copy(dst):
    os.makedirs(dst)
    for d in ('include', 'test', 'examples', 'docs'):
        shutil.copytree(os.path.join('/repo', d), os.path.join(dst, d))
    shutil.copy('/repo/Makefile', dst)
    if os.path.isdir('/repo/build'):
        shutil.copytree('/repo/build', os.path.join(dst, 'build'))


def apply(root, m):
    path = os.path.join(root, m['file'])
    s = open(path).read()
    if s.count(m['old']) < 1:
        return 'old text not found'
    n = m.get('nth', 0)
    idx = -1
    for _ in range(n + 1):
        idx = s.find(m['old'], idx + 1)
        if idx < 0:
            return 'occurrence %d of old text not found' % n
    s = s[:idx] + m['new'] + s[idx + len(m['old']):]
    open(path, 'w').write(s)
    return None


def one(m, validate):
    tmp = tempfile.mkdtemp(prefix='nopmut_')
    root = os.path.join(tmp, 'repo')
    out = {'name': m['name'], 'props': m['props']}
    try:
        make_copy(root)
        edits = m.get('edits') or [m]
        for e in edits:
            err = apply(root, e)
            if err:
                out['error'] = err
                return out
        env = dict(os.environ, NOPSA_REPO=root, NOPSA_OUT=os.path.join(tmp, 'o'))
        out['results'] = {}
        for p in m['props']:
            r = subprocess.run([sys.executable, os.path.join(VERIF, 'checks', 'run.py'), p, '--tier', 'quick'],
                               env=env, stdout=subprocess.PIPE, stderr=subprocess.STDOUT)
            txt = r.stdout.decode(errors='replace')
            rules = sorted({l.split()[1] for l in txt.splitlines() if l.startswith('  rule ')})
            out['results'][p] = {'rc': r.returncode, 'rules': rules,
                                 'first': next((l.strip() for l in txt.splitlines() if l.startswith('  rule ')), '')[:200]}
        if validate:
            r = subprocess.run('cd %s && make -j4 out/test >/dev/null 2>&1 && out/test 2>&1 | tail -1' % root, shell=True,
                               stdout=subprocess.PIPE, stderr=subprocess.STDOUT)
            out['suite'] = r.stdout.decode().strip()[-80:]
    finally:
        shutil.rmtree(tmp, ignore_errors=True)
    return out


def main():
    ap = argparse.ArgumentParser()
    ap.add_argument('--validate', action='store_true')
    ap.add_argument('--only', default='')
    ap.add_argument('--prop', default='')
    ap.add_argument('-j', type=int, default=8)
    a = ap.parse_args()
    ms = [m for m in MUTANTS if a.only in m['name'] and (not a.prop or a.prop in m['props'])]
    with ThreadPoolExecutor(max_workers=a.j) as ex:
        res = list(ex.map(lambda m: one(m, a.validate), ms))
    bad = 0
    for r in res:
        if 'error' in r:
            print('ERROR  %-45s %s' % (r['name'], r['error']))
            bad += 1
            continue
        for p, x in r['results'].items():
            status = 'caught' if x['rc'] == 1 else ('BROKEN' if x['rc'] == 2 else 'MISSED')
            if x['rc'] != 1:
                bad += 1
            print('%-7s %-45s %s rules=%s %s %s' % (status, r['name'], p, ','.join(x['rules']), r.get('suite', ''), x['first'][:110]))
    print('%d variant(s), %d not caught' % (len(res), bad))
    sys.exit(1 if bad else 0)


if __name__ == '__main__':
    main()
