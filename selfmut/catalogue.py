"""Hand-written single-edit variants of google/libnop used to test each rule both
ways (DESIGN.md Appendix A).  Each entry: name, props expected to report it, file,
old text, new text (nth = which occurrence)."""

MUTANTS = [
    # ---- C19 ----
    dict(name='c19_drop_thread_local', props=['C19'], file='include/nop/types/thread_local.h',
         old='static thread_local Optional<ValueType> value;', new='static Optional<ValueType> value;'),
    dict(name='c19_setup_overwrites', props=['C19'], file='include/nop/types/thread_local.h',
         old='    if (value->empty())\n      *value =', new='    *value ='),
    dict(name='c19_static_counter_in_stream_reader', props=['C19'], file='include/nop/utility/stream_reader.h',
         old='    const std::size_t length_bytes = std::distance(begin_char, end_char);\n',
         new='    const std::size_t length_bytes = std::distance(begin_char, end_char);\n    static std::size_t total_bytes = 0;\n    total_bytes += length_bytes;\n'),
    # ---- C10 ----
    dict(name='c10_map_key_status_dropped', props=['C10'], file='include/nop/base/map.h', nth=1,
         old='      status = Encoding<Key>::Write(element.first, writer);\n      if (!status)\n        return status;\n',
         new='      status = Encoding<Key>::Write(element.first, writer);\n'),
    dict(name='c10_bounded_writer_skip_untested', props=['C10'], file='include/nop/utility/bounded_writer.h',
         old='    auto status = writer_->Skip(padding_bytes, padding_value);\n    if (!status)\n      return status;\n',
         new='    auto status = writer_->Skip(padding_bytes, padding_value);\n'),
    dict(name='c10_sender_continues_after_failed_selector', props=['C10'], file='include/nop/rpc/simple_method_sender.h',
         old='    auto status = serializer_->Write(method_selector);\n    if (!status) {\n      *return_value = status.error();\n      return;\n    }\n',
         new='    auto status = serializer_->Write(method_selector);\n    if (!status) {\n      *return_value = status.error();\n    }\n'),
    dict(name='c10_handle_push_error_replaced', props=['C10'], file='include/nop/base/handle.h',
         old='      return push_status.error();', new='      return ErrorStatus::InvalidHandleValue;'),
    dict(name='c10_prepare_failure_ignored', props=['C10'], file='include/nop/base/serializer.h',
         old='    auto status = writer->Prepare(size_bytes);\n    if (!status)\n      return status;\n',
         new='    writer->Prepare(size_bytes);\n'),
    dict(name='c10_table_entry_padding_status_success', props=['C10'], file='include/nop/base/table.h',
         old='      return bounded_reader.ReadPadding();', new='      bounded_reader.ReadPadding();\n      return {};'),
    dict(name='c10_readas_returns_ok_on_failure', props=['C10'], file='include/nop/base/encoding.h',
         old='    auto status = reader->Read(&temp, &temp + 1);\n    if (!status)\n      return status;\n\n    *value = static_cast<From>(temp);',
         new='    auto status = reader->Read(&temp, &temp + 1);\n    if (!status)\n      return {};\n\n    *value = static_cast<From>(temp);'),
]
